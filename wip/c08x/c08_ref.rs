//! C08 helper: the reference ("meaning") evaluator. Written from the rustdoc of `Constraint`, of the
//! `filter_*` methods and of the item-level API; works on the reference model only (no stam calls).
//! Three-valued: `Some(true)` the item satisfies the constraint, `Some(false)` it does not, `None` the
//! documentation does not decide (counted as don't-care by the caller).

use super::spec::*;
use crate::model::*;
use crate::rel::{self, Op, Rel, R};
use std::collections::BTreeSet;

pub type Env = Vec<(String, It)>;

/// stam's (private) WHITESPACE_LIMIT for PRECEDES/SUCCEEDS with allow_whitespace
const WHITESPACE_LIMIT: usize = 10;

pub fn and3(it: impl Iterator<Item = Option<bool>>) -> Option<bool> {
    let mut unknown = false;
    for x in it {
        match x {
            Some(false) => return Some(false),
            None => unknown = true,
            Some(true) => {}
        }
    }
    if unknown {
        None
    } else {
        Some(true)
    }
}

pub fn or3(it: impl Iterator<Item = Option<bool>>) -> Option<bool> {
    let mut unknown = false;
    for x in it {
        match x {
            Some(true) => return Some(true),
            None => unknown = true,
            Some(false) => {}
        }
    }
    if unknown {
        None
    } else {
        Some(false)
    }
}

pub struct Ref<'m> {
    pub m: &'m Model,
}

fn lookup<'e>(env: &'e Env, var: &str) -> Option<&'e It> {
    env.iter().rev().find(|(n, _)| n == var).map(|(_, i)| i)
}

fn relop_of(op: u8) -> Op {
    let rel = match op % 10 {
        0 => Rel::Equals,
        1 => Rel::Embeds,
        2 => Rel::Embedded,
        3 => Rel::Overlaps,
        4 => Rel::Precedes,
        5 => Rel::Succeeds,
        6 => Rel::SameBegin,
        7 => Rel::SameEnd,
        8 => Rel::Before,
        _ => Rel::After,
    };
    // the STAMQL keywords stand for the default-constructed operators (precedes()/succeeds() allow whitespace)
    Op { rel, all: false, negate: false, limit: None, ws: matches!(rel, Rel::Precedes | Rel::Succeeds) }
}

impl<'m> Ref<'m> {
    /// all live items of a result type that certainly belong to the universe of an unconstrained query
    pub fn universe(&self, rt: u8) -> Vec<It> {
        let m = self.m;
        match rt % 6 {
            T_ANN => m.live_anns().into_iter().map(It::A).collect(),
            T_DATA => m
                .live_sets()
                .into_iter()
                .flat_map(|s| m.set(s).live_data().into_iter().map(move |d| It::D(s, d)))
                .collect(),
            T_KEY => m
                .live_sets()
                .into_iter()
                .flat_map(|s| m.set(s).live_keys().into_iter().map(move |k| It::K(s, k)))
                .collect(),
            T_TEXT => {
                // text selections referenced by at least one live annotation
                let mut set: BTreeSet<(usize, usize, usize)> = BTreeSet::new();
                for a in m.live_anns() {
                    for t in m.ann(a).target.texts() {
                        set.insert(t);
                    }
                }
                set.into_iter().map(|(r, b, e)| It::T(r, b, e)).collect()
            }
            T_RES => m.live_resources().into_iter().map(It::R).collect(),
            _ => m.live_sets().into_iter().map(It::S).collect(),
        }
    }

    // ---- facts about annotations -----------------------------------------------------------

    fn texts(&self, a: usize) -> Vec<(usize, usize, usize)> {
        self.m.ann(a).target.texts()
    }
    /// annotations reachable from `a` through annotation selectors (excluding `a` unless cyclic, which cannot happen)
    fn reach(&self, a: usize) -> BTreeSet<usize> {
        let mut seen = BTreeSet::new();
        let mut stack: Vec<usize> = self.m.ann(a).target.anns();
        while let Some(x) = stack.pop() {
            if self.m.anns.get(x).map(|o| o.is_some()).unwrap_or(false) && seen.insert(x) {
                stack.extend(self.m.ann(x).target.anns());
            }
        }
        seen
    }
    /// does `a` select text of resource `r`: yes with its own text selection, undecided when only through the
    /// annotations it targets (the documentation of `resources()`/`annotations()` does not settle that), else no
    fn on_text_of(&self, a: usize, r: usize) -> Option<bool> {
        if self.texts(a).iter().any(|t| t.0 == r) {
            // relative offsets (annotation selector with offset) select text of the resource too, but "via a TextSelector" is
            // only literally true for text selectors
            if self.m.ann(a).target.leaves().iter().any(|s| matches!(s, MSel::Text { res, .. } if *res == r)) {
                return Some(true);
            }
            return None;
        }
        if self.reach(a).iter().any(|x| self.texts(*x).iter().any(|t| t.0 == r)) {
            return None;
        }
        Some(false)
    }
    fn leaf_hit(&self, a: usize, f: &dyn Fn(&MSel) -> bool) -> Option<bool> {
        if self.m.ann(a).target.leaves().iter().any(|s| f(s)) {
            return Some(true);
        }
        if self.reach(a).iter().any(|x| self.m.ann(*x).target.leaves().iter().any(|s| f(s))) {
            return None;
        }
        Some(false)
    }
    fn meta_on_res(&self, a: usize, r: usize) -> Option<bool> {
        self.leaf_hit(a, &|s| matches!(s, MSel::Res(x) if *x == r))
    }
    fn data_of(&self, a: usize) -> &Vec<(usize, usize)> {
        &self.m.ann(a).data
    }
    fn value(&self, s: usize, d: usize) -> &Val {
        &self.m.set(s).data[d].as_ref().unwrap().value
    }
    fn key_of(&self, s: usize, d: usize) -> usize {
        self.m.set(s).data[d].as_ref().unwrap().key
    }
    fn has_key(&self, a: usize, s: usize, k: usize) -> bool {
        self.data_of(a).iter().any(|(ds, dd)| *ds == s && self.key_of(*ds, *dd) == k)
    }
    fn has_keyvalue(&self, a: usize, s: usize, k: usize, op: &OpC) -> Option<bool> {
        let dop = op.dop();
        or3(self.data_of(a).iter().filter(|(ds, dd)| *ds == s && self.key_of(*ds, *dd) == k).map(|(ds, dd)| dop.reference(self.value(*ds, *dd))))
    }
    fn has_value(&self, a: usize, op: &OpC) -> Option<bool> {
        let dop = op.dop();
        or3(self.data_of(a).iter().map(|(ds, dd)| dop.reference(self.value(*ds, *dd))))
    }
    /// annotations that have (r,b,e) among their text selections
    fn anns_on(&self, t: (usize, usize, usize)) -> Vec<usize> {
        self.m.live_anns().into_iter().filter(|a| self.texts(*a).contains(&t)).collect()
    }

    // ---- text ------------------------------------------------------------------------------

    fn text_match(&self, text: &str, w: &str, mode: u8) -> Option<bool> {
        match mode % 3 {
            0 => Some(text == w),
            1 => {
                let lower = text.to_lowercase() == w.to_lowercase();
                let upper = text.to_uppercase() == w.to_uppercase();
                if lower == upper {
                    Some(lower)
                } else {
                    None // case folding is not one-to-one for this pair (ß, İ, ǅ, K ...): not pinned down
                }
            }
            _ => {
                let re = regex::Regex::new(w).expect("valid regex");
                if !re.is_match(text) {
                    Some(false)
                } else if re.find(text).map(|m| m.start() == 0 && m.end() == text.len()).unwrap_or(false)
                    || regex::Regex::new(&format!("^(?:{})$", w)).map(|r| r.is_match(text)).unwrap_or(false)
                {
                    Some(true)
                } else {
                    None // matches a part only: "matching" is not said to be anchored or not
                }
            }
        }
    }

    fn ann_text(&self, a: usize, w: &str, mode: u8) -> Option<bool> {
        let pieces = self.m.text_ranges(a);
        match pieces.len() {
            0 => {
                if mode % 3 == 2 {
                    None
                } else {
                    Some(false) // the literal is never empty
                }
            }
            1 => self.text_match(&self.m.slice(pieces[0]), w, mode),
            _ => {
                // several pieces: how they are joined for the comparison (delimiter, empty pieces) is not documented
                None
            }
        }
    }

    // ---- relations ---------------------------------------------------------------------------

    /// `ref OP cand` for single selections on the same resource (candidate never the reference itself)
    fn rel_pair(&self, op: &Op, a: R, c: R, text: &[char]) -> Option<bool> {
        if op.ws {
            let (from, to) = if op.rel == Rel::Precedes { (a.1, c.0) } else { (c.1, a.0) };
            if to > from && to - from > WHITESPACE_LIMIT && rel::pair_pos(op, a, c, text) == Some(true) {
                return None; // "a limited amount of whitespace"
            }
        }
        let d = rel::sets(op, &[a], &[c], text, true);
        let i = rel::sets(op, &[a], &[c], text, false);
        if d == i {
            d
        } else {
            None
        }
    }

    /// is text selection `c` related to any of the reference selections (each taken separately)
    fn related(&self, refs: &[(usize, usize, usize)], op: u8, c: (usize, usize, usize)) -> Option<bool> {
        let op = relop_of(op);
        let text = &self.m.res(c.0).text;
        or3(refs.iter().filter(|r| r.0 == c.0).map(|r| {
            if (r.1, r.2) == (c.1, c.2) {
                // the reference itself is only returned by the equality relation
                Some(op.rel == Rel::Equals)
            } else {
                self.rel_pair(&op, (r.1, r.2), (c.1, c.2), text)
            }
        }))
    }

    fn var_texts(&self, env: &Env, var: &str) -> Option<Vec<(usize, usize, usize)>> {
        match lookup(env, var)? {
            It::T(r, b, e) => Some(vec![(*r, *b, *e)]),
            It::A(a) => Some(self.texts(*a)),
            _ => None,
        }
    }

    // ---- the meaning table -------------------------------------------------------------------

    pub fn sat(&self, rt: u8, cand: &It, c: &CC, env: &Env) -> Option<bool> {
        let m = self.m;
        match c {
            CC::Union(arms) => return or3(arms.iter().map(|a| self.sat(rt, cand, a, env))),
            CC::Limit { .. } => return Some(true),
            _ => {}
        }
        // variable forms are the constant forms with the bound item substituted
        let var_item = |var: &str| lookup(env, var).cloned();
        match (rt % 6, cand) {
            (T_ANN, It::A(a)) => {
                let a = *a;
                match c {
                    CC::Id { id } => Some(m.ann(a).id.as_deref() == Some(id.as_str())),
                    CC::DataKey { s, k, meta: false, .. } => Some(self.has_key(a, *s, *k)),
                    CC::KeyValue { s, k, op, meta: false, .. } => self.has_keyvalue(a, *s, *k, op),
                    CC::Value { op } => self.has_value(a, op),
                    CC::Text { w, mode } => self.ann_text(a, w, *mode),
                    CC::Resource { r, meta: false, .. } => self.on_text_of(a, *r),
                    CC::Resource { r, meta: true, .. } => self.meta_on_res(a, *r),
                    CC::DataSet { s, meta: false, .. } => Some(self.data_of(a).iter().any(|(ds, _)| ds == s)),
                    CC::DataSet { s, meta: true, .. } => self.leaf_hit(a, &|x| matches!(x, MSel::Set(y) if y == s)),
                    CC::Annotation { a: x, meta, rec, .. } => self.ann_ann(a, *x, *meta, *rec),
                    CC::VarAnnotation { var, meta, rec } => match var_item(var)? {
                        It::A(x) => self.ann_ann(a, x, *meta, *rec),
                        _ => None,
                    },
                    CC::VarResource { var, meta, .. } => match var_item(var)? {
                        It::R(r) => {
                            if *meta {
                                self.meta_on_res(a, r)
                            } else {
                                self.on_text_of(a, r)
                            }
                        }
                        _ => None,
                    },
                    CC::VarDataSet { var } => match var_item(var)? {
                        It::S(s) => Some(self.data_of(a).iter().any(|(ds, _)| *ds == s)),
                        _ => None,
                    },
                    CC::VarKey { var, meta: false } => match var_item(var)? {
                        It::K(s, k) => Some(self.has_key(a, s, k)),
                        _ => None,
                    },
                    CC::VarData { var, meta: false } => match var_item(var)? {
                        It::D(s, d) => Some(self.data_of(a).contains(&(s, d))),
                        _ => None,
                    },
                    CC::VarText { var } => {
                        let refs = self.var_texts(env, var)?;
                        Some(self.texts(a).iter().any(|t| refs.contains(t)))
                    }
                    CC::Relation { var, op } => {
                        let refs = self.var_texts(env, var)?;
                        or3(self.texts(a).into_iter().map(|t| self.related(&refs, *op, t)))
                    }
                    _ => None,
                }
            }
            (T_DATA, It::D(s, d)) => {
                let (s, d) = (*s, *d);
                match c {
                    CC::DataKey { s: cs, k, meta: false, .. } => Some(s == *cs && self.key_of(s, d) == *k),
                    CC::KeyValue { s: cs, k, op, meta: false, .. } => {
                        if s == *cs && self.key_of(s, d) == *k {
                            op.dop().reference(self.value(s, d))
                        } else {
                            Some(false)
                        }
                    }
                    CC::Value { op } => op.dop().reference(self.value(s, d)),
                    CC::DataSet { s: cs, meta: false, .. } => Some(s == *cs),
                    CC::Annotation { a: x, meta, .. } => self.data_ann(s, d, *x, *meta),
                    CC::VarAnnotation { var, meta, .. } => match var_item(var)? {
                        It::A(x) => self.data_ann(s, d, x, *meta),
                        _ => None,
                    },
                    CC::VarKey { var, meta: false } => match var_item(var)? {
                        It::K(ks, k) => Some(ks == s && self.key_of(s, d) == k),
                        _ => None,
                    },
                    CC::VarDataSet { var } => match var_item(var)? {
                        It::S(x) => Some(x == s),
                        _ => None,
                    },
                    CC::VarData { var, meta: false } => match var_item(var)? {
                        It::D(xs, xd) => Some((xs, xd) == (s, d)),
                        _ => None,
                    },
                    CC::VarText { var } => match var_item(var)? {
                        It::T(r, b, e) => Some(self.anns_on((r, b, e)).iter().any(|a| self.data_of(*a).contains(&(s, d)))),
                        _ => None,
                    },
                    _ => None,
                }
            }
            (T_KEY, It::K(s, k)) => {
                let (s, k) = (*s, *k);
                match c {
                    CC::DataSet { s: cs, meta: false, .. } => Some(s == *cs),
                    CC::Annotation { a: x, meta, .. } => self.key_ann(s, k, *x, *meta),
                    CC::VarAnnotation { var, meta, .. } => match var_item(var)? {
                        It::A(x) => self.key_ann(s, k, x, *meta),
                        _ => None,
                    },
                    CC::VarKey { var, meta: false } => match var_item(var)? {
                        It::K(xs, xk) => Some((xs, xk) == (s, k)),
                        _ => None,
                    },
                    CC::VarData { var, meta: false } => match var_item(var)? {
                        It::D(xs, xd) => Some(xs == s && self.key_of(xs, xd) == k),
                        _ => None,
                    },
                    CC::VarDataSet { var } => match var_item(var)? {
                        It::S(x) => Some(x == s),
                        _ => None,
                    },
                    _ => None,
                }
            }
            (T_SET, It::S(s)) => {
                let s = *s;
                match c {
                    CC::Id { id } | CC::DataSet { id, .. } => Some(m.set(s).id == *id),
                    CC::VarDataSet { var } => match var_item(var)? {
                        It::S(x) => Some(x == s),
                        _ => None,
                    },
                    CC::VarKey { var, meta: false } => match var_item(var)? {
                        It::K(xs, _) => Some(xs == s),
                        _ => None,
                    },
                    CC::VarData { var, meta: false } => match var_item(var)? {
                        It::D(xs, _) => Some(xs == s),
                        _ => None,
                    },
                    _ => None,
                }
            }
            (T_RES, It::R(r)) => {
                let r = *r;
                match c {
                    CC::Id { id } | CC::Resource { id, .. } => Some(m.res(r).id == *id),
                    CC::DataKey { s, k, meta, .. } => self.res_anns(r, *meta, &|a| Some(self.has_key(a, *s, *k))),
                    CC::KeyValue { s, k, op, meta, .. } => self.res_anns(r, *meta, &|a| self.has_keyvalue(a, *s, *k, op)),
                    CC::VarKey { var, meta } => match var_item(var)? {
                        It::K(s, k) => self.res_anns(r, *meta, &|a| Some(self.has_key(a, s, k))),
                        _ => None,
                    },
                    CC::VarData { var, meta } => match var_item(var)? {
                        It::D(s, d) => self.res_anns(r, *meta, &|a| Some(self.data_of(a).contains(&(s, d)))),
                        _ => None,
                    },
                    _ => None,
                }
            }
            (T_TEXT, It::T(r, b, e)) => {
                let t = (*r, *b, *e);
                match c {
                    CC::Resource { r: cr, offset, .. } => match offset {
                        None => Some(t.0 == *cr),
                        Some((ob, oe)) => Some(t == (*cr, *ob, *oe)),
                    },
                    CC::VarResource { var, offset, .. } => match var_item(var)? {
                        It::R(x) => match offset {
                            None => Some(t.0 == x),
                            Some((ob, oe)) => Some(t == (x, *ob, *oe)),
                        },
                        _ => None,
                    },
                    CC::Annotation { a: x, .. } => Some(self.texts(*x).contains(&t)),
                    CC::VarAnnotation { var, .. } => match var_item(var)? {
                        It::A(x) => Some(self.texts(x).contains(&t)),
                        _ => None,
                    },
                    CC::DataKey { s, k, .. } => Some(self.anns_on(t).iter().any(|a| self.has_key(*a, *s, *k))),
                    CC::KeyValue { s, k, op, .. } => or3(self.anns_on(t).iter().map(|a| self.has_keyvalue(*a, *s, *k, op))),
                    CC::Value { op } => or3(self.anns_on(t).iter().map(|a| self.has_value(*a, op))),
                    CC::VarKey { var, .. } => match var_item(var)? {
                        It::K(s, k) => Some(self.anns_on(t).iter().any(|a| self.has_key(*a, s, k))),
                        _ => None,
                    },
                    CC::VarData { var, .. } => match var_item(var)? {
                        It::D(s, d) => Some(self.anns_on(t).iter().any(|a| self.data_of(*a).contains(&(s, d)))),
                        _ => None,
                    },
                    CC::Text { w, mode } => {
                        if m.resources.get(t.0).map(|x| x.is_some()).unwrap_or(false) && t.2 <= m.res(t.0).text.len() && t.1 <= t.2 {
                            self.text_match(&m.slice(t), w, *mode)
                        } else {
                            Some(false)
                        }
                    }
                    CC::VarText { var } => {
                        let refs = self.var_texts(env, var)?;
                        Some(refs.contains(&t))
                    }
                    CC::Relation { var, op } => {
                        let refs = self.var_texts(env, var)?;
                        self.related(&refs, *op, t)
                    }
                    _ => None,
                }
            }
            _ => None,
        }
    }

    /// ANNOTATION x constraint on candidate annotation a
    fn ann_ann(&self, a: usize, x: usize, meta: bool, rec: bool) -> Option<bool> {
        if !meta {
            // x targets (annotates) a
            Some(self.m.ann(x).target.anns().contains(&a))
        } else if !rec {
            // a targets x
            Some(self.m.ann(a).target.anns().contains(&x))
        } else {
            Some(self.reach(a).contains(&x))
        }
    }
    fn data_ann(&self, s: usize, d: usize, x: usize, meta: bool) -> Option<bool> {
        if !meta {
            Some(self.data_of(x).contains(&(s, d)))
        } else {
            self.leaf_hit(x, &|l| matches!(l, MSel::Data(ls, ld) if (*ls, *ld) == (s, d)))
        }
    }
    fn key_ann(&self, s: usize, k: usize, x: usize, meta: bool) -> Option<bool> {
        if !meta {
            Some(self.has_key(x, s, k))
        } else {
            self.leaf_hit(x, &|l| matches!(l, MSel::Key(ls, lk) if (*ls, *lk) == (s, k)))
        }
    }
    /// exists an annotation on the text of (or, `meta`, about) resource r with the given property
    fn res_anns(&self, r: usize, meta: bool, f: &dyn Fn(usize) -> Option<bool>) -> Option<bool> {
        or3(self.m.live_anns().into_iter().map(|a| {
            let on = if meta { self.meta_on_res(a, r) } else { self.on_text_of(a, r) };
            and3([on, f(a)].into_iter())
        }))
    }

    /// is a returned item of the right kind and alive (an item the store could legitimately return)
    pub fn exists(&self, rt: u8, it: &It) -> bool {
        let m = self.m;
        let live_set = |s: usize| m.sets.get(s).map(|x| x.is_some()).unwrap_or(false);
        match (rt % 6, it) {
            (T_ANN, It::A(a)) => m.anns.get(*a).map(|x| x.is_some()).unwrap_or(false),
            (T_DATA, It::D(s, d)) => live_set(*s) && m.set(*s).data.get(*d).map(|x| x.is_some()).unwrap_or(false),
            (T_KEY, It::K(s, k)) => live_set(*s) && m.set(*s).keys.get(*k).map(|x| x.is_some()).unwrap_or(false),
            (T_SET, It::S(s)) => live_set(*s),
            (T_RES, It::R(r)) => m.resources.get(*r).map(|x| x.is_some()).unwrap_or(false),
            (T_TEXT, It::T(r, b, e)) => m.resources.get(*r).map(|x| x.is_some()).unwrap_or(false) && b <= e && *e <= m.res(*r).text.len(),
            _ => false,
        }
    }
}
