//! C19: counting global allocator. It is *declared* (`#[global_allocator]`) only by the binaries that run
//! untrusted loads in-process (the `c19_corpus worker` child process and the libFuzzer targets), never by
//! `check`, so no other property pays for it. The counters are process-wide: one load at a time.

use std::alloc::{GlobalAlloc, Layout, System};
use std::sync::atomic::{AtomicBool, AtomicU64, AtomicUsize, Ordering::Relaxed};

pub struct CountingAlloc;

static CUR: AtomicUsize = AtomicUsize::new(0);
static PEAK: AtomicUsize = AtomicUsize::new(0);
static COUNT: AtomicU64 = AtomicU64::new(0);
static ACTIVE: AtomicBool = AtomicBool::new(false);
/// requests that would bring the live total above this are refused (null => the runtime aborts with
/// "memory allocation of N bytes failed", which the parent process classifies as `abort|alloc`)
static HARD_CAP: AtomicUsize = AtomicUsize::new(usize::MAX);

#[inline]
fn add(size: usize) {
    let cur = CUR.fetch_add(size, Relaxed).wrapping_add(size);
    PEAK.fetch_max(cur, Relaxed);
    COUNT.fetch_add(1, Relaxed);
}

#[inline]
fn refuse(size: usize) -> bool {
    let cap = HARD_CAP.load(Relaxed);
    cap != usize::MAX && size > cap.saturating_sub(CUR.load(Relaxed))
}

unsafe impl GlobalAlloc for CountingAlloc {
    unsafe fn alloc(&self, layout: Layout) -> *mut u8 {
        if !ACTIVE.load(Relaxed) {
            ACTIVE.store(true, Relaxed);
        }
        if refuse(layout.size()) {
            return std::ptr::null_mut();
        }
        let p = System.alloc(layout);
        if !p.is_null() {
            add(layout.size());
        }
        p
    }
    unsafe fn alloc_zeroed(&self, layout: Layout) -> *mut u8 {
        if refuse(layout.size()) {
            return std::ptr::null_mut();
        }
        let p = System.alloc_zeroed(layout);
        if !p.is_null() {
            add(layout.size());
        }
        p
    }
    unsafe fn dealloc(&self, ptr: *mut u8, layout: Layout) {
        System.dealloc(ptr, layout);
        CUR.fetch_sub(layout.size(), Relaxed);
    }
    unsafe fn realloc(&self, ptr: *mut u8, layout: Layout, new_size: usize) -> *mut u8 {
        if new_size > layout.size() && refuse(new_size - layout.size()) {
            return std::ptr::null_mut();
        }
        let p = System.realloc(ptr, layout, new_size);
        if !p.is_null() {
            if new_size >= layout.size() {
                add(new_size - layout.size());
            } else {
                CUR.fetch_sub(layout.size() - new_size, Relaxed);
                COUNT.fetch_add(1, Relaxed);
            }
        }
        p
    }
}

/// is the counting allocator the global allocator of this process?
pub fn active() -> bool {
    // any Rust program has allocated long before the first measurement
    ACTIVE.load(Relaxed)
}

pub fn set_hard_cap(bytes: usize) {
    HARD_CAP.store(bytes, Relaxed);
}

#[derive(Clone, Copy, Debug)]
pub struct Mark {
    cur: usize,
    count: u64,
}

/// start a measurement: the peak is reset to the current live total
pub fn mark() -> Mark {
    let cur = CUR.load(Relaxed);
    PEAK.store(cur, Relaxed);
    Mark { cur, count: COUNT.load(Relaxed) }
}

/// (peak live bytes above the mark, number of allocation calls since the mark)
pub fn since(m: Mark) -> (usize, u64) {
    (PEAK.load(Relaxed).saturating_sub(m.cur), COUNT.load(Relaxed).saturating_sub(m.count))
}
