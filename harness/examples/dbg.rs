use stam::*;
fn main() {
    let dir = "/tmp/dbg1";
    let _ = std::fs::remove_dir_all(dir); std::fs::create_dir_all(dir).unwrap();
    std::fs::write(format!("{}/r0.resource.stam.json", dir), r#"{"@type":"TextResource","@id":"r1","text":"hello"}"#).unwrap();
    std::fs::write(format!("{}/main.store.stam.json", dir), r#"{"@type":"AnnotationStore","resources":[{"@type":"TextResource","@id":"r1","@include":"r0.resource.stam.json"}],"annotationsets":[],"annotations":[{"@type":"Annotation","target":{"@type":"ResourceSelector","resource":"r1"},"data":[]}]}"#).unwrap();
    let cfg = Config::default().with_use_include(true).with_workdir(dir.to_string());
    match AnnotationStore::from_file(&format!("{}/main.store.stam.json", dir), cfg) {
        Ok(s) => {
            for r in s.resources() { println!("resource id={:?} text={:?}", r.id(), r.text()); }
            println!("save: {:?}", s.save().map_err(|e| format!("{}", e)));
            println!("main: {}", std::fs::read_to_string(format!("{}/main.store.stam.json", dir)).unwrap());
            println!("res file: {:?}", std::fs::read_to_string(format!("{}/r0.resource.stam.json", dir)).unwrap());
        }
        Err(e) => println!("ERR {}", e),
    }
}
