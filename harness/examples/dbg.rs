use stam::*;
use stamverif::hist::*;
fn main() {
    let path = std::env::args().nth(1).unwrap();
    let v: serde_json::Value = serde_json::from_str(&std::fs::read_to_string(path).unwrap()).unwrap();
    let hist: History = serde_json::from_value(v["case"]["hist"].clone()).unwrap();
    let mut m = Machine::new(false);
    for op in &hist.ops { m.apply(op); }
    let dir = "/tmp/dbg15"; let _ = std::fs::remove_dir_all(dir); std::fs::create_dir_all(dir).unwrap();
    m.store.to_file(&format!("{}/x.store.stam.csv", dir)).unwrap();
    for e in std::fs::read_dir(dir).unwrap() { let e = e.unwrap(); println!("--- {:?}\n{}", e.file_name(), std::fs::read_to_string(e.path()).unwrap()); }
    let s2 = AnnotationStore::from_file(&format!("{}/x.store.stam.csv", dir), Config::default()).unwrap();
    for a in s2.annotations() { println!("ann handle={} id={:?} target={:?}", a.handle().as_usize(), a.id(), a.as_ref().target()); }
}
