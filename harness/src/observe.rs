//! Observation of a real store through its public API (+ hook dump) as plain data.

use crate::model::*;
use stam::*;

#[derive(Clone, Debug, PartialEq)]
pub struct TselObs {
    pub begin: usize,
    pub end: usize,
    pub anns: Vec<usize>,
    pub anns_len: usize,
}

#[derive(Clone, Debug, PartialEq)]
pub struct ResObs {
    pub handle: usize,
    pub id: Option<String>,
    pub text: String,
    pub anns_text: Vec<usize>,
    pub anns_meta: Vec<usize>,
    /// all text selections enumerated by `textselections()` (textual order)
    pub tsels: Vec<TselObs>,
    pub tsels_len: usize,
}

#[derive(Clone, Debug, PartialEq)]
pub struct KeyObs {
    pub handle: usize,
    pub id: Option<String>,
    pub data: Vec<usize>,
    pub anns: Vec<usize>,
    pub anns_count: usize,
    pub anns_meta: Vec<usize>,
}

#[derive(Clone, Debug, PartialEq)]
pub struct DataObs {
    pub handle: usize,
    pub id: Option<String>,
    pub key: usize,
    pub value: Val,
    pub anns: Vec<usize>,
    pub anns_len: usize,
    pub anns_meta: Vec<usize>,
}

#[derive(Clone, Debug, PartialEq)]
pub struct SetObs {
    pub handle: usize,
    pub id: Option<String>,
    pub keys: Vec<KeyObs>,
    pub data: Vec<DataObs>,
    pub anns_meta: Vec<usize>,
}

#[derive(Clone, Debug, PartialEq)]
pub struct AnnObs {
    pub handle: usize,
    pub id: Option<String>,
    /// decoded from the low-level selector (ranged selectors expanded)
    pub target: MSel,
    /// was an internal ranged selector present?
    pub ranged: bool,
    pub raw_data: Vec<(usize, usize)>,
    // high-level forward views
    pub tsels: Vec<(usize, usize, usize)>,
    pub text: Vec<String>,
    pub text_simple: Option<String>,
    pub in_targets: Vec<usize>,
    pub in_targets_max: Vec<usize>,
    pub res_meta: Vec<usize>,
    pub res_text: Vec<usize>,
    pub sets_meta: Vec<usize>,
    pub keys_meta: Vec<(usize, usize)>,
    pub data_meta: Vec<(usize, usize)>,
    pub hl_data: Vec<(usize, usize)>,
    // reverse
    pub referenced_by: Vec<usize>,
    pub referenced_by_handles: Vec<usize>,
}

#[derive(Clone, Debug, PartialEq, Default)]
pub struct Obs {
    pub resources: Vec<ResObs>,
    pub sets: Vec<SetObs>,
    pub anns: Vec<AnnObs>,
    pub index_totalcount: Vec<usize>,
}

fn mode_of(m: &OffsetMode) -> Mode {
    match m {
        OffsetMode::BeginBegin => (false, false),
        OffsetMode::BeginEnd => (false, true),
        OffsetMode::EndEnd => (true, true),
        OffsetMode::EndBegin => (true, false),
    }
}

fn tsel_range(store: &AnnotationStore, res: TextResourceHandle, tsel: TextSelectionHandle) -> (usize, usize) {
    let resource = store.resource(res).expect("selector references a live resource");
    let ts = resource
        .textselection_by_handle(tsel)
        .expect("selector references a live text selection");
    (ts.begin(), ts.end())
}

/// decode a low-level selector into the model's vocabulary; `ranged` is set when an internal ranged selector was expanded
pub fn decode_selector(store: &AnnotationStore, sel: &Selector, ranged: &mut bool) -> MSel {
    match sel {
        Selector::TextSelector(res, tsel, mode) => {
            let (b, e) = tsel_range(store, *res, *tsel);
            MSel::Text {
                res: res.as_usize(),
                begin: b,
                end: e,
                mode: mode_of(mode),
            }
        }
        Selector::AnnotationSelector(a, None) => MSel::Ann {
            ann: a.as_usize(),
            text: None,
        },
        Selector::AnnotationSelector(a, Some((res, tsel, mode))) => {
            let (b, e) = tsel_range(store, *res, *tsel);
            MSel::Ann {
                ann: a.as_usize(),
                text: Some((res.as_usize(), b, e, mode_of(mode))),
            }
        }
        Selector::ResourceSelector(r) => MSel::Res(r.as_usize()),
        Selector::DataSetSelector(s) => MSel::Set(s.as_usize()),
        Selector::DataKeySelector(s, k) => MSel::Key(s.as_usize(), k.as_usize()),
        Selector::AnnotationDataSelector(s, d) => MSel::Data(s.as_usize(), d.as_usize()),
        Selector::MultiSelector(v) => MSel::Multi(decode_subs(store, v, ranged)),
        Selector::CompositeSelector(v) => MSel::Composite(decode_subs(store, v, ranged)),
        Selector::DirectionalSelector(v) => MSel::Directional(decode_subs(store, v, ranged)),
        Selector::RangedTextSelector { .. } | Selector::RangedAnnotationSelector { .. } => {
            // only valid as sub-selector; handled in decode_subs
            let v = decode_subs(store, std::slice::from_ref(sel), ranged);
            MSel::Multi(v)
        }
    }
}

fn decode_subs(store: &AnnotationStore, subs: &[Selector], ranged: &mut bool) -> Vec<MSel> {
    let mut out = vec![];
    for s in subs {
        match s {
            Selector::RangedTextSelector { resource, begin, end } => {
                *ranged = true;
                for i in begin.as_usize()..=end.as_usize() {
                    let (b, e) = tsel_range(store, *resource, TextSelectionHandle::new(i));
                    out.push(MSel::Text {
                        res: resource.as_usize(),
                        begin: b,
                        end: e,
                        mode: (false, false),
                    });
                }
            }
            Selector::RangedAnnotationSelector { begin, end, with_text } => {
                *ranged = true;
                for i in begin.as_usize()..=end.as_usize() {
                    let text = if *with_text {
                        let a = store
                            .annotation(AnnotationHandle::new(i))
                            .expect("ranged selector references a live annotation");
                        let t = a.as_ref().target();
                        match (t.resource_handle(), t.textselection_handle()) {
                            (Some(r), Some(ts)) => {
                                let (b, e) = tsel_range(store, r, ts);
                                // the library reports (and serialises) the members of a ranged selector in begin-aligned form
                                Some((r.as_usize(), b, e, (false, false)))
                            }
                            _ => None,
                        }
                    } else {
                        None
                    };
                    out.push(MSel::Ann { ann: i, text });
                }
            }
            other => out.push(decode_selector(store, other, ranged)),
        }
    }
    out
}

fn ann_handles<'a>(it: impl Iterator<Item = ResultItem<'a, Annotation>>) -> Vec<usize> {
    it.map(|a| a.handle().as_usize()).collect()
}

pub fn observe_annotation(store: &AnnotationStore, a: &ResultItem<Annotation>) -> AnnObs {
    let mut ranged = false;
    let target = decode_selector(store, a.as_ref().target(), &mut ranged);
    AnnObs {
        handle: a.handle().as_usize(),
        id: a.id().map(|s| s.to_string()),
        target,
        ranged,
        raw_data: a
            .as_ref()
            .raw_data()
            .iter()
            .map(|(s, d)| (s.as_usize(), d.as_usize()))
            .collect(),
        tsels: a
            .textselections()
            .map(|t| (t.resource().handle().as_usize(), t.begin(), t.end()))
            .collect(),
        text: a.text().map(|s| s.to_string()).collect(),
        text_simple: a.text_simple().map(|s| s.to_string()),
        in_targets: ann_handles(a.annotations_in_targets(AnnotationDepth::One)),
        in_targets_max: ann_handles(a.annotations_in_targets(AnnotationDepth::Max)),
        res_meta: a.resources_as_metadata().map(|r| r.handle().as_usize()).collect(),
        res_text: a.resources().map(|r| r.handle().as_usize()).collect(),
        sets_meta: a.datasets().map(|r| r.handle().as_usize()).collect(),
        keys_meta: a
            .keys_as_metadata()
            .map(|k| (k.set().handle().as_usize(), k.handle().as_usize()))
            .collect(),
        data_meta: a
            .data_as_metadata()
            .map(|k| (k.set().handle().as_usize(), k.handle().as_usize()))
            .collect(),
        hl_data: a
            .data()
            .map(|k| (k.set().handle().as_usize(), k.handle().as_usize()))
            .collect(),
        referenced_by: ann_handles(a.annotations()),
        referenced_by_handles: a.annotations_handles().iter().map(|h| h.as_usize()).collect(),
    }
}

pub fn observe(store: &AnnotationStore) -> Obs {
    let mut obs = Obs::default();
    for r in store.resources() {
        let tsels: Vec<TselObs> = r
            .textselections()
            .map(|t| TselObs {
                begin: t.begin(),
                end: t.end(),
                anns: ann_handles(t.annotations()),
                anns_len: t.annotations_len(),
            })
            .collect();
        obs.resources.push(ResObs {
            handle: r.handle().as_usize(),
            id: r.id().map(|s| s.to_string()),
            text: r.text().to_string(),
            anns_text: ann_handles(r.annotations()),
            anns_meta: ann_handles(r.annotations_as_metadata()),
            tsels,
            tsels_len: r.textselections_len(),
        });
    }
    for s in store.datasets() {
        let keys = s
            .keys()
            .map(|k| KeyObs {
                handle: k.handle().as_usize(),
                id: k.id().map(|s| s.to_string()),
                data: k.data().map(|d| d.handle().as_usize()).collect(),
                anns: ann_handles(k.annotations()),
                anns_count: k.annotations_count(),
                anns_meta: ann_handles(k.annotations_as_metadata()),
            })
            .collect();
        let data = s
            .data()
            .map(|d| DataObs {
                handle: d.handle().as_usize(),
                id: d.id().map(|s| s.to_string()),
                key: d.key().handle().as_usize(),
                value: Val::from_stam(d.value()),
                anns: ann_handles(d.annotations()),
                anns_len: d.annotations_len(),
                anns_meta: ann_handles(d.annotations_as_metadata()),
            })
            .collect();
        obs.sets.push(SetObs {
            handle: s.handle().as_usize(),
            id: s.id().map(|s| s.to_string()),
            keys,
            data,
            anns_meta: ann_handles(s.annotations()),
        });
    }
    for a in store.annotations() {
        obs.anns.push(observe_annotation(store, &a));
    }
    let t = store.index_totalcount();
    obs.index_totalcount = vec![t.0, t.1, t.2, t.3, t.4, t.5, t.6, t.7];
    obs
}

/// strip alignment modes (they are a serialisation detail checked by C05)
pub fn strip_modes(s: &MSel) -> MSel {
    match s {
        MSel::Text { res, begin, end, .. } => MSel::Text {
            res: *res,
            begin: *begin,
            end: *end,
            mode: (false, false),
        },
        MSel::Ann { ann, text } => MSel::Ann {
            ann: *ann,
            text: text.map(|(r, b, e, _)| (r, b, e, (false, false))),
        },
        MSel::Multi(v) => MSel::Multi(v.iter().map(strip_modes).collect()),
        MSel::Composite(v) => MSel::Composite(v.iter().map(strip_modes).collect()),
        MSel::Directional(v) => MSel::Directional(v.iter().map(strip_modes).collect()),
        other => other.clone(),
    }
}

fn sel_sort_key(s: &MSel) -> String {
    format!("{:?}", s)
}

/// canonical form for comparison: modes stripped; Multi/Composite sub-selectors sorted (their order is not significant), Directional kept
pub fn canon(s: &MSel) -> MSel {
    match strip_modes(s) {
        MSel::Multi(mut v) => {
            v.sort_by_key(sel_sort_key);
            MSel::Multi(v)
        }
        MSel::Composite(mut v) => {
            v.sort_by_key(sel_sort_key);
            MSel::Composite(v)
        }
        other => other,
    }
}
