//! C09 helper: query specifications, harness-side STAMQL printer with token-level mutation,
//! programmatic builder, strategies and the enumerated battery.

use crate::engine::pick;
use proptest::prelude::*;
use serde::{Deserialize, Serialize};
use stam::*;

// ------------------------------------------------------------------------------------------
// specification types

#[derive(Clone, Debug, Serialize, Deserialize, PartialEq)]
pub struct QSpec {
    /// 0 SELECT, 1 ADD, 2 DELETE
    pub qtype: u8,
    pub optional: bool,
    /// 0 ANNOTATION 1 DATA 2 KEY 3 TEXT 4 RESOURCE 5 DATASET
    pub rtype: u8,
    pub name: Option<String>,
    /// text form only
    pub attrs: Vec<String>,
    pub cons: Vec<(Vec<String>, CSpec)>,
    /// ADD only, text form only (no programmatic API)
    pub assigns: Vec<ASpec>,
    pub subs: Vec<QSpec>,
}

#[derive(Clone, Debug, Serialize, Deserialize, PartialEq)]
pub struct Cur {
    pub end: bool,
    pub v: u32,
}

#[derive(Clone, Debug, Serialize, Deserialize, PartialEq)]
pub enum VSpec {
    Str(String),
    Int(i64),
    /// m / 10^d
    Float { m: i32, d: u8 },
    Null,
    Any,
    Bool(bool),
    Datetime(u8),
    /// verbatim unquoted literal (text form only; built form falls back to a string)
    Raw(String),
}

#[derive(Clone, Debug, Serialize, Deserialize, PartialEq)]
pub struct OpSpec {
    /// 0 =  1 !=  2 >  3 >=  4 <  5 <=  6 (built only) HasElement / Or
    pub cmp: u8,
    pub v: VSpec,
}

#[derive(Clone, Debug, Serialize, Deserialize, PartialEq)]
pub enum CSpec {
    Id(String),
    Annotation { id: String, var: bool, meta: bool, rec: bool, offset: Option<(Cur, Cur)> },
    Resource { id: String, var: bool, meta: bool, offset: Option<(Cur, Cur)> },
    DataSet { id: String, var: bool, meta: bool },
    DataKey { set: String, key: String, meta: bool },
    KeyValue { set: String, key: String, op: OpSpec, meta: bool },
    Value { op: OpSpec, meta: bool },
    KeyVar { var: String, meta: bool },
    DataVar { var: String, meta: bool },
    TextVar { var: String },
    /// mode 0 exact, 1 nocase, 2 regex
    Text { text: String, mode: u8 },
    SubStore { id: Option<String>, var: bool },
    Relation { var: String, op: u8 },
    Union(Vec<CSpec>),
    Limit { begin: i64, end: i64 },
    /// built only: a handle-collection constraint over the fixed store (`Constraint::Annotations`, `Data`, `Keys`,
    /// `Resources`, `TextSelections`). kind 0-4 in that order; `picks` index the items of that kind in the fixed
    /// store (duplicates dropped, order kept); depth 0 Zero, 1 One, 2 Max (annotations only).
    Coll { kind: u8, picks: Vec<u8>, meta: bool, depth: u8 },
}

#[derive(Clone, Debug, Serialize, Deserialize, PartialEq)]
pub enum ASpec {
    Id(String),
    Data { set: String, key: String, v: Option<VSpec> },
    Target { var: String, offset: Option<(Cur, Cur)> },
    /// 0 COMPOSITE 1 MULTI 2 DIRECTIONAL
    Complex(u8),
}

#[derive(Clone, Debug, Serialize, Deserialize, PartialEq)]
pub enum Mut {
    Delete(u16),
    Dup(u16),
    Swap(u16),
    Replace(u16, u16),
    Insert(u16, u16),
    /// remove the separator before token i
    Glue(u16),
    /// put a (multi-byte / odd) whitespace before token i
    Ws(u16, u16),
    /// truncate the final string after that share of its characters
    Truncate(u16),
}

pub const QTYPES: [&str; 3] = ["SELECT", "ADD", "DELETE"];
pub const RTYPES: [&str; 6] = ["ANNOTATION", "DATA", "KEY", "TEXT", "RESOURCE", "DATASET"];
pub const RELOPS: [&str; 10] = [
    "EQUALS", "EMBEDS", "EMBEDDED", "OVERLAPS", "PRECEDES", "SUCCEEDS", "SAMEBEGIN", "SAMEEND", "BEFORE", "AFTER",
];
pub const CMPS: [&str; 6] = ["=", "!=", ">", ">=", "<", "<="];
pub const DATETIMES: [&str; 6] = [
    "2024-01-01T00:00:00+00:00",
    "1999-12-31T23:59:59.500-05:00",
    "2024-02-29T12:00:00Z",
    "2031-07-04T01:02:03+09:30",
    "2024-06-01T12:34:56.123456+02:00",
    "2001-02-03T04:05:06.123456789-03:30",
];
pub const COMPLEX: [&str; 3] = ["COMPOSITE", "MULTI", "DIRECTIONAL"];

pub const IDS: &[&str] = &[
    "A1", "A2", "A3", "A4", "A5", "r1", "r2", "s1", "k1", "k2", "v1", "x", "sentence", "é1", "a b", "a\\\"b", "w;z", "5", "", "x]y",
    "OR", "p OR q", "ünï😀",
];
pub const VARS: &[&str] = &["a", "b", "x", "s", "t", "d", "k"];
pub const TEXTS: &[&str] = &["fly", "Hello", "world", "x", "the", "FLY", "fl[yi]", "a b", "^H.*o$", "\\w+", "é1", "say \\\"hi\\\"", "?", ""];

pub const KEYWORDS: &[&str] = &[
    "SELECT", "ADD", "DELETE", "OPTIONAL", "WHERE", "WITH", "ANNOTATION", "DATA", "KEY", "TEXT", "RESOURCE", "DATASET", "ID",
    "RELATION", "VALUE", "SUBSTORE", "LIMIT", "OFFSET", "AS", "METADATA", "TARGET", "RECURSIVE", "NOCASE", "REGEX", "REGEXP",
    "WHOLE", "ALL", "NONE", "OR", "EQUALS", "EMBEDS", "EMBEDDED", "OVERLAPS", "PRECEDES", "SUCCEEDS", "SAMEBEGIN", "SAMEEND",
    "BEFORE", "AFTER", "COMPOSITE", "MULTI", "DIRECTIONAL", "[", "]", "{", "}", "|", ";", "=", "!=", ">", ">=", "<", "<=",
    "annotation", "data", "key", "text", "resource", "dataset", "?x", "?", "@x", "@",
];

pub const HOSTILE: &[&str] = &[
    "-", ".", "-.", "1e999", "1111111111111111111111111111111111111111", "-1111111111111111111111111111111111111111",
    "9223372036854775808", "-9223372036854775809", "\"unterminated", "\"a\\\"", "\\", "\u{a0}", "\u{3000}", "é", "😀", "?", "??",
    "AS", "OR", "]", "[", "{", "}", "|", ";", "@", "@x", "null", "any", "true", "false", "2024-01-01T00:00:00Z", "1.5", "-0", "0.0",
    "1|2", "a|b", "\"a|b\"", "SELECT", "ADD", "DELETE", "WHERE", "WITH", "OPTIONAL", "RECURSIVE", "METADATA", "TARGET", "OFFSET",
    "WHOLE", "LIMIT", "NONE", "", "\"\"", "\"", "{SELECT", "{ADD", "{DELETE", "SELECTé", "{SELECT\u{a0}", "?x;", "?x}", "\"?x y\"",
    "a\\", "-5", "18446744073709551616", "0", "1.", ".5", "1..2", "\"5\"", "\"null\"", "x\ty", "\r", "\n",
];

pub const SEPS: &[&str] = &[" ", " ", " ", " ", "\n", "\t", "  ", "\n\t", "\n\n"];
pub const ODDWS: &[&str] = &["\u{a0}", "\u{3000}", "\u{2028}", "\r", "\u{85}", "\u{feff}", "\u{b}", "\u{c}", "\u{0}"];

// ------------------------------------------------------------------------------------------
// harness-side printer (tokens) and mutation

#[derive(Clone, Debug, PartialEq)]
pub struct Tok {
    pub text: String,
    /// separator placed before this token
    pub sep: String,
}

struct Printer {
    toks: Vec<Tok>,
    bits: u64,
    pos: u32,
}

impl Printer {
    fn bit(&mut self) -> bool {
        let b = (self.bits >> (self.pos % 64)) & 1 == 1;
        self.pos += 1;
        b
    }
    /// true with probability 1/4
    fn rare(&mut self) -> bool {
        let a = self.bit();
        let b = self.bit();
        a && b
    }
    fn sep(&mut self) -> String {
        if self.rare() {
            let i = (self.bits.rotate_left(self.pos) % SEPS.len() as u64) as usize;
            SEPS[i].to_string()
        } else {
            " ".to_string()
        }
    }
    fn tok(&mut self, t: impl Into<String>) {
        let sep = if self.toks.is_empty() { String::new() } else { self.sep() };
        self.toks.push(Tok { text: t.into(), sep });
    }
    fn glued(&mut self, t: impl Into<String>) {
        self.toks.push(Tok { text: t.into(), sep: String::new() });
    }
    fn semi(&mut self) {
        if self.rare() {
            self.tok(";")
        } else {
            self.glued(";")
        }
    }
    fn arg(&mut self, s: &str) {
        if plain_word(s) && self.bit() {
            self.tok(s)
        } else {
            self.tok(format!("\"{}\"", s))
        }
    }
    fn var(&mut self, v: &str) {
        self.tok(format!("?{}", v))
    }
    fn cursor(&mut self, c: &Cur) {
        if c.end {
            self.tok(format!("-{}", c.v))
        } else {
            self.tok(format!("{}", c.v))
        }
    }
    fn offset(&mut self, o: &Option<(Cur, Cur)>) {
        if let Some((b, e)) = o {
            self.tok("OFFSET");
            let end0 = e.end && e.v == 0;
            if !b.end && b.v == 0 && end0 && self.bit() {
                let b = self.bit();
                self.tok(if b { "WHOLE" } else { "ALL" });
                return;
            }
            self.cursor(b);
            if !(end0 && self.bit()) {
                self.cursor(e);
            }
        }
    }
    fn meta(&mut self, meta: bool) {
        if meta {
            self.tok("AS");
            let b = self.bit();
            self.tok(if b { "METADATA" } else { "TARGET" });
        }
    }
    fn value(&mut self, v: &VSpec) {
        match v {
            VSpec::Str(s) => self.arg(s),
            VSpec::Int(i) => self.tok(format!("{}", i)),
            VSpec::Float { m, d } => self.tok(float_text(*m, *d)),
            VSpec::Null => self.tok("null"),
            VSpec::Any => self.tok("any"),
            VSpec::Bool(b) => self.tok(format!("{}", b)),
            VSpec::Datetime(i) => {
                let t = DATETIMES[*i as usize % DATETIMES.len()];
                if self.rare() {
                    self.tok(format!("\"{}\"", t))
                } else {
                    self.tok(t)
                }
            }
            VSpec::Raw(s) => self.tok(s.clone()),
        }
    }
    fn op(&mut self, op: &OpSpec) {
        self.tok(CMPS[op.cmp as usize % CMPS.len()]);
        self.value(&op.v);
    }
    fn constraint(&mut self, c: &CSpec) {
        match c {
            CSpec::Id(s) => {
                self.tok("ID");
                self.arg(s);
            }
            CSpec::Annotation { id, var, meta, rec, offset } => {
                self.tok("ANNOTATION");
                self.meta(*meta);
                if *rec {
                    self.tok("RECURSIVE");
                }
                if *var {
                    self.var(id)
                } else {
                    self.arg(id)
                }
                self.offset(offset);
            }
            CSpec::Resource { id, var, meta, offset } => {
                self.tok("RESOURCE");
                self.meta(*meta);
                if *var {
                    self.var(id)
                } else {
                    self.arg(id)
                }
                self.offset(offset);
            }
            CSpec::DataSet { id, var, meta } => {
                self.tok("DATASET");
                self.meta(*meta);
                if *var {
                    self.var(id)
                } else {
                    self.arg(id)
                }
            }
            CSpec::DataKey { set, key, meta } => {
                self.tok("DATA");
                self.meta(*meta);
                self.arg(set);
                self.arg(key);
            }
            CSpec::KeyValue { set, key, op, meta } => {
                self.tok("DATA");
                self.meta(*meta);
                self.arg(set);
                self.arg(key);
                self.op(op);
            }
            CSpec::Value { op, meta } => {
                self.tok("VALUE");
                self.meta(*meta);
                self.op(op);
            }
            CSpec::KeyVar { var, meta } => {
                self.tok("KEY");
                self.meta(*meta);
                self.var(var);
            }
            CSpec::DataVar { var, meta } => {
                self.tok("DATA");
                self.meta(*meta);
                self.var(var);
            }
            CSpec::TextVar { var } => {
                self.tok("TEXT");
                self.var(var);
            }
            CSpec::Text { text, mode } => {
                self.tok("TEXT");
                match mode % 3 {
                    1 => {
                        self.tok("AS");
                        self.tok("NOCASE");
                    }
                    2 => {
                        self.tok("AS");
                        let b = self.bit();
                        self.tok(if b { "REGEX" } else { "REGEXP" });
                    }
                    _ => {}
                }
                self.arg(text);
            }
            CSpec::SubStore { id, var } => {
                self.tok("SUBSTORE");
                match id {
                    None => self.tok("NONE"),
                    Some(s) if *var => self.var(s),
                    Some(s) => self.arg(s),
                }
            }
            CSpec::Relation { var, op } => {
                self.tok("RELATION");
                self.var(var);
                self.tok(RELOPS[*op as usize % RELOPS.len()]);
            }
            CSpec::Union(subs) => {
                self.tok("[");
                let semis = self.bit();
                for (i, s) in subs.iter().enumerate() {
                    if i > 0 {
                        self.toks.push(Tok { text: "OR".into(), sep: " ".into() });
                        // the lexer wants a plain space after OR
                        self.constraint_spaced(s);
                    } else {
                        self.constraint(s);
                    }
                    if semis {
                        self.glued(";");
                    }
                }
                self.toks.push(Tok { text: "]".into(), sep: " ".into() });
            }
            CSpec::Coll { kind, picks, meta, depth } => {
                // text form of a collection: the disjunction of its members
                self.tok("[");
                for (i, m) in super::dump::coll_members(*kind, picks).iter().enumerate() {
                    if i > 0 {
                        self.toks.push(Tok { text: "OR".into(), sep: " ".into() });
                    }
                    let at = self.toks.len();
                    self.tok(m.keyword);
                    if i > 0 {
                        self.toks[at].sep = " ".into();
                    }
                    self.meta(*meta);
                    if *kind % 5 == 0 && *depth % 3 == 2 {
                        self.tok("RECURSIVE");
                    }
                    for a in &m.args {
                        self.tok(format!("\"{}\"", a));
                    }
                    if let Some(v) = &m.value {
                        self.tok("=");
                        self.tok(v.clone());
                    }
                    if let Some((b, e)) = m.offset {
                        self.tok("OFFSET");
                        self.tok(format!("{}", b));
                        self.tok(format!("{}", e));
                    }
                }
                self.toks.push(Tok { text: "]".into(), sep: " ".into() });
            }
            CSpec::Limit { begin, end } => {
                self.tok("LIMIT");
                if *begin == 0 && *end >= 0 && self.bit() {
                    self.tok(format!("{}", end));
                } else if *end == 0 && *begin < 0 && self.bit() {
                    self.tok(format!("{}", begin));
                } else {
                    self.tok(format!("{}", begin));
                    self.tok(format!("{}", end));
                }
            }
        }
    }
    /// like constraint() but the first token is separated by exactly one space
    fn constraint_spaced(&mut self, c: &CSpec) {
        let at = self.toks.len();
        self.constraint(c);
        if let Some(t) = self.toks.get_mut(at) {
            t.sep = " ".into();
        }
    }
    fn assignment(&mut self, a: &ASpec) {
        match a {
            ASpec::Id(s) => {
                self.tok("ID");
                self.arg(s);
            }
            ASpec::Data { set, key, v } => {
                self.tok("DATA");
                self.arg(set);
                self.arg(key);
                if let Some(v) = v {
                    self.value(v);
                }
            }
            ASpec::Target { var, offset } => {
                self.tok("TARGET");
                self.var(var);
                self.offset(offset);
            }
            ASpec::Complex(k) => self.tok(COMPLEX[*k as usize % 3]),
        }
    }
    fn query(&mut self, q: &QSpec) {
        for a in &q.attrs {
            self.tok(format!("@{}", a));
        }
        self.tok(QTYPES[q.qtype as usize % 3]);
        if q.optional {
            self.tok("OPTIONAL");
        }
        let rt = RTYPES[q.rtype as usize % 6];
        if self.rare() {
            self.tok(rt.to_lowercase())
        } else {
            self.tok(rt)
        }
        if let Some(n) = &q.name {
            self.var(n);
        }
        if !q.cons.is_empty() {
            self.tok("WHERE");
            for (attrs, c) in &q.cons {
                for a in attrs {
                    self.tok(format!("@{}", a));
                }
                self.constraint(c);
                if matches!(c, CSpec::Union(_) | CSpec::Coll { .. }) {
                    // the parser wants the ';' directly behind ']'
                    self.glued(";");
                } else {
                    self.semi();
                }
            }
        }
        if !q.assigns.is_empty() {
            self.tok("WITH");
            for a in &q.assigns {
                self.assignment(a);
                if !matches!(a, ASpec::Complex(_)) {
                    self.semi();
                }
            }
        }
        if !q.subs.is_empty() {
            self.tok("{");
            for (i, s) in q.subs.iter().enumerate() {
                if i > 0 {
                    self.tok("|");
                }
                self.query(s);
            }
            self.tok("}");
        }
    }
}

pub fn float_text(m: i32, d: u8) -> String {
    let d = (d % 7) as usize;
    let neg = m < 0;
    let digits = format!("{}", (m as i64).abs());
    let digits = if digits.len() <= d { format!("{}{}", "0".repeat(d + 1 - digits.len()), digits) } else { digits };
    let (int, frac) = digits.split_at(digits.len() - d);
    format!("{}{}.{}", if neg { "-" } else { "" }, int, if frac.is_empty() { "0" } else { frac })
}

/// can be written without quotes and still be an ordinary string argument
pub fn plain_word(s: &str) -> bool {
    let mut cs = s.chars();
    match cs.next() {
        Some(c) if c.is_alphabetic() => {}
        _ => return false,
    }
    if !s.chars().all(|c| c.is_alphanumeric() || c == '_') {
        return false;
    }
    !matches!(s, "AS" | "OR" | "NONE" | "RECURSIVE" | "null" | "any" | "true" | "false" | "WHOLE" | "ALL")
}

pub fn print_spec(q: &QSpec, style: u64) -> Vec<Tok> {
    let mut p = Printer { toks: vec![], bits: style, pos: 0 };
    p.query(q);
    p.toks
}

pub fn join_tokens(toks: &[Tok]) -> String {
    let mut s = String::new();
    for t in toks {
        s.push_str(&t.sep);
        s.push_str(&t.text);
    }
    s
}

pub fn apply_mutation(toks: &mut Vec<Tok>, m: &Mut, truncate: &mut Option<u16>) {
    if let Mut::Truncate(t) = m {
        *truncate = Some(*t);
        return;
    }
    if toks.is_empty() {
        return;
    }
    let n = toks.len();
    match m {
        Mut::Delete(i) => {
            toks.remove(pick(*i, n));
        }
        Mut::Dup(i) => {
            let k = pick(*i, n);
            let mut t = toks[k].clone();
            if t.sep.is_empty() {
                t.sep = " ".into();
            }
            toks.insert(k + 1, t);
        }
        Mut::Swap(i) => {
            if n >= 2 {
                let k = pick(*i, n - 1);
                let (a, b) = (toks[k].text.clone(), toks[k + 1].text.clone());
                toks[k].text = b;
                toks[k + 1].text = a;
            }
        }
        Mut::Replace(i, h) => {
            let k = pick(*i, n);
            toks[k].text = HOSTILE[pick(*h, HOSTILE.len())].to_string();
        }
        Mut::Insert(i, h) => {
            let k = pick(*i, n + 1);
            toks.insert(k, Tok { text: HOSTILE[pick(*h, HOSTILE.len())].to_string(), sep: " ".into() });
        }
        Mut::Glue(i) => {
            let k = pick(*i, n);
            toks[k].sep = String::new();
        }
        Mut::Ws(i, w) => {
            let k = pick(*i, n);
            toks[k].sep = ODDWS[pick(*w, ODDWS.len())].to_string();
        }
        Mut::Truncate(_) => {}
    }
}

// ------------------------------------------------------------------------------------------
// programmatic builder

fn cursor(c: &Cur) -> Cursor {
    if c.end {
        Cursor::EndAligned(-(c.v as isize))
    } else {
        Cursor::BeginAligned(c.v as usize)
    }
}

fn offset(o: &Option<(Cur, Cur)>) -> Option<Offset> {
    o.as_ref().map(|(b, e)| Offset { begin: cursor(b), end: cursor(e) })
}

fn qual(meta: bool) -> SelectionQualifier {
    if meta {
        SelectionQualifier::Metadata
    } else {
        SelectionQualifier::Normal
    }
}

pub fn float_value(m: i32, d: u8) -> f64 {
    float_text(m, d).parse::<f64>().unwrap_or(0.0)
}

pub fn datetime(i: u8) -> DateTime<FixedOffset> {
    DateTime::parse_from_rfc3339(DATETIMES[i as usize % DATETIMES.len()]).expect("harness datetime")
}

pub fn build_op<'a>(op: &'a OpSpec) -> DataOperator<'a> {
    use std::borrow::Cow;
    let base: DataOperator<'a> = match &op.v {
        VSpec::Str(s) | VSpec::Raw(s) => DataOperator::Equals(Cow::Borrowed(s.as_str())),
        VSpec::Int(i) => DataOperator::EqualsInt(*i as isize),
        VSpec::Float { m, d } => DataOperator::EqualsFloat(float_value(*m, *d)),
        VSpec::Null => DataOperator::Null,
        VSpec::Any => DataOperator::Any,
        VSpec::Bool(true) => DataOperator::True,
        VSpec::Bool(false) => DataOperator::False,
        VSpec::Datetime(i) => DataOperator::ExactDatetime(datetime(*i)),
    };
    match (op.cmp % 7, &op.v) {
        (0, _) => base,
        (1, _) => DataOperator::Not(Box::new(base)),
        (2, VSpec::Int(i)) => DataOperator::GreaterThan(*i as isize),
        (3, VSpec::Int(i)) => DataOperator::GreaterThanOrEqual(*i as isize),
        (4, VSpec::Int(i)) => DataOperator::LessThan(*i as isize),
        (5, VSpec::Int(i)) => DataOperator::LessThanOrEqual(*i as isize),
        (2, VSpec::Float { m, d }) => DataOperator::GreaterThanFloat(float_value(*m, *d)),
        (3, VSpec::Float { m, d }) => DataOperator::GreaterThanOrEqualFloat(float_value(*m, *d)),
        (4, VSpec::Float { m, d }) => DataOperator::LessThanFloat(float_value(*m, *d)),
        (5, VSpec::Float { m, d }) => DataOperator::LessThanOrEqualFloat(float_value(*m, *d)),
        (2, VSpec::Datetime(i)) => DataOperator::AfterDatetime(datetime(*i)),
        (3, VSpec::Datetime(i)) => DataOperator::AtOrAfterDatetime(datetime(*i)),
        (4, VSpec::Datetime(i)) => DataOperator::BeforeDatetime(datetime(*i)),
        (5, VSpec::Datetime(i)) => DataOperator::AtOrBeforeDatetime(datetime(*i)),
        (6, VSpec::Str(s)) => DataOperator::HasElement(Cow::Borrowed(s.as_str())),
        (6, VSpec::Int(i)) => DataOperator::HasElementInt(*i as isize),
        (6, _) => DataOperator::Or(vec![base, DataOperator::Null]),
        _ => base,
    }
}

pub fn relop(op: u8) -> TextSelectionOperator {
    match op % 10 {
        0 => TextSelectionOperator::equals(),
        1 => TextSelectionOperator::embeds(),
        2 => TextSelectionOperator::embedded(),
        3 => TextSelectionOperator::overlaps(),
        4 => TextSelectionOperator::precedes(),
        5 => TextSelectionOperator::succeeds(),
        6 => TextSelectionOperator::samebegin(),
        7 => TextSelectionOperator::sameend(),
        8 => TextSelectionOperator::before(),
        _ => TextSelectionOperator::after(),
    }
}

pub fn build_constraint<'a>(c: &'a CSpec) -> Constraint<'a> {
    match c {
        CSpec::Id(s) => Constraint::Id(s),
        CSpec::Annotation { id, var, meta, rec, offset: o } => {
            let depth = if *rec { AnnotationDepth::Max } else { AnnotationDepth::One };
            if *var {
                Constraint::AnnotationVariable(id, qual(*meta), depth, offset(o))
            } else {
                Constraint::Annotation(id, qual(*meta), depth, offset(o))
            }
        }
        CSpec::Resource { id, var, meta, offset: o } => {
            if *var {
                Constraint::ResourceVariable(id, qual(*meta), offset(o))
            } else {
                Constraint::TextResource(id, qual(*meta), offset(o))
            }
        }
        CSpec::DataSet { id, var, meta } => {
            if *var {
                Constraint::DataSetVariable(id, qual(*meta))
            } else {
                Constraint::DataSet(id, qual(*meta))
            }
        }
        CSpec::DataKey { set, key, meta } => Constraint::DataKey { set, key, qualifier: qual(*meta) },
        CSpec::KeyValue { set, key, op, meta } => Constraint::KeyValue { set, key, operator: build_op(op), qualifier: qual(*meta) },
        CSpec::Value { op, meta } => Constraint::Value(build_op(op), qual(*meta)),
        CSpec::KeyVar { var, meta } => Constraint::KeyVariable(var, qual(*meta)),
        CSpec::DataVar { var, meta } => Constraint::DataVariable(var, qual(*meta)),
        CSpec::TextVar { var } => Constraint::TextVariable(var),
        CSpec::Text { text, mode } => match mode % 3 {
            0 => Constraint::Text(text, TextMode::Exact),
            1 => Constraint::Text(text, TextMode::CaseInsensitive),
            _ => match Regex::new(text) {
                Ok(r) => Constraint::Regex(r),
                Err(_) => Constraint::Text(text, TextMode::Exact),
            },
        },
        CSpec::SubStore { id, var } => match id {
            None => Constraint::SubStore(None),
            Some(s) if *var => Constraint::SubStoreVariable(s),
            Some(s) => Constraint::SubStore(Some(s)),
        },
        CSpec::Relation { var, op } => Constraint::TextRelation { var, operator: relop(*op) },
        CSpec::Union(subs) => Constraint::Union(subs.iter().map(build_constraint).collect()),
        CSpec::Limit { begin, end } => Constraint::Limit { begin: *begin as isize, end: *end as isize },
        CSpec::Coll { kind, picks, meta, depth } => super::dump::build_collection(*kind, picks, qual(*meta), *depth),
    }
}

pub fn build_query<'a>(q: &'a QSpec) -> Query<'a> {
    let qt = match q.qtype % 3 {
        0 => QueryType::Select,
        1 => QueryType::Add,
        _ => QueryType::Delete,
    };
    let rt = match q.rtype % 6 {
        0 => Type::Annotation,
        1 => Type::AnnotationData,
        2 => Type::DataKey,
        3 => Type::TextSelection,
        4 => Type::TextResource,
        _ => Type::AnnotationDataSet,
    };
    // exercise both ways of giving the name
    let mut query = if q.cons.len() % 2 == 0 {
        Query::new(qt, Some(rt), q.name.as_deref())
    } else {
        let mut x = Query::new(qt, Some(rt), None);
        if let Some(n) = &q.name {
            x = x.with_name(n);
        }
        x
    };
    if q.optional {
        query = query.with_qualifier(QueryQualifier::Optional);
    }
    for (i, (_, c)) in q.cons.iter().enumerate() {
        if i % 2 == 0 {
            query = query.with_constraint(build_constraint(c));
        } else {
            query.constrain(build_constraint(c));
        }
    }
    for s in &q.subs {
        query = query.with_subquery(build_query(s));
    }
    query
}

/// a string that `"…"` can carry through the lexer unchanged
pub fn quotable(s: &str) -> bool {
    let mut prev = None;
    for c in s.chars() {
        if c == '"' && prev != Some('\\') {
            return false;
        }
        prev = Some(c);
    }
    prev != Some('\\')
}

/// a variable / query name that the lexer reads back unchanged
pub fn lexable(s: &str) -> bool {
    !s.is_empty() && !s.chars().any(|c| c.is_whitespace() || matches!(c, ';' | ']' | '"'))
}

/// would the lexer type this quoted argument as a plain string?
pub fn string_typed(s: &str) -> bool {
    if s.is_empty() {
        return true;
    }
    let mut prev = None;
    for c in s.chars() {
        if c == '|' && prev != Some('\\') {
            return false;
        }
        prev = Some(c);
    }
    if matches!(s, "null" | "any" | "true" | "false") {
        return false;
    }
    chrono::DateTime::parse_from_rfc3339(s).is_err()
}

fn id_outside(s: &str, meta: bool, out: &mut Vec<&'static str>) {
    if !quotable(s) {
        out.push("unquotable-string");
    }
    if s.starts_with('?') {
        out.push("id-looks-like-variable");
    }
    if s == "AS" || (meta && s == "RECURSIVE") {
        out.push("id-is-reserved-word");
    }
}

fn var_outside(s: &str, out: &mut Vec<&'static str>) {
    if !lexable(s) {
        out.push("unlexable-variable");
    }
}

fn op_outside(op: &OpSpec, out: &mut Vec<&'static str>) {
    match &op.v {
        VSpec::Str(s) | VSpec::Raw(s) => {
            if !quotable(s) {
                out.push("unquotable-string");
            }
            if !string_typed(s) {
                out.push("string-typed-otherwise");
            }
            if op.cmp % 7 >= 2 && op.cmp % 7 <= 5 {
                // falls back to Equals in build_op; fine
            }
        }
        _ => {}
    }
}

fn constraint_outside(c: &CSpec, out: &mut Vec<&'static str>) {
    match c {
        CSpec::Id(s) => {
            if !quotable(s) {
                out.push("unquotable-string")
            }
        }
        CSpec::Annotation { id, var, meta, rec, .. } => {
            if *var {
                var_outside(id, out)
            } else {
                id_outside(id, *meta, out)
            }
            if *rec && !*meta {
                out.push("recursive-without-metadata");
            }
        }
        CSpec::Resource { id, var, meta, .. } | CSpec::DataSet { id, var, meta } => {
            if *var {
                var_outside(id, out)
            } else {
                id_outside(id, *meta, out)
            }
        }
        CSpec::DataKey { set, key, meta } => {
            id_outside(set, *meta, out);
            if !quotable(key) {
                out.push("unquotable-string")
            }
        }
        CSpec::KeyValue { set, key, op, meta } => {
            id_outside(set, *meta, out);
            if !quotable(key) {
                out.push("unquotable-string")
            }
            op_outside(op, out);
        }
        CSpec::Value { op, .. } => op_outside(op, out),
        CSpec::KeyVar { var, .. } | CSpec::DataVar { var, .. } | CSpec::TextVar { var } | CSpec::Relation { var, .. } => {
            var_outside(var, out)
        }
        CSpec::Text { text, .. } => {
            if !quotable(text) {
                out.push("unquotable-string")
            }
            if text.starts_with('?') && text.len() > 1 {
                out.push("id-looks-like-variable")
            }
            if text == "AS" {
                out.push("id-is-reserved-word")
            }
        }
        CSpec::SubStore { id, var } => match id {
            None => {}
            Some(s) if *var => var_outside(s, out),
            Some(s) => {
                id_outside(s, false, out);
                if s == "NONE" || s.is_empty() {
                    out.push("id-is-reserved-word")
                }
            }
        },
        CSpec::Union(subs) => {
            if subs.is_empty() {
                out.push("empty-union");
            }
            for s in subs {
                constraint_outside(s, out);
            }
        }
        CSpec::Limit { .. } => {}
        CSpec::Coll { kind, meta, depth, .. } => {
            if *kind % 5 == 0 {
                match depth % 3 {
                    0 => out.push("depth-zero"),
                    2 if !*meta => out.push("recursive-without-metadata"),
                    _ => {}
                }
            }
        }
    }
}

/// reasons why a built query is not in the image of the grammar (empty = it is)
pub fn outside_grammar(q: &QSpec) -> Vec<&'static str> {
    let mut out = vec![];
    outside_rec(q, true, &mut out);
    out
}

fn outside_rec(q: &QSpec, top: bool, out: &mut Vec<&'static str>) {
    if let Some(n) = &q.name {
        if n.chars().any(|c| c.is_whitespace()) || n.ends_with(';') || n.ends_with('}') {
            out.push("unlexable-name");
        }
    }
    if q.qtype % 3 != 0 {
        if !q.cons.is_empty() {
            out.push("constraints-on-mutation");
        }
        if q.rtype % 6 != 0 {
            out.push("mutation-result-type");
        }
        if q.optional {
            out.push("optional-mutation");
        }
        if !top {
            out.push("mutation-as-subquery");
        }
    }
    for (_, c) in &q.cons {
        constraint_outside(c, out);
    }
    for s in &q.subs {
        outside_rec(s, false, out);
    }
}

// ------------------------------------------------------------------------------------------
// strategies

fn pool(p: &'static [&'static str]) -> BoxedStrategy<String> {
    any::<u16>().prop_map(move |i| p[pick(i, p.len())].to_string()).boxed()
}

fn hostile_string() -> BoxedStrategy<String> {
    let alphabet: &'static [&'static str] = &[
        "a", "b", "Z", "1", "-", ".", " ", "\"", "\\", "?", ";", "|", "]", "[", "{", "}", "é", "😀", "\n", "\t", "AS", "OR", "@", "\u{a0}", "=",
    ];
    proptest::collection::vec(any::<u16>(), 0..6)
        .prop_map(move |v| v.into_iter().map(|i| alphabet[pick(i, alphabet.len())]).collect::<String>())
        .boxed()
}

fn id() -> BoxedStrategy<String> {
    prop_oneof![40 => pool(IDS), 1 => hostile_string()].boxed()
}
fn var() -> BoxedStrategy<String> {
    prop_oneof![60 => pool(VARS), 1 => hostile_string()].boxed()
}
/// (string, is it a variable): ids from the id pool, variables from the variable pool, rarely crossed
fn idvar() -> BoxedStrategy<(String, bool)> {
    prop_oneof![
        10 => id().prop_map(|s| (s, false)),
        10 => var().prop_map(|s| (s, true)),
        1 => (id(), any::<bool>()).prop_map(|(s, v)| (s, v)),
    ]
    .boxed()
}
fn text() -> BoxedStrategy<String> {
    prop_oneof![40 => pool(TEXTS), 1 => hostile_string()].boxed()
}
fn attrs() -> BoxedStrategy<Vec<String>> {
    prop_oneof![
        5 => Just(vec![]),
        1 => proptest::collection::vec(pool(&["x", "attr", "KEY=v", "é", "@", "a;b"]), 1..=2),
    ]
    .boxed()
}
fn cur() -> BoxedStrategy<Cur> {
    (any::<bool>(), prop_oneof![Just(0u32), Just(1), Just(5), 0u32..40]).prop_map(|(end, v)| Cur { end, v }).boxed()
}
fn offset_s() -> BoxedStrategy<Option<(Cur, Cur)>> {
    prop_oneof![
        3 => Just(None),
        2 => (cur(), cur()).prop_map(Some),
        1 => Just(Some((Cur { end: false, v: 0 }, Cur { end: true, v: 0 }))),
    ]
    .boxed()
}
fn meta() -> BoxedStrategy<bool> {
    prop_oneof![2 => Just(false), 1 => Just(true)].boxed()
}

fn vspec(text_form: bool) -> BoxedStrategy<VSpec> {
    let raw: BoxedStrategy<VSpec> = if text_form {
        pool(&[
            "-", ".", "1|2", "a|b", "1.5|x", "99999999999999999999999", "-99999999999999999999999", "1e5", "+5", "\"a|b\"", "007", "-0",
            "1.", ".5", "-.5", "\"5\"", "\"true\"", "\"null\"", "1..2", "2024-01-01", "|",
        ])
        .prop_map(VSpec::Raw)
        .boxed()
    } else {
        pool(&["null", "true", "any", "a|b", "2024-01-01T00:00:00Z", "a\\|b", "1.5"]).prop_map(VSpec::Str).boxed()
    };
    prop_oneof![
        6 => prop_oneof![8 => pool(&["v1", "x", "sentence", "a b", "5", "1.5", "", "say \\\"hi\\\"", "é"]), 1 => hostile_string()].prop_map(VSpec::Str),
        5 => prop_oneof![Just(0i64), Just(5), Just(-1), Just(i64::MAX), Just(i64::MIN), -1000i64..1000].prop_map(VSpec::Int),
        5 => (prop_oneof![Just(0i32), Just(15), Just(-15), Just(10), Just(i32::MAX), any::<i32>()], 0u8..7).prop_map(|(m, d)| VSpec::Float { m, d }),
        1 => Just(VSpec::Null),
        1 => Just(VSpec::Any),
        1 => any::<bool>().prop_map(VSpec::Bool),
        3 => (0u8..6).prop_map(VSpec::Datetime),
        1 => raw,
    ]
    .boxed()
}

fn opspec(text_form: bool) -> BoxedStrategy<OpSpec> {
    (vspec(text_form), any::<u16>(), 0u8..40)
        .prop_map(move |(v, c, wild)| {
            // mostly combinations the grammar accepts
            let allowed: &[u8] = match &v {
                VSpec::Int(_) | VSpec::Float { .. } => &[0, 1, 2, 3, 4, 5],
                VSpec::Datetime(_) => &[0, 2, 3, 4, 5],
                _ => &[0, 1],
            };
            let cmp = if wild == 0 {
                (c % 6) as u8
            } else if wild == 1 && !text_form {
                6
            } else {
                allowed[pick(c, allowed.len())]
            };
            OpSpec { cmp, v }
        })
        .boxed()
}

fn leaf_constraint(text_form: bool) -> BoxedStrategy<CSpec> {
    let rec = prop_oneof![3 => Just(false), 1 => Just(true)];
    prop_oneof![
        3 => id().prop_map(CSpec::Id),
        4 => (idvar(), meta(), rec, offset_s(), 0u8..10).prop_map(|((id, var), meta, rec, offset, k)| {
            // RECURSIVE is only grammatical after AS METADATA; keep the ungrammatical combination rare
            let rec = rec && (meta || k == 0);
            CSpec::Annotation { id, var, meta, rec, offset }
        }),
        4 => (idvar(), meta(), offset_s()).prop_map(|((id, var), meta, offset)| CSpec::Resource { id, var, meta, offset }),
        2 => (idvar(), meta()).prop_map(|((id, var), meta)| CSpec::DataSet { id, var, meta }),
        3 => (id(), id(), meta()).prop_map(|(set, key, meta)| CSpec::DataKey { set, key, meta }),
        8 => (id(), id(), opspec(text_form), meta()).prop_map(|(set, key, op, meta)| CSpec::KeyValue { set, key, op, meta }),
        4 => (opspec(text_form), meta()).prop_map(|(op, meta)| CSpec::Value { op, meta }),
        2 => (var(), meta()).prop_map(|(var, meta)| CSpec::KeyVar { var, meta }),
        2 => (var(), meta()).prop_map(|(var, meta)| CSpec::DataVar { var, meta }),
        2 => var().prop_map(|var| CSpec::TextVar { var }),
        5 => (text(), 0u8..3).prop_map(|(text, mode)| CSpec::Text { text, mode }),
        2 => prop_oneof![1 => Just((None, false)), 4 => idvar().prop_map(|(id, var)| (Some(id), var))].prop_map(|(id, var)| CSpec::SubStore { id, var }),
        3 => (var(), 0u8..10).prop_map(|(var, op)| CSpec::Relation { var, op }),
        2 => (prop_oneof![Just(0i64), Just(-3), Just(2), -6i64..8, Just(i64::MAX), Just(i64::MIN)], prop_oneof![Just(0i64), Just(5), -6i64..8])
            .prop_map(|(begin, end)| CSpec::Limit { begin, end }),
    ]
    .boxed()
}

/// handle collections of size 0-3 over the fixed store, with and without qualifier
fn collection() -> BoxedStrategy<CSpec> {
    (
        0u8..5,
        prop_oneof![1 => Just(0usize), 3 => Just(1usize), 4 => Just(2usize), 3 => Just(3usize)].prop_flat_map(|n| proptest::collection::vec(0u8..12, n..=n)),
        meta(),
        prop_oneof![1 => Just(0u8), 8 => Just(1u8), 2 => Just(2u8)],
    )
        .prop_map(|(kind, picks, meta, depth)| {
            // RECURSIVE is only grammatical after AS METADATA; keep the ungrammatical combination rare
            let depth = if depth == 2 && !meta && picks.first().map(|p| p % 4 != 0).unwrap_or(true) { 1 } else { depth };
            CSpec::Coll { kind, picks, meta, depth: if kind == 0 { depth } else { 1 } }
        })
        .boxed()
}

fn cspec(text_form: bool, union_depth: u32) -> BoxedStrategy<CSpec> {
    let leaf = if text_form { leaf_constraint(text_form) } else { prop_oneof![9 => leaf_constraint(text_form), 1 => collection()].boxed() };
    if union_depth == 0 {
        leaf
    } else {
        prop_oneof![
            7 => leaf,
            1 => proptest::collection::vec(cspec(text_form, union_depth - 1), 1..=3).prop_map(CSpec::Union),
        ]
        .boxed()
    }
}

fn aspec() -> BoxedStrategy<ASpec> {
    prop_oneof![
        2 => id().prop_map(ASpec::Id),
        5 => (id(), id(), proptest::option::weighted(0.85, prop_oneof![
                6 => vspec(true).prop_map(|v| match v {
                    VSpec::Null | VSpec::Any | VSpec::Datetime(_) | VSpec::Raw(_) => VSpec::Str("v1".into()),
                    v => v,
                }),
                1 => vspec(true),
            ])).prop_map(|(set, key, v)| ASpec::Data { set, key, v }),
        4 => (var(), offset_s()).prop_map(|(var, offset)| ASpec::Target { var, offset }),
        1 => (0u8..3).prop_map(ASpec::Complex),
    ]
    .boxed()
}

fn name() -> BoxedStrategy<Option<String>> {
    prop_oneof![2 => Just(None), 5 => var().prop_map(Some)].boxed()
}

fn select(depth: u32, text_form: bool, allow_optional: bool) -> BoxedStrategy<QSpec> {
    let subs: BoxedStrategy<Vec<QSpec>> = if depth == 0 {
        Just(vec![]).boxed()
    } else {
        prop_oneof![
            3 => Just(vec![]),
            3 => proptest::collection::vec(select(depth - 1, text_form, true), 1..=1),
            2 => proptest::collection::vec(select(depth - 1, text_form, true), 2..=3),
        ]
        .boxed()
    };
    let attrs_s: BoxedStrategy<Vec<String>> = if text_form { attrs() } else { Just(vec![]).boxed() };
    let cattrs: BoxedStrategy<Vec<String>> = if text_form { attrs() } else { Just(vec![]).boxed() };
    (
        prop_oneof![3 => Just(false), 1 => Just(allow_optional)],
        0u8..6,
        name(),
        attrs_s,
        proptest::collection::vec((cattrs, cspec(text_form, 2)), 0..=4),
        subs,
    )
        .prop_map(|(optional, rtype, name, attrs, cons, subs)| QSpec { qtype: 0, optional, rtype, name, attrs, cons, assigns: vec![], subs })
        .boxed()
}

fn subs01(depth: u32, text_form: bool) -> BoxedStrategy<Vec<QSpec>> {
    prop_oneof![
        1 => Just(vec![]),
        8 => proptest::collection::vec(select(depth.saturating_sub(1), text_form, false), 1..=1),
    ]
    .boxed()
}

pub fn qspec(depth: u32, text_form: bool) -> BoxedStrategy<QSpec> {
    let attrs_s: BoxedStrategy<Vec<String>> = if text_form { attrs() } else { Just(vec![]).boxed() };
    let assigns: BoxedStrategy<Vec<ASpec>> = if text_form { proptest::collection::vec(aspec(), 0..=4).boxed() } else { Just(vec![]).boxed() };
    let add = (name(), attrs_s.clone(), assigns, subs01(depth, text_form))
        .prop_map(|(name, attrs, assigns, subs)| QSpec { qtype: 1, optional: false, rtype: 0, name, attrs, cons: vec![], assigns, subs });
    let delete = (name(), attrs_s, subs01(depth, text_form))
        .prop_map(|(name, attrs, subs)| QSpec { qtype: 2, optional: false, rtype: 0, name, attrs, cons: vec![], assigns: vec![], subs });
    // rare wild variants: anything goes (constraints on ADD, OPTIONAL DELETE, other result types)
    let wild = (select(depth, text_form, true), 0u8..3, 0u8..6).prop_map(|(mut q, qt, rt)| {
        q.qtype = qt;
        q.rtype = rt;
        q
    });
    prop_oneof![
        12 => select(depth, text_form, true),
        if text_form { 4 } else { 1 } => add,
        2 => delete,
        1 => wild,
    ]
    .boxed()
}

/// built SELECT queries whose first constraint is a handle collection in a place where the engine evaluates both the
/// collection and the disjunction it is printed as (so that the `meaning` facet is decided), optionally followed by a
/// constraint that the fixed store satisfies
pub fn collection_query() -> BoxedStrategy<QSpec> {
    // (result type, collection kind, metadata allowed, RECURSIVE allowed)
    let place = prop_oneof![
        4 => Just((0u8, 0u8, true, false)),
        3 => Just((1u8, 1u8, false, false)),
        2 => Just((1u8, 0u8, true, true)),
        2 => Just((2u8, 0u8, true, true)),
        3 => Just((4u8, 3u8, true, false)),
        1 => (0u8..6, 0u8..5).prop_map(|(rt, k)| (rt, k, true, true)),
    ];
    let second = prop_oneof![
        5 => Just(None),
        1 => Just(Some(CSpec::DataKey { set: "s1".into(), key: "k1".into(), meta: false })),
        1 => Just(Some(CSpec::DataKey { set: "s1".into(), key: "k2".into(), meta: false })),
        1 => Just(Some(CSpec::Resource { id: "r1".into(), var: false, meta: false, offset: None })),
        1 => Just(Some(CSpec::Value { op: OpSpec { cmp: 1, v: VSpec::Str("v1".into()) }, meta: false })),
    ];
    (
        place,
        prop_oneof![1 => Just(0usize), 3 => Just(1usize), 4 => Just(2usize), 3 => Just(3usize)].prop_flat_map(|n| proptest::collection::vec(0u8..12, n..=n)),
        any::<bool>(),
        0u8..6,
        second,
        name(),
    )
        .prop_map(|((rtype, kind, meta_ok, rec_ok), picks, meta, d, second, name)| {
            let meta = meta && meta_ok;
            let depth = if kind == 0 && rec_ok && meta && d == 0 { 2 } else { 1 };
            let mut cons = vec![(vec![], CSpec::Coll { kind, picks, meta, depth })];
            if let Some(c) = second {
                cons.push((vec![], c));
            }
            QSpec { qtype: 0, optional: false, rtype, name, attrs: vec![], cons, assigns: vec![], subs: vec![] }
        })
        .boxed()
}

pub fn mutation() -> BoxedStrategy<Mut> {
    prop_oneof![
        3 => any::<u16>().prop_map(Mut::Delete),
        2 => any::<u16>().prop_map(Mut::Dup),
        2 => any::<u16>().prop_map(Mut::Swap),
        4 => (any::<u16>(), any::<u16>()).prop_map(|(a, b)| Mut::Replace(a, b)),
        2 => (any::<u16>(), any::<u16>()).prop_map(|(a, b)| Mut::Insert(a, b)),
        2 => any::<u16>().prop_map(Mut::Glue),
        2 => (any::<u16>(), any::<u16>()).prop_map(|(a, b)| Mut::Ws(a, b)),
        3 => any::<u16>().prop_map(Mut::Truncate),
    ]
    .boxed()
}

pub fn raw_string() -> BoxedStrategy<String> {
    prop_oneof![
        3 => "\\PC{0,40}".prop_map(|s| s),
        2 => proptest::collection::vec(any::<char>(), 0..24).prop_map(|v| v.into_iter().collect::<String>()),
        2 => ("\\PC{0,24}", pool(&["SELECT ", "SELECT ANNOTATION WHERE ", "ADD ANNOTATION WITH ", "DELETE ANNOTATION ", "SELECT TEXT ?x WHERE TEXT ", "SELECT ANNOTATION {", "SELECT DATA WHERE VALUE = ", "SELECT ANNOTATION WHERE DATA s k "]))
            .prop_map(|(s, p)| format!("{}{}", p, s)),
        1 => ("\\PC{0,12}", pool(&["SELECT", "ADD", "DELETE", "{SELECT", "SELECT ANNOTATION {SELECT", "SELECT ANNOTATION {ADD"])).prop_map(|(s, p)| format!("{}{}", p, s)),
    ]
    .boxed()
}

/// random sequences of dictionary words, sample arguments and hostile literals
pub fn soup() -> BoxedStrategy<String> {
    let word = prop_oneof![
        6 => pool(KEYWORDS),
        2 => pool(HOSTILE),
        2 => pool(IDS).prop_map(|s| format!("\"{}\"", s)),
        2 => pool(&["a", "s1", "k1", "A1", "5", "-3", "1.5", "?x", "?a", "v1"]),
    ];
    let sep = prop_oneof![10 => Just(" ".to_string()), 1 => pool(SEPS), 1 => Just(String::new()), 1 => pool(ODDWS)];
    let prefix = prop_oneof![
        3 => Just(String::new()),
        3 => Just("SELECT ANNOTATION WHERE ".to_string()),
        1 => Just("SELECT TEXT ?a WHERE ".to_string()),
        1 => Just("ADD ANNOTATION WITH ".to_string()),
        1 => Just("SELECT ANNOTATION ?a { ".to_string()),
        1 => Just("DELETE ANNOTATION ?a { SELECT ANNOTATION ?a WHERE ".to_string()),
    ];
    (prefix, proptest::collection::vec((word, sep), 1..12))
        .prop_map(|(p, v)| {
            let mut s = p;
            for (w, sep) in v {
                s.push_str(&w);
                s.push_str(&sep);
            }
            s
        })
        .boxed()
}

// ------------------------------------------------------------------------------------------
// enumerated battery

pub const CANON: &[&str] = &[
    "SELECT ANNOTATION ?a WHERE ID \"A1\";",
    "SELECT TEXT ?t WHERE TEXT \"fly\";",
    "SELECT TEXT WHERE TEXT AS NOCASE \"FLY\";",
    "SELECT TEXT WHERE TEXT AS REGEX \"fl[yi]\";",
    "SELECT TEXT ?t WHERE TEXT ?x;",
    "SELECT ANNOTATION WHERE ANNOTATION \"A1\";",
    "SELECT ANNOTATION WHERE ANNOTATION AS METADATA \"A1\";",
    "SELECT ANNOTATION WHERE ANNOTATION AS TARGET RECURSIVE ?x OFFSET 0 -0;",
    "SELECT ANNOTATION WHERE RESOURCE \"r1\";",
    "SELECT TEXT WHERE RESOURCE \"r1\" OFFSET 0 5;",
    "SELECT ANNOTATION WHERE RESOURCE AS METADATA ?r;",
    "SELECT TEXT WHERE RESOURCE ?r OFFSET WHOLE;",
    "SELECT DATA WHERE DATASET \"s1\";",
    "SELECT ANNOTATION WHERE DATASET AS METADATA ?s;",
    "SELECT ANNOTATION ?a WHERE RELATION ?x EMBEDS;",
    "SELECT TEXT ?a WHERE RELATION ?x SAMEBEGIN; RELATION ?y AFTER;",
    "SELECT ANNOTATION WHERE DATA \"s1\" \"k1\";",
    "SELECT ANNOTATION WHERE DATA AS METADATA \"s1\" \"k1\" = \"v1\";",
    "SELECT ANNOTATION WHERE DATA s1 k2 >= 5;",
    "SELECT ANNOTATION WHERE DATA s1 k2 != 1.5;",
    "SELECT ANNOTATION WHERE DATA s1 k2 < -1.5;",
    "SELECT ANNOTATION WHERE DATA s1 k1 = 2024-01-01T00:00:00+00:00;",
    "SELECT ANNOTATION WHERE DATA s1 k1 <= \"2024-01-01T00:00:00Z\";",
    "SELECT ANNOTATION WHERE DATA s1 k1 = a|b;",
    "SELECT ANNOTATION WHERE DATA s1 k1 != \"a|b\";",
    "SELECT ANNOTATION WHERE DATA s1 k1 = null; DATA s1 k1 != any; DATA s1 x = true;",
    "SELECT ANNOTATION WHERE DATA ?d;",
    "SELECT ANNOTATION WHERE DATA AS METADATA ?d;",
    "SELECT DATA WHERE VALUE = \"v1\";",
    "SELECT DATA WHERE VALUE AS METADATA > 3;",
    "SELECT ANNOTATION WHERE KEY ?k;",
    "SELECT ANNOTATION WHERE KEY AS METADATA ?k;",
    "SELECT ANNOTATION WHERE SUBSTORE \"sub\"; SUBSTORE NONE; SUBSTORE ?s;",
    "SELECT ANNOTATION WHERE [ ID \"A1\" OR ID \"A2\" ];",
    "SELECT ANNOTATION WHERE [ DATA s1 k1 = v1; OR TEXT \"x\"; OR [ ID a OR ID b ] ]; LIMIT 2;",
    "SELECT ANNOTATION WHERE LIMIT -3 0;",
    "@attr @b=c SELECT OPTIONAL ANNOTATION ?a WHERE @c1 ID \"A1\"; @c2 @c3 TEXT \"say \\\"hi\\\"\";",
    "SELECT TEXT ?s WHERE DATA s1 k1 = sentence; { SELECT TEXT ?w WHERE RELATION ?s EMBEDS; DATA s1 k1 = x; }",
    "SELECT ANNOTATION ?a { SELECT OPTIONAL ANNOTATION ?b WHERE ANNOTATION ?a; | @z SELECT DATA ?d WHERE ANNOTATION ?a; { SELECT KEY ?k WHERE DATA ?d; } }",
    "SELECT RESOURCE ?r { SELECT DATASET ?s }",
    "ADD ANNOTATION ?n WITH ID \"new\"; DATA \"s1\" \"k1\" \"v\"; DATA s1 k2 5; DATA s1 k2 1.5; DATA s1 x true; DATA s1 k3; TARGET ?t OFFSET 0 -1; { SELECT TEXT ?t WHERE RESOURCE \"r1\" OFFSET 0 5; }",
    "ADD ANNOTATION WITH COMPOSITE; TARGET ?a; TARGET ?b; { SELECT TEXT ?a WHERE TEXT \"Hello\"; { SELECT TEXT ?b WHERE TEXT \"world\"; } }",
    "ADD ANNOTATION WITH MULTI TARGET ?a; DIRECTIONAL DATA s1 k1 null; DATA s1 k1 2024-01-01T00:00:00Z; DATA s1 k1 a|b;",
    "DELETE ANNOTATION ?a { SELECT ANNOTATION ?a WHERE ID \"A1\"; }",
    "select annotation ?a where id x;",
    "SELECT annotation ?a WHERE\n\tID x;\n\tDATA s1 k1;\n\n{\n SELECT text ?b WHERE\n\tRELATION ?a OVERLAPS;\n}",
];

pub const NUMLITS: &[&str] = &[
    "-", ".", "-.", "0", "-0", "00", "1", "-1", "1.", ".5", "-.5", "1.5", "-1.5", "1..5", "1e5", "1e999", "9223372036854775807",
    "9223372036854775808", "-9223372036854775808", "-9223372036854775809", "1111111111111111111111111111111111111111",
    "-1111111111111111111111111111111111111111", "1111111111111111111111111111111111111111.5", "0x10", "+5", "--5", "5-", "١٢٣",
    "１２", "NaN", "inf", "-inf", "1_000", "", "\"5\"", "\"-\"", "\".\"", "1|2", "1.5|x", "-|.", "|", "1|", "2024-01-01T00:00:00Z",
    "2024-13-01T00:00:00Z", "2024-01-01", "2024-01-01T00:00:00+99:00", "-.5.", "..", "-0.0", "0.", "1.0", "100.0",
];

pub fn battery() -> Vec<String> {
    let mut v: Vec<String> = vec![];
    // every keyword alone and in every context
    let contexts: &[(&str, &str)] = &[
        ("", ""),
        ("", " "),
        ("", ";"),
        ("SELECT ", ""),
        ("SELECT OPTIONAL ", ""),
        ("SELECT ANNOTATION ", ""),
        ("SELECT ANNOTATION ?a ", ""),
        ("SELECT ANNOTATION WHERE ", ""),
        ("SELECT ANNOTATION WHERE ", ";"),
        ("SELECT ANNOTATION WHERE ", " "),
        ("SELECT ANNOTATION WHERE ", " x"),
        ("SELECT ANNOTATION WHERE [ ", ""),
        ("SELECT ANNOTATION WHERE [ ID a OR ", ""),
        ("ADD ANNOTATION WITH ", ""),
        ("ADD ANNOTATION WITH ", ";"),
        ("ADD ANNOTATION WITH DATA s k ", ";"),
        ("ADD ANNOTATION WITH TARGET ", ";"),
        ("SELECT ANNOTATION {", ""),
        ("SELECT ANNOTATION { ", ""),
        ("SELECT ANNOTATION { ", " }"),
        ("SELECT ANNOTATION WHERE ID a; {", ""),
        ("DELETE ANNOTATION {", ""),
        ("DELETE ", ""),
        ("ADD ", ""),
        ("@x ", ""),
        ("SELECT ANNOTATION WHERE DATA s k ", ";"),
        ("SELECT ANNOTATION WHERE DATA s k = ", ";"),
        ("SELECT ANNOTATION WHERE DATA s k ", " 5;"),
        ("SELECT ANNOTATION WHERE ANNOTATION AS ", ";"),
        ("SELECT ANNOTATION WHERE ANNOTATION AS ", " x;"),
        ("SELECT ANNOTATION WHERE ANNOTATION AS METADATA ", ";"),
        ("SELECT ANNOTATION WHERE ANNOTATION AS METADATA RECURSIVE ", ";"),
        ("SELECT TEXT WHERE RESOURCE r OFFSET ", ";"),
        ("SELECT TEXT WHERE RESOURCE r OFFSET 0 ", ";"),
        ("SELECT TEXT WHERE TEXT AS ", ";"),
        ("SELECT TEXT WHERE TEXT AS ", " x;"),
        ("SELECT TEXT WHERE RELATION ?x ", ";"),
        ("SELECT TEXT WHERE RELATION ", " EMBEDS;"),
        ("SELECT ANNOTATION WHERE LIMIT ", ";"),
        ("SELECT DATA WHERE VALUE ", ";"),
        ("SELECT DATA WHERE VALUE AS ", " = 5;"),
    ];
    for kw in KEYWORDS.iter().chain(HOSTILE.iter()) {
        for (pre, post) in contexts {
            v.push(format!("{}{}{}", pre, kw, post));
        }
    }
    // canonical queries: every prefix, every single token deleted, every token doubled
    for q in CANON {
        let chars: Vec<char> = q.chars().collect();
        for n in 0..=chars.len() {
            v.push(chars[..n].iter().collect());
        }
        let toks: Vec<&str> = q.split_whitespace().collect();
        for i in 0..toks.len() {
            let mut t = toks.clone();
            t.remove(i);
            v.push(t.join(" "));
            let mut t = toks.clone();
            t.insert(i, toks[i]);
            v.push(t.join(" "));
        }
        // suffixes starting at each token (sub-query / constraint text as a whole query)
        for i in 1..toks.len() {
            v.push(toks[i..].join(" "));
        }
    }
    // numeric literal battery
    for lit in NUMLITS {
        for op in CMPS {
            v.push(format!("SELECT ANNOTATION WHERE DATA s1 k2 {} {};", op, lit));
            v.push(format!("SELECT DATA WHERE VALUE {} {};", op, lit));
            v.push(format!("SELECT ANNOTATION WHERE DATA AS METADATA s1 k2 {} {} ;", op, lit));
        }
        v.push(format!("SELECT ANNOTATION WHERE LIMIT {};", lit));
        v.push(format!("SELECT ANNOTATION WHERE LIMIT {} {};", lit, lit));
        v.push(format!("SELECT ANNOTATION WHERE LIMIT 0 {};", lit));
        v.push(format!("SELECT TEXT WHERE RESOURCE r1 OFFSET {};", lit));
        v.push(format!("SELECT TEXT WHERE RESOURCE r1 OFFSET {} {};", lit, lit));
        v.push(format!("SELECT TEXT WHERE RESOURCE r1 OFFSET 0 {};", lit));
        v.push(format!("SELECT ANNOTATION WHERE ANNOTATION ?x OFFSET {} {};", lit, lit));
        v.push(format!("SELECT ANNOTATION WHERE [ DATA s1 k2 = {} OR DATA s1 k2 = {} ];", lit, lit));
        v.push(format!("ADD ANNOTATION WITH DATA s1 k2 {}; TARGET ?t; {{ SELECT TEXT ?t WHERE RESOURCE r1 OFFSET 0 1; }}", lit));
        v.push(format!("ADD ANNOTATION WITH TARGET ?t OFFSET {} {}; {{ SELECT TEXT ?t WHERE RESOURCE r1 OFFSET 0 1; }}", lit, lit));
    }
    // a float literal too large for f64 (parses to infinity, for which there is no syntax)
    let huge = format!("{}.0", "9".repeat(400));
    for op in CMPS {
        v.push(format!("SELECT DATA WHERE VALUE {} {};", op, huge));
        v.push(format!("SELECT DATA WHERE VALUE {} -{};", op, huge));
    }
    v.sort();
    v.dedup();
    v
}
