//! C14 Failed mutations leave the store observably unchanged.
//! Case = valid history prefix + a valid base request + a mistake injected into it (+ optional batch
//! wrapping). Oracle: twin store that never saw the failed attempt.

use crate::engine::*;
use crate::hist::*;
use crate::model::*;
use crate::observe::*;
use proptest::prelude::*;
use serde::{Deserialize, Serialize};
use stam::*;

pub struct C14;

#[derive(Clone, Debug, Serialize, Deserialize, PartialEq)]
pub enum Mistake {
    /// the k-th leaf of the target names an unknown resource / annotation / dataset / key / data
    UnknownReferent { leaf: u8 },
    /// the k-th leaf carrying an offset gets an invalid offset: 0 end beyond length, 1 begin beyond length,
    /// 2 inverted, 3 end-aligned begin before the start
    BadOffset { leaf: u8, kind: u8 },
    /// an invalid datum inserted at position `pos` of the data list: 0 reference to unknown data id in a
    /// live set, 1 new datum without key
    BadDatum { pos: u8, kind: u8 },
    /// the id of a live annotation (different content)
    DuplicateId { pick: u16 },
    /// complex selector nested inside a complex selector (wraps the sub-selector at position `pos`; serialised
    /// cases without the field wrap the last one)
    Nested {
        #[serde(default = "last_pos")]
        pos: u8,
    },
    NoTarget,
}

fn last_pos() -> u8 {
    255
}

#[derive(Clone, Debug, Serialize, Deserialize, PartialEq)]
pub enum Other {
    /// add_resource with the id of a live resource but another text
    DupResource { pick: u16 },
    /// add_dataset with the id of a live dataset, carrying new data
    DupDataset { pick: u16, data: Vec<DSpec> },
    /// insert_data into a live set without key and without id
    InsertNoKey { set: u16 },
    /// insert_data referring to an unknown data id without key
    InsertUnknownId { set: u16 },
}

#[derive(Clone, Debug, Serialize, Deserialize)]
pub struct Base {
    pub with_id: bool,
    pub by_handle: bool,
    pub target: SelSpec,
    pub data: Vec<ADSpec>,
}

#[derive(Clone, Debug, Serialize, Deserialize)]
pub enum Request {
    Annotate {
        base: Base,
        mistake: Mistake,
        batch_before: Vec<Base>,
        /// valid requests following the failing one in the batch: must NOT be applied ("stops at the first error")
        #[serde(default)]
        batch_after: Vec<Base>,
        /// how the request reaches the store: 0 annotate / annotate_from_iter, 1 annotate_from_file (STAM JSON list of
        /// annotations), 2 an ADD query through query_mut (only for requests STAMQL can express; falls back to 0)
        #[serde(default)]
        via: u8,
    },
    Other(Other),
}

#[derive(Clone, Debug, Serialize, Deserialize)]
pub struct Case {
    pub hist: History,
    pub req: Request,
}

fn base_strategy() -> BoxedStrategy<Base> {
    let adspec = prop_oneof![
        6 => (prop_oneof![4 => any::<u16>().prop_map(SetRef::Live), 2 => Just(SetRef::Fresh)], proptest::bool::weighted(0.4), 0u8..6, val_strategy(false))
            .prop_map(|(set, with_id, key, val)| ADSpec::New { set, with_id, key, val }),
        2 => (any::<u16>(), any::<u16>()).prop_map(|(set, data)| ADSpec::Existing { set, data }),
    ];
    (proptest::bool::weighted(0.5), any::<bool>(), selspec_strategy(3), proptest::collection::vec(adspec, 0..=3))
        .prop_map(|(with_id, by_handle, target, data)| Base { with_id, by_handle, target, data })
        .boxed()
}

fn mistake_strategy() -> BoxedStrategy<Mistake> {
    prop_oneof![
        3 => (0u8..4).prop_map(|leaf| Mistake::UnknownReferent { leaf }),
        4 => (0u8..4, 0u8..4).prop_map(|(leaf, kind)| Mistake::BadOffset { leaf, kind }),
        4 => (0u8..4, 0u8..2).prop_map(|(pos, kind)| Mistake::BadDatum { pos, kind }),
        3 => any::<u16>().prop_map(|pick| Mistake::DuplicateId { pick }),
        2 => prop_oneof![Just(0u8), Just(1u8), Just(255u8)].prop_map(|pos| Mistake::Nested { pos }),
        1 => Just(Mistake::NoTarget),
    ]
    .boxed()
}

fn leaves_mut<'a, 'b>(t: &'b mut SelectorBuilder<'a>) -> Vec<&'b mut SelectorBuilder<'a>> {
    match t {
        SelectorBuilder::MultiSelector(v) | SelectorBuilder::CompositeSelector(v) | SelectorBuilder::DirectionalSelector(v) => v.iter_mut().collect(),
        other => vec![other],
    }
}

const NOPE: &str = "no-such-item-anywhere";

fn clone_sel<'a>(t: &SelectorBuilder<'a>) -> SelectorBuilder<'a> {
    match t {
        SelectorBuilder::ResourceSelector(r) => SelectorBuilder::ResourceSelector(r.clone()),
        SelectorBuilder::AnnotationSelector(a, o) => SelectorBuilder::AnnotationSelector(a.clone(), o.clone()),
        SelectorBuilder::TextSelector(r, o) => SelectorBuilder::TextSelector(r.clone(), o.clone()),
        SelectorBuilder::DataSetSelector(s) => SelectorBuilder::DataSetSelector(s.clone()),
        SelectorBuilder::DataKeySelector(s, k) => SelectorBuilder::DataKeySelector(s.clone(), k.clone()),
        SelectorBuilder::AnnotationDataSelector(s, d) => SelectorBuilder::AnnotationDataSelector(s.clone(), d.clone()),
        SelectorBuilder::MultiSelector(v) => SelectorBuilder::MultiSelector(v.iter().map(clone_sel).collect()),
        SelectorBuilder::CompositeSelector(v) => SelectorBuilder::CompositeSelector(v.iter().map(clone_sel).collect()),
        SelectorBuilder::DirectionalSelector(v) => SelectorBuilder::DirectionalSelector(v.iter().map(clone_sel).collect()),
    }
}

/// inject the mistake; returns the class name of the request or None if the mistake does not apply
fn inject(
    m: &Machine,
    mistake: &Mistake,
    id: &mut Option<String>,
    target: &mut Option<SelectorBuilder<'static>>,
    data: &mut Vec<AnnotationDataBuilder<'static>>,
    mtarget: &MSel,
) -> Option<String> {
    match mistake {
        Mistake::UnknownReferent { leaf } => {
            let t = target.as_mut()?;
            let mut ls = leaves_mut(t);
            let n = ls.len();
            let i = *leaf as usize % n;
            let l = &mut ls[i];
            let kind;
            **l = match &**l {
                SelectorBuilder::TextSelector(_, off) => {
                    kind = "text";
                    SelectorBuilder::TextSelector(BuildItem::Id(NOPE.into()), off.clone())
                }
                SelectorBuilder::ResourceSelector(_) => {
                    kind = "resource";
                    SelectorBuilder::ResourceSelector(BuildItem::Id(NOPE.into()))
                }
                SelectorBuilder::AnnotationSelector(_, off) => {
                    kind = "annotation";
                    SelectorBuilder::AnnotationSelector(BuildItem::Id(NOPE.into()), off.clone())
                }
                SelectorBuilder::DataSetSelector(_) => {
                    kind = "dataset";
                    SelectorBuilder::DataSetSelector(BuildItem::Id(NOPE.into()))
                }
                SelectorBuilder::DataKeySelector(s, _) => {
                    kind = "key";
                    SelectorBuilder::DataKeySelector(s.clone(), BuildItem::Id(NOPE.into()))
                }
                SelectorBuilder::AnnotationDataSelector(s, _) => {
                    kind = "data";
                    SelectorBuilder::AnnotationDataSelector(s.clone(), BuildItem::Id(NOPE.into()))
                }
                _ => return None,
            };
            Some(format!("unknown-{}|{}|leaf{}of{}", kind, if i == 0 { "first" } else { "later" }, i.min(2), n.min(3)))
        }
        Mistake::BadOffset { leaf, kind } => {
            let t = target.as_mut()?;
            let mleaves = mtarget.leaves();
            let mut ls = leaves_mut(t);
            let n = ls.len();
            // pick among leaves carrying an offset
            let cands: Vec<usize> = (0..n)
                .filter(|i| matches!(&*ls[*i], SelectorBuilder::TextSelector(..) | SelectorBuilder::AnnotationSelector(_, Some(_))))
                .collect();
            if cands.is_empty() {
                return None;
            }
            let i = cands[*leaf as usize % cands.len()];
            // parent length
            let plen: usize = match mleaves[i] {
                MSel::Text { res, .. } => m.model.res(*res).text.len(),
                MSel::Ann { ann, text: Some(_) } => m.model.single_text(*ann).map(|(_, b, e)| e - b)?,
                _ => return None,
            };
            let bad = match kind % 4 {
                0 => Offset::new(Cursor::BeginAligned(0), Cursor::BeginAligned(plen + 1 + (*leaf as usize))),
                1 => Offset::new(Cursor::BeginAligned(plen + 1), Cursor::BeginAligned(plen + 2)),
                2 => {
                    if plen == 0 {
                        Offset::new(Cursor::BeginAligned(1), Cursor::BeginAligned(0))
                    } else {
                        Offset::new(Cursor::BeginAligned(plen), Cursor::BeginAligned(plen - 1))
                    }
                }
                _ => Offset::new(Cursor::EndAligned(-(plen as isize) - 1), Cursor::EndAligned(0)),
            };
            let rel;
            let l = &mut ls[i];
            **l = match &**l {
                SelectorBuilder::TextSelector(r, _) => {
                    rel = "resource";
                    SelectorBuilder::TextSelector(r.clone(), bad)
                }
                SelectorBuilder::AnnotationSelector(a, _) => {
                    rel = "relative";
                    SelectorBuilder::AnnotationSelector(a.clone(), Some(bad))
                }
                _ => return None,
            };
            let kn = ["end-beyond", "begin-beyond", "inverted", "endaligned-before-start"][(*kind % 4) as usize];
            Some(format!("bad-offset|{}|{}|{}|leaf{}of{}", if i == 0 { "first" } else { "later" }, rel, kn, i.min(2), n.min(3)))
        }
        Mistake::BadDatum { pos, kind } => {
            target.as_ref()?;
            let p = (*pos as usize).min(data.len());
            let live = m.model.live_sets();
            if live.is_empty() {
                return None;
            }
            let s = live[0];
            let bad = match kind % 2 {
                0 => AnnotationDataBuilder::new()
                    .with_dataset(BuildItem::Handle(AnnotationDataSetHandle::new(s)))
                    .with_id(BuildItem::Id(NOPE.into())),
                _ => AnnotationDataBuilder::new()
                    .with_dataset(BuildItem::Handle(AnnotationDataSetHandle::new(s)))
                    .with_value(DataValue::Int(1)),
            };
            data.insert(p, bad);
            Some(format!("bad-datum|later|{}|after{}valid", if kind % 2 == 0 { "unknown-data-id" } else { "no-key" }, p.min(2)))
        }
        Mistake::DuplicateId { pick: p } => {
            target.as_ref()?;
            let with_id: Vec<usize> = m.model.live_anns().into_iter().filter(|a| m.model.ann(*a).id.is_some()).collect();
            if with_id.is_empty() {
                return None;
            }
            let a = with_id[pick(*p, with_id.len())];
            *id = m.model.ann(a).id.clone();
            Some(format!("duplicate-annotation-id|later|{}data", data.len().min(2)))
        }
        Mistake::Nested { pos } => {
            let t = target.take()?;
            match t {
                SelectorBuilder::MultiSelector(v) | SelectorBuilder::CompositeSelector(v) | SelectorBuilder::DirectionalSelector(v) => {
                    if v.len() < 2 {
                        return None;
                    }
                    let mut v = v;
                    let i = (*pos as usize).min(v.len() - 1);
                    let member = v.remove(i);
                    let inner = SelectorBuilder::MultiSelector(vec![clone_sel(&member), member]);
                    v.insert(i, inner);
                    *target = Some(SelectorBuilder::CompositeSelector(v));
                    Some(format!("nested-complex|{}", if i == 0 { "first" } else { "later" }))
                }
                other => {
                    *target = Some(other);
                    None
                }
            }
        }
        Mistake::NoTarget => {
            *target = None;
            Some(format!("no-target|first|{}data", data.len().min(2)))
        }
    }
}


type Parts = (Option<String>, Option<SelectorBuilder<'static>>, Vec<AnnotationDataBuilder<'static>>);

fn bi_string<T: Storable>(b: &BuildItem<'_, T>, prefix: &str, lookup: &dyn Fn(T::HandleType) -> Option<Option<String>>) -> Option<String>
where
    T::HandleType: Handle,
{
    match b {
        BuildItem::Id(s) => Some(s.clone()),
        BuildItem::IdRef(s) => Some(s.to_string()),
        BuildItem::Handle(h) => match lookup(*h) {
            Some(Some(id)) => Some(id),
            // an item without public id cannot be named in a document (temporary ids are C03's business): the
            // request then takes the direct route
            Some(None) => {
                let _ = prefix;
                None
            }
            None => None,
        },
        _ => None,
    }
}

fn res_id(store: &AnnotationStore, b: &BuildItem<'_, TextResource>) -> Option<String> {
    bi_string(b, "!R", &|h| store.resource(h).map(|r| r.id().map(|s| s.to_string())))
}
fn ann_id(store: &AnnotationStore, b: &BuildItem<'_, Annotation>) -> Option<String> {
    bi_string(b, "!A", &|h| store.annotation(h).map(|r| r.id().map(|s| s.to_string())))
}
fn set_id(store: &AnnotationStore, b: &BuildItem<'_, AnnotationDataSet>) -> Option<String> {
    bi_string(b, "!S", &|h| store.dataset(h).map(|r| r.id().map(|s| s.to_string())))
}
fn set_handle(store: &AnnotationStore, b: &BuildItem<'_, AnnotationDataSet>) -> Option<AnnotationDataSetHandle> {
    match b {
        BuildItem::Handle(h) => Some(*h),
        BuildItem::Id(s) => store.dataset(s.as_str()).map(|d| d.handle()),
        BuildItem::IdRef(s) => store.dataset(*s).map(|d| d.handle()),
        _ => None,
    }
}
fn key_id(store: &AnnotationStore, set: &BuildItem<'_, AnnotationDataSet>, b: &BuildItem<'_, DataKey>) -> Option<String> {
    let sh = set_handle(store, set);
    bi_string(b, "!K", &|h| {
        let ds = store.dataset(sh?)?;
        let k = ds.key(h)?;
        Some(k.id().map(|s| s.to_string()))
    })
}
fn data_id(store: &AnnotationStore, set: &BuildItem<'_, AnnotationDataSet>, b: &BuildItem<'_, AnnotationData>) -> Option<String> {
    let sh = set_handle(store, set);
    bi_string(b, "!D", &|h| {
        let ds = store.dataset(sh?)?;
        let d = ds.annotationdata(h)?;
        Some(d.id().map(|s| s.to_string()))
    })
}

/// STAM JSON of a selector builder; None if a referent cannot be named in a document
fn sel_json(store: &AnnotationStore, t: &SelectorBuilder<'static>) -> Option<serde_json::Value> {
    use serde_json::json;
    Some(match t {
        SelectorBuilder::ResourceSelector(r) => json!({"@type": "ResourceSelector", "resource": res_id(store, r)?}),
        SelectorBuilder::TextSelector(r, o) => json!({"@type": "TextSelector", "resource": res_id(store, r)?, "offset": serde_json::to_value(o).ok()?}),
        SelectorBuilder::AnnotationSelector(a, Some(o)) => json!({"@type": "AnnotationSelector", "annotation": ann_id(store, a)?, "offset": serde_json::to_value(o).ok()?}),
        SelectorBuilder::AnnotationSelector(a, None) => json!({"@type": "AnnotationSelector", "annotation": ann_id(store, a)?}),
        SelectorBuilder::DataSetSelector(s) => json!({"@type": "DataSetSelector", "annotationset": set_id(store, s)?}),
        SelectorBuilder::DataKeySelector(s, k) => json!({"@type": "DataKeySelector", "annotationset": set_id(store, s)?, "key": key_id(store, s, k)?}),
        SelectorBuilder::AnnotationDataSelector(s, d) => json!({"@type": "AnnotationDataSelector", "annotationset": set_id(store, s)?, "data": data_id(store, s, d)?}),
        SelectorBuilder::MultiSelector(v) => json!({"@type": "MultiSelector", "selectors": v.iter().map(|x| sel_json(store, x)).collect::<Option<Vec<_>>>()?}),
        SelectorBuilder::CompositeSelector(v) => json!({"@type": "CompositeSelector", "selectors": v.iter().map(|x| sel_json(store, x)).collect::<Option<Vec<_>>>()?}),
        SelectorBuilder::DirectionalSelector(v) => json!({"@type": "DirectionalSelector", "selectors": v.iter().map(|x| sel_json(store, x)).collect::<Option<Vec<_>>>()?}),
    })
}

/// STAM JSON of an annotation request (as `annotate_from_file` reads it); None if it cannot be written as a document
fn parts_json(store: &AnnotationStore, parts: &Parts) -> Option<serde_json::Value> {
    let mut o = serde_json::Map::new();
    o.insert("@type".into(), "Annotation".into());
    if let Some(id) = &parts.0 {
        o.insert("@id".into(), id.clone().into());
    }
    // a request without target is written without the member: the document then cannot be deserialised at all
    if let Some(t) = parts.1.as_ref() {
        o.insert("target".into(), sel_json(store, t)?);
    }
    let mut data = vec![];
    for d in &parts.2 {
        let mut dj = serde_json::Map::new();
        dj.insert("@type".into(), "AnnotationData".into());
        let setb = d.dataset().clone();
        match d.id().clone() {
            BuildItem::None => {}
            other => {
                dj.insert("@id".into(), data_id(store, &setb, &other)?.into());
            }
        }
        match &setb {
            BuildItem::None => {}
            other => {
                dj.insert("set".into(), set_id(store, other)?.into());
            }
        }
        match d.key().clone() {
            BuildItem::None => {}
            other => {
                dj.insert("key".into(), key_id(store, &setb, &other)?.into());
                dj.insert("value".into(), serde_json::to_value(d.value()).ok()?);
            }
        }
        if matches!(d.key(), BuildItem::None) && !matches!(d.value(), DataValue::Null) {
            // a value without key (one of the injected mistakes) is still written
            dj.insert("value".into(), serde_json::to_value(d.value()).ok()?);
        }
        data.push(serde_json::Value::Object(dj));
    }
    o.insert("data".into(), serde_json::Value::Array(data));
    Some(serde_json::Value::Object(o))
}

fn stamql_string(s: &str) -> Option<String> {
    // keep to strings whose quoting in STAMQL is beyond doubt
    if s.chars().all(|c| c.is_ascii_alphanumeric() || "-_.:/#@!".contains(c)) {
        Some(format!("\"{}\"", s))
    } else {
        None
    }
}

/// the request as an ADD query, for the request shapes STAMQL can express: a single resource / annotation (with or
/// without relative offset) / text target and new data given by set, key and a string, integer or boolean value
fn parts_query(store: &AnnotationStore, parts: &Parts) -> Option<String> {
    let mut q = String::from("ADD ANNOTATION ?new WITH ");
    if let Some(id) = &parts.0 {
        q.push_str(&format!("ID {}; ", stamql_string(id)?));
    }
    for d in &parts.2 {
        if !matches!(d.id(), BuildItem::None) {
            return None;
        }
        let setb = d.dataset().clone();
        let set = set_id(store, &setb)?;
        if set.starts_with('!') {
            return None;
        }
        let key = match d.key() {
            BuildItem::Id(s) => s.clone(),
            _ => return None,
        };
        let value = match d.value() {
            DataValue::String(s) => stamql_string(s)?,
            DataValue::Int(i) => format!("{}", i),
            DataValue::Bool(true) => "true".to_string(),
            DataValue::Bool(false) => "false".to_string(),
            _ => return None,
        };
        q.push_str(&format!("DATA {} {} {}; ", stamql_string(&set)?, stamql_string(&key)?, value));
    }
    let plain = |o: &Offset| -> Option<String> {
        let c = |c: &Cursor| match c {
            Cursor::BeginAligned(v) => format!("{}", v),
            Cursor::EndAligned(0) => "-0".to_string(),
            Cursor::EndAligned(v) => format!("{}", v),
        };
        Some(format!("OFFSET {} {}", c(&o.begin), c(&o.end)))
    };
    match parts.1.as_ref()? {
        SelectorBuilder::ResourceSelector(r) => {
            let rid = res_id(store, r)?;
            if rid.starts_with('!') {
                return None;
            }
            q.push_str(&format!("TARGET ?t; {{ SELECT RESOURCE ?t WHERE ID {}; }}", stamql_string(&rid)?));
        }
        SelectorBuilder::AnnotationSelector(a, o) => {
            let aid = ann_id(store, a)?;
            if aid.starts_with('!') {
                return None;
            }
            match o {
                Some(o) => q.push_str(&format!("TARGET ?t {}; ", plain(o)?)),
                None => q.push_str("TARGET ?t; "),
            }
            q.push_str(&format!("{{ SELECT ANNOTATION ?t WHERE ID {}; }}", stamql_string(&aid)?));
        }
        SelectorBuilder::TextSelector(r, o) => {
            let rid = res_id(store, r)?;
            if rid.starts_with('!') {
                return None;
            }
            q.push_str(&format!("TARGET ?t; {{ SELECT TEXT ?t WHERE RESOURCE {} {}; }}", stamql_string(&rid)?, plain(o)?));
        }
        _ => return None,
    }
    Some(q)
}

fn assemble(id: &Option<String>, target: &Option<SelectorBuilder<'static>>, data: &[AnnotationDataBuilder<'static>]) -> AnnotationBuilder<'static> {
    let mut b = AnnotationBuilder::new();
    if let Some(t) = target {
        b = b.with_target(clone_sel(t));
    }
    if let Some(id) = id {
        b = b.with_id(id.clone());
    }
    for d in data {
        b = b.with_data_builder(d.clone());
    }
    b
}

/// differences between two observations, by category
fn diff(before: &Obs, after: &Obs, dump_equal: bool) -> Vec<(&'static str, String)> {
    let mut v = vec![];
    if before.anns.len() != after.anns.len() {
        v.push(("annotation", format!("{} -> {} annotations", before.anns.len(), after.anns.len())));
    } else if before.anns != after.anns {
        v.push(("annotation-content", "an existing annotation changed".to_string()));
    }
    if before.resources.len() != after.resources.len() {
        v.push(("resource", format!("{} -> {} resources", before.resources.len(), after.resources.len())));
    } else {
        for (b, a) in before.resources.iter().zip(after.resources.iter()) {
            if b.tsels.len() != a.tsels.len() || b.tsels_len != a.tsels_len {
                let new: Vec<(usize, usize)> = a
                    .tsels
                    .iter()
                    .filter(|t| !b.tsels.iter().any(|x| x.begin == t.begin && x.end == t.end))
                    .map(|t| (t.begin, t.end))
                    .collect();
                v.push(("textselection", format!("resource {}: new text selections {:?} (count {} -> {})", a.handle, new, b.tsels_len, a.tsels_len)));
            } else if b != a {
                v.push(("resource-content", format!("resource {} changed", a.handle)));
            }
        }
    }
    if before.sets.len() != after.sets.len() {
        v.push(("dataset", format!("{} -> {} datasets", before.sets.len(), after.sets.len())));
    } else {
        for (b, a) in before.sets.iter().zip(after.sets.iter()) {
            if b.keys.len() != a.keys.len() {
                v.push(("key", format!("set {}: {} -> {} keys", a.handle, b.keys.len(), a.keys.len())));
            }
            if b.data.len() != a.data.len() {
                v.push(("data", format!("set {}: {} -> {} data items", a.handle, b.data.len(), a.data.len())));
            }
            if b.keys.len() == a.keys.len() && b.data.len() == a.data.len() && b != a {
                v.push(("dataset-content", format!("set {} changed", a.handle)));
            }
        }
    }
    if v.is_empty() && before != after {
        v.push(("observation", "observations differ".to_string()));
    }
    if v.is_empty() && !dump_equal {
        v.push(("index", "index / id-map dump differs".to_string()));
    }
    v
}

impl Property for C14 {
    type Case = Case;
    fn id(&self) -> &'static str {
        "C14"
    }
    fn rule(&self) -> String {
        "case = valid C01 history + a valid request (annotate with any selector kind and 0-3 data; or add_resource / add_dataset / insert_data) into which one mistake is injected (unknown resource/annotation/dataset/key/data at any leaf, out-of-range / inverted / before-start offset absolute or relative, invalid datum at any position of the data list, duplicate annotation / resource / dataset id, nested complex selector, missing target), optionally as an element of an annotate_from_iter batch after 0-2 valid ones (and before 0-2 valid ones that must not be applied); the request reaches the store through annotate / annotate_from_iter, through annotate_from_file (the same requests written as a STAM JSON list of annotations; only when every referent has a public id) or, for the shapes STAMQL can express, as an ADD query through query_mut. Oracle: the call returns Err (Ok => case skipped, counted); the complete observation (all lookups of C01, all text selections of every resource, datasets/keys/data) and the raw index/id-map dump equal those of a twin store that replayed the same history (and the valid batch prefix) but never saw the failing request; then the corrected request is applied to both and the observations must again be equal. Non-trivial = the invalid part comes after at least one valid part in build order (invalid datum after a valid target, 2nd leaf invalid, duplicate id with target/data, batch position > 0); distinct = distinct case JSON.".into()
    }
    fn assumptions(&self) -> Vec<String> {
        vec![
            "for batches the documented behaviour is 'stops at the first error': earlier items take effect, the failing one must leave nothing".into(),
            "a request the library accepts (Ok) is not invalid for this check: skipped and counted, never reported".into(),
        ]
    }
    fn cases(&self, tier: Tier) -> u64 {
        tier.pick(1_200_000, 12_000_000)
    }
    fn strategy(&self, tier: Tier) -> BoxedStrategy<Case> {
        let cfg = HistCfg {
            max_ops: tier.pick(10, 25),
            text_max: 12,
            removal_weight: 2,
            protect_weight: 0,
            complex_weight: 2,
            ..HistCfg::default()
        };
        let ann = (
            base_strategy(),
            mistake_strategy(),
            proptest::collection::vec(base_strategy(), 0..=2),
            proptest::collection::vec(base_strategy(), 0..=2),
            proptest::bool::weighted(0.35),
            prop_oneof![6 => Just(0u8), 2 => Just(1u8), 2 => Just(2u8)],
        )
            .prop_map(|(base, mistake, before, after, batch, via)| Request::Annotate {
                base,
                mistake,
                batch_before: if batch { before } else { vec![] },
                batch_after: if batch { after } else { vec![] },
                via,
            });
        let dspec = (proptest::bool::weighted(0.4), 0u8..6, val_strategy(false)).prop_map(|(with_id, key, val)| DSpec { with_id, key, val });
        let other = prop_oneof![
            2 => any::<u16>().prop_map(|pick| Other::DupResource { pick }),
            2 => (any::<u16>(), proptest::collection::vec(dspec, 0..=3)).prop_map(|(pick, data)| Other::DupDataset { pick, data }),
            1 => any::<u16>().prop_map(|set| Other::InsertNoKey { set }),
            1 => any::<u16>().prop_map(|set| Other::InsertUnknownId { set }),
        ]
        .prop_map(Request::Other);
        (history_strategy(cfg), prop_oneof![8 => ann, 2 => other])
            .prop_map(|(hist, req)| Case { hist, req })
            .boxed()
    }

    fn run(&self, case: &Case) -> Outcome {
        let mut out = Outcome::new();
        let mut m = Machine::new(false);
        let mut twin = Machine::new(false);
        for op in &case.hist.ops {
            let s1 = m.apply(op);
            let s2 = twin.apply(op);
            if s1.skipped.is_some() {
                continue;
            }
            if s1.panic.is_some() || s1.result.is_err() || s1.mismatch.is_some() || s2.panic.is_some() || s2.result.is_err() {
                out.label("stopped_at_foreign_divergence");
                return out;
            }
        }
        let before = match catch(|| observe(&m.store)) {
            Ok(o) => o,
            Err(_) => {
                out.label("stopped_at_foreign_divergence");
                return out;
            }
        };
        let before_dump = m.store.verif_dump();
        let before_set_dumps: Vec<_> = m.store.datasets().map(|d| (d.handle().as_usize(), d.as_ref().verif_dump())).collect();
        let class: String;
        let mut whole_file_rejected = false;
        let mut corrected: Option<(AnnotationBuilder<'static>, AnnotationBuilder<'static>)> = None;
        let result: Result<Result<(), String>, PanicInfo>;
        match &case.req {
            Request::Annotate { base, mistake, batch_before, batch_after, via } => {
                // valid batch prefix: applied to the twin directly, to the store through the batch call
                let mut batch: Vec<Parts> = vec![];
                for b in batch_before {
                    let Some((bid, btb, bdbs, next, _)) = m.prepare_annotate_parts(b.with_id, 0, b.by_handle, &b.target, &b.data) else { continue };
                    // the twin gets an identical request
                    let Some((tb, tnext, _)) = twin.prepare_annotate(b.with_id, 0, b.by_handle, &b.target, &b.data) else { continue };
                    m.model = next;
                    twin.model = tnext;
                    match catch(|| twin.store.annotate(tb)) {
                        Ok(Ok(_)) => {}
                        _ => {
                            out.label("stopped_at_foreign_divergence");
                            return out;
                        }
                    }
                    batch.push((bid, Some(btb), bdbs));
                }
                // a base request whose referents do not exist in this history falls back to a plain text selector
                let fallback = SelSpec::Text { res: 0, off: OffSpec { b: 9000, e: 30000, b_end: false, e_end: false } };
                let base_target = if m.resolve_target(&base.target, base.by_handle).is_some() { &base.target } else { &fallback };
                let Some((mut id, tb, mut dbs, _next, _h)) = m.prepare_annotate_parts(base.with_id, 0, base.by_handle, base_target, &base.data) else {
                    out.skip("base request has no referent");
                    return out;
                };
                let Some((tid, ttb, tdbs, _tnext, _)) = twin.prepare_annotate_parts(base.with_id, 0, base.by_handle, base_target, &base.data) else {
                    out.skip("base request has no referent");
                    return out;
                };
                let mtarget = _next.anns.last().unwrap().as_ref().unwrap().target.clone();
                let good_id = id.clone();
                let good_target = Some(clone_sel(&tb));
                let good_data = dbs.clone();
                let mut target = Some(tb);
                let mut mistake = mistake.clone();
                let c = match inject(&m, &mistake, &mut id, &mut target, &mut dbs, &mtarget) {
                    Some(c) => c,
                    None => {
                        // not applicable to this request shape: fall back to an invalid datum, which always applies
                        mistake = Mistake::BadDatum { pos: dbs.len() as u8, kind: 0 };
                        if target.is_none() {
                            target = Some(clone_sel(good_target.as_ref().unwrap()));
                        }
                        match inject(&m, &mistake, &mut id, &mut target, &mut dbs, &mtarget) {
                            Some(c) => c,
                            None => {
                                out.skip("mistake not applicable to this request");
                                return out;
                            }
                        }
                    }
                };
                let mistake = &mistake;
                class = c;
                // non-triviality: something valid precedes the invalid part
                let nleaves = mtarget.leaves().len();
                out.nontrivial = match mistake {
                    Mistake::UnknownReferent { leaf } => (*leaf as usize % nleaves) > 0,
                    Mistake::BadOffset { .. } => class.contains("|later|"),
                    Mistake::BadDatum { .. } => true,
                    Mistake::DuplicateId { .. } => true,
                    Mistake::Nested { .. } => class.contains("|later"),
                    Mistake::NoTarget => false,
                } || !batch.is_empty();
                let bad: Parts = (id.clone(), target.as_ref().map(clone_sel), dbs.clone());
                let n_before = batch.len();
                // valid requests placed after the failing one (built against the current model; never applied to the twin)
                let mut after: Vec<Parts> = vec![];
                for b in batch_after {
                    if let Some((aid, atb, adbs, _next, _)) = m.prepare_annotate_parts(b.with_id, 0, b.by_handle, &b.target, &b.data) {
                        after.push((aid, Some(atb), adbs));
                    }
                }
                let is_batch = !(batch.is_empty() && after.is_empty());
                if !after.is_empty() {
                    out.label("batch_with_tail");
                    out.nontrivial = true;
                }
                let mut all: Vec<Parts> = batch;
                all.push(bad);
                all.extend(after);
                // the route the request takes into the store
                let doc: Option<String> = if *via == 1 {
                    all.iter().map(|p| parts_json(&m.store, p)).collect::<Option<Vec<_>>>().map(|v| serde_json::Value::Array(v).to_string())
                } else {
                    None
                };
                let querytext: Option<String> = if *via == 2 && !is_batch { parts_query(&m.store, &all[0]) } else { None };
                if let Some(doc) = doc {
                    out.label("via.annotate_from_file");
                    if all.iter().any(|p| p.1.is_none()) {
                        // an element the reader cannot deserialise: the file is rejected as a whole, before anything is
                        // applied - also the valid elements in front of it
                        out.label("file_not_deserialisable");
                        whole_file_rejected = true;
                    }
                    out.label(if is_batch { "batch" } else { "single" });
                    let dir = crate::props::c05::TempDir::new("c14");
                    let path = dir.path("annotations.json");
                    if std::fs::write(&path, doc).is_err() {
                        out.skip("scratch file could not be written");
                        return out;
                    }
                    result = catch(|| m.store.annotate_from_file(&path).map(|_| ()).map_err(|e| format!("{}", e)));
                } else if let Some(qs) = querytext {
                    out.label("via.query_mut");
                    let store = &mut m.store;
                    result = catch(move || {
                        let (q, _) = Query::parse(&qs).map_err(|e| format!("{}", e))?;
                        // an ADD whose sub-query selects nothing adds nothing and returns Ok: no failed mutation (skipped below)
                        let _rows = store.query_mut(q).map_err(|e| format!("{}", e))?.count();
                        Ok(())
                    });
                } else if !is_batch {
                    out.label("direct");
                    let (i, t, d) = &all[0];
                    let b = assemble(i, t, d);
                    result = catch(|| m.store.annotate(b).map(|_| ()).map_err(|e| format!("{}", e)));
                } else {
                    out.label("batch");
                    let builders: Vec<AnnotationBuilder<'static>> = all.iter().map(|(i, t, d)| assemble(i, t, d)).collect();
                    result = catch(|| m.store.annotate_from_iter(builders).map(|_| ()).map_err(|e| format!("{}", e)));
                }
                let _ = n_before;
                corrected = Some((assemble(&good_id, &good_target, &good_data), assemble(&tid, &Some(ttb), &tdbs)));
            }
            Request::Other(o) => match o {
                Other::DupResource { pick: p } => {
                    let live = m.model.live_resources();
                    if live.is_empty() {
                        out.skip("no resource");
                        return out;
                    }
                    let r = live[pick(*p, live.len())];
                    let id = m.model.res(r).id.clone();
                    let mut text: String = m.model.res(r).text.iter().collect();
                    text.push_str("#different");
                    class = "duplicate-resource-id".into();
                    result = catch(|| {
                        m.store
                            .add_resource(TextResourceBuilder::new().with_id(id).with_text(text))
                            .map(|_| ())
                            .map_err(|e| format!("{}", e))
                    });
                }
                Other::DupDataset { pick: p, data } => {
                    let live = m.model.live_sets();
                    if live.is_empty() {
                        out.skip("no dataset");
                        return out;
                    }
                    let s = live[pick(*p, live.len())];
                    let id = m.model.set(s).id.clone();
                    let mut b = AnnotationDataSetBuilder::new().with_id(id);
                    for (i, d) in data.iter().enumerate() {
                        let mut db = AnnotationDataBuilder::new()
                            .with_key(BuildItem::Id(m.keyname(d.key).to_string()))
                            .with_value(d.val.to_stam());
                        if d.with_id {
                            db = db.with_id(BuildItem::Id(format!("dupset-data-{}", i)));
                        }
                        b = b.with_data(db);
                    }
                    class = format!("duplicate-dataset-id|{}data", data.len().min(2));
                    out.nontrivial = !data.is_empty();
                    result = catch(|| m.store.add_dataset(b).map(|_| ()).map_err(|e| format!("{}", e)));
                }
                Other::InsertNoKey { set } | Other::InsertUnknownId { set } => {
                    let live = m.model.live_sets();
                    if live.is_empty() {
                        out.skip("no dataset");
                        return out;
                    }
                    let s = live[pick(*set, live.len())];
                    let mut db = AnnotationDataBuilder::new()
                        .with_dataset(BuildItem::Handle(AnnotationDataSetHandle::new(s)))
                        .with_value(DataValue::Int(7));
                    if matches!(o, Other::InsertUnknownId { .. }) {
                        db = db.with_id(BuildItem::Id(NOPE.into()));
                        class = "insert_data|unknown-id-no-key".into();
                    } else {
                        class = "insert_data|no-key".into();
                    }
                    result = catch(|| m.store.insert_data(db).map(|_| ()).map_err(|e| format!("{}", e)));
                }
            },
        }
        let cls0 = class.split('|').next().unwrap_or("").to_string();
        out.label(&cls0);
        match result {
            Err(p) => {
                out.fail("panic", format!("{}|{}", cls0, p.signature()), format!("request of class {} panicked at {}:{}: {}", class, p.file, p.line, p.msg));
                return out;
            }
            Ok(Ok(())) => {
                out.skip("request was accepted");
                out.label(&format!("accepted:{}", cls0));
                out.nontrivial = false;
                return out;
            }
            Ok(Err(_)) => {}
        }
        // ---- after the failure: must equal the twin
        let after = match catch(|| observe(&m.store)) {
            Ok(o) => o,
            Err(p) => {
                out.fail("panic", format!("observe-after|{}|{}", cls0, p.signature()), format!("traversing the store after the failed request panicked: {}", p.msg));
                return out;
            }
        };
        let reference = if whole_file_rejected {
            corrected = None;
            before.clone()
        } else if matches!(&case.req, Request::Annotate { batch_before, batch_after, .. } if !batch_before.is_empty() || !batch_after.is_empty()) {
            match catch(|| observe(&twin.store)) {
                Ok(o) => o,
                Err(_) => {
                    out.label("stopped_at_foreign_divergence");
                    return out;
                }
            }
        } else {
            before.clone()
        };
        let dump_equal = if whole_file_rejected {
            let now: Vec<_> = m.store.datasets().map(|d| (d.handle().as_usize(), d.as_ref().verif_dump())).collect();
            m.store.verif_dump() == before_dump && now == before_set_dumps
        } else {
            let a = m.store.verif_dump();
            let b = twin.store.verif_dump();
            let mut eq = a == b;
            // dataset-level id maps and key->data maps
            for s in &after.sets {
                let x = m.store.dataset(AnnotationDataSetHandle::new(s.handle)).map(|d| d.as_ref().verif_dump());
                let y = twin.store.dataset(AnnotationDataSetHandle::new(s.handle)).map(|d| d.as_ref().verif_dump());
                if x != y {
                    eq = false;
                }
            }
            eq
        };
        out.checks += 1;
        let diffs = diff(&reference, &after, dump_equal);
        for (cat, detail) in &diffs {
            out.fail("unchanged", format!("leak|{}|{}", cat, class), format!("after the failed request ({}): {}", class, detail));
        }
        if !diffs.is_empty() {
            return out;
        }
        // ---- corrected request
        if let Some((good, tgood)) = corrected {
            let r1 = catch(|| m.store.annotate(good).map(|h| h.as_usize()).map_err(|e| format!("{}", e)));
            let r2 = catch(|| twin.store.annotate(tgood).map(|h| h.as_usize()).map_err(|e| format!("{}", e)));
            out.checks += 1;
            match (r1, r2) {
                (Ok(Ok(h1)), Ok(Ok(h2))) => {
                    if h1 != h2 {
                        out.fail("corrected", format!("handle|{}", class), format!("corrected request got handle {} but {} on a store that never saw the failed attempt", h1, h2));
                    }
                    let o1 = catch(|| observe(&m.store));
                    let o2 = catch(|| observe(&twin.store));
                    if let (Ok(o1), Ok(o2)) = (o1, o2) {
                        if o1 != o2 {
                            let d = diff(&o2, &o1, true);
                            out.fail("corrected", format!("differs|{}", class), format!("after the corrected request the store differs from one that never saw the failed attempt: {:?}", d));
                        }
                    }
                }
                (Ok(Err(e)), Ok(Ok(_))) => out.fail("corrected", format!("fails|{}", class), format!("corrected request fails after the failed attempt ({}), but succeeds on a fresh twin", e)),
                (Err(p), _) => out.fail("panic", format!("corrected|{}", p.signature()), format!("corrected request panicked: {}", p.msg)),
                _ => {
                    out.label("corrected_request_invalid_too");
                }
            }
        }
        out
    }
}
