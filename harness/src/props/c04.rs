//! C04 Offsets resolve to exactly the addressed codepoints, or are rejected.
//!
//! A case is a text plus a chain of 1-4 offsets ("links"); the first is applied to the resource, each
//! next one relative to the text of the last accepted annotation. The oracle is integer arithmetic on
//! `Vec<char>`: resolve both cursors against the parent's length, accept iff `0 <= b <= e <= len`.
//! Shared pieces (`Link`, `Cur`, the text alphabet, the oracle helpers) are also used by C12.

use crate::engine::*;
use proptest::prelude::*;
use serde::{Deserialize, Serialize};
use stam::*;
use std::collections::BTreeMap;
use std::sync::atomic::{AtomicU64, Ordering};

pub struct C04;

// ------------------------------------------------------------------------------------------------
// generators shared with C12

/// 1-, 2-, 3- and 4-byte codepoints
pub const ALPHABET: [char; 14] = ['a', 'b', 'c', ' ', 'x', 'é', 'ß', 'ñ', '€', '語', 'ア', '😀', '𝄞', '\u{301}'];

pub fn char_strategy() -> BoxedStrategy<char> {
    prop_oneof![
        5 => (0usize..5).prop_map(|i| ALPHABET[i]),
        3 => (5usize..8).prop_map(|i| ALPHABET[i]),
        3 => (8usize..11).prop_map(|i| ALPHABET[i]),
        3 => (11usize..13).prop_map(|i| ALPHABET[i]),
        1 => Just(ALPHABET[13]),
    ]
    .boxed()
}

/// texts of 0..=max codepoints; empty, very short and pure-ASCII texts are boosted a little
pub fn text_strategy(max: usize) -> BoxedStrategy<String> {
    prop_oneof![
        1 => Just(String::new()),
        3 => proptest::collection::vec(char_strategy(), 1..=3).prop_map(|v| v.into_iter().collect::<String>()),
        2 => proptest::collection::vec((0usize..5).prop_map(|i| ALPHABET[i]), 0..=max).prop_map(|v| v.into_iter().collect::<String>()),
        18 => proptest::collection::vec(char_strategy(), 0..=max).prop_map(|v| v.into_iter().collect::<String>()),
    ]
    .boxed()
}

/// One cursor of a link, expressed relative to the (not yet known) length of the parent text:
/// position `p = pick(idx, len+1)` if `out == 0`, `len + out` if `out > 0`, `out` (negative: before the
/// beginning) if `out < 0`; `ea` asks for an end-aligned cursor (value `p - len`). A position before the
/// beginning can only be written end-aligned and a position beyond the end only begin-aligned (end-aligned
/// cursors are documented as "0 or lower"), so `ea` is overridden in those two cases.
#[derive(Clone, Debug, Serialize, Deserialize, PartialEq)]
pub struct Pos {
    pub idx: u16,
    pub out: i8,
    pub ea: bool,
}

#[derive(Clone, Debug, Serialize, Deserialize, PartialEq)]
pub struct Link {
    pub begin: Pos,
    pub end: Pos,
    /// swap the two positions when begin would lie after end (valid-by-construction unless `out != 0`)
    pub sorted: bool,
    /// zero-width: end position = begin position
    pub zw: bool,
}

pub fn pos_strategy() -> impl Strategy<Value = Pos> {
    (
        prop_oneof![6 => any::<u16>(), 1 => Just(0u16), 1 => Just(u16::MAX)],
        prop_oneof![60 => Just(0i8), 2 => Just(1i8), 2 => Just(2i8), 2 => Just(3i8), 2 => Just(-1i8), 2 => Just(-3i8), 1 => Just(100i8), 1 => Just(101i8), 1 => Just(102i8), 1 => Just(103i8), 1 => Just(-100i8), 1 => Just(-101i8)],
        any::<bool>(),
    )
        .prop_map(|(idx, out, ea)| Pos { idx, out, ea })
}

pub fn link_strategy() -> impl Strategy<Value = Link> {
    (pos_strategy(), pos_strategy(), prop_oneof![9 => Just(true), 1 => Just(false)], prop_oneof![7 => Just(false), 1 => Just(true)]).prop_map(|(begin, end, sorted, zw)| Link {
        begin,
        end,
        sorted,
        zw,
    })
}

// ------------------------------------------------------------------------------------------------
// oracle: plain integers

/// a cursor as the oracle sees it
#[derive(Clone, Copy, Debug, PartialEq, Eq)]
pub enum Cur {
    B(usize),
    E(i64),
}

impl Cur {
    /// position denoted in a text of `len` codepoints (may be negative or beyond len)
    pub fn pos(&self, len: usize) -> i128 {
        match self {
            Cur::B(x) => *x as i128,
            Cur::E(x) => len as i128 + *x as i128,
        }
    }
    pub fn to_stam(&self) -> Cursor {
        match self {
            Cur::B(x) => Cursor::BeginAligned(*x),
            Cur::E(x) => Cursor::EndAligned(*x as isize),
        }
    }
    pub fn from_stam(c: &Cursor) -> Cur {
        match c {
            Cursor::BeginAligned(x) => Cur::B(*x),
            Cursor::EndAligned(x) => Cur::E(*x as i64),
        }
    }
    pub fn wellformed(&self) -> bool {
        match self {
            Cur::B(_) => true,
            Cur::E(x) => *x <= 0,
        }
    }
    pub fn is_end(&self) -> bool {
        matches!(self, Cur::E(_))
    }
}

pub fn mode_name(b: &Cur, e: &Cur) -> &'static str {
    match (b.is_end(), e.is_end()) {
        (false, false) => "BB",
        (false, true) => "BE",
        (true, false) => "EB",
        (true, true) => "EE",
    }
}

pub const MODES: [(OffsetMode, &str); 4] = [
    (OffsetMode::BeginBegin, "BB"),
    (OffsetMode::BeginEnd, "BE"),
    (OffsetMode::EndBegin, "EB"),
    (OffsetMode::EndEnd, "EE"),
];

/// extreme cursor values (`out` = +-100 ..): near the limits of the integer types, where offset arithmetic overflows
fn extreme(p: &Pos) -> Option<Cur> {
    let k = (p.idx % 4) as usize;
    match p.out {
        100 => Some(Cur::B(usize::MAX - k)),
        101 => Some(Cur::B((isize::MAX as usize) - k)),
        102 => Some(Cur::B((isize::MAX as usize) + 1 + k)),
        103 => Some(Cur::B((u32::MAX as usize) + k)),
        -100 => Some(Cur::E(i64::MIN + k as i64)),
        -101 => Some(Cur::E(-(u32::MAX as i64) - k as i64)),
        _ => None,
    }
}

fn conceptual(p: &Pos, len: usize) -> i64 {
    if p.out == 0 {
        pick(p.idx, len + 1) as i64
    } else if p.out > 0 {
        len as i64 + p.out as i64
    } else {
        p.out as i64
    }
}

fn make_cur(p: i64, ea: bool, len: usize) -> Cur {
    let ea = if p < 0 {
        true
    } else if p > len as i64 {
        false
    } else {
        ea
    };
    if ea {
        Cur::E(p - len as i64)
    } else {
        Cur::B(p as usize)
    }
}

/// concrete cursors of a link against a parent text of `len` codepoints
pub fn resolve_link(link: &Link, len: usize) -> (Cur, Cur) {
    let mut pb = conceptual(&link.begin, len);
    let mut pe = conceptual(&link.end, len);
    if link.zw {
        pe = pb;
    } else if link.sorted && pb > pe {
        std::mem::swap(&mut pb, &mut pe);
    }
    let cb = extreme(&link.begin).unwrap_or_else(|| make_cur(pb, link.begin.ea, len));
    let ce = if link.zw && extreme(&link.begin).is_some() { cb } else { extreme(&link.end).unwrap_or_else(|| make_cur(pe, link.end.ea, len)) };
    (cb, ce)
}

/// the range (relative to the parent) an offset denotes, if it is one: 0 <= b <= e <= len
pub fn oracle_range(b: &Cur, e: &Cur, len: usize) -> Option<(usize, usize)> {
    let (pb, pe) = (b.pos(len), e.pos(len));
    if 0 <= pb && pb <= pe && pe <= len as i128 {
        Some((pb as usize, pe as usize))
    } else {
        None
    }
}

/// why an offset is not a range (first applicable class)
pub fn invalid_class(b: &Cur, e: &Cur, len: usize) -> &'static str {
    let (pb, pe) = (b.pos(len), e.pos(len));
    if pb < 0 || pe < 0 {
        "before-begin"
    } else if pb > len as i128 && pe > len as i128 {
        "both-beyond-end"
    } else if pb > len as i128 {
        "begin-beyond-end"
    } else if pe > len as i128 {
        "end-beyond-end"
    } else {
        "inverted"
    }
}

pub fn valid_shape(r: (usize, usize), len: usize) -> &'static str {
    if len == 0 {
        "empty-parent"
    } else if r == (0, len) {
        "whole"
    } else if r.0 == r.1 {
        if r.0 == 0 {
            "zero-width-at-begin"
        } else if r.0 == len {
            "zero-width-at-end"
        } else {
            "zero-width-inside"
        }
    } else {
        "proper"
    }
}

/// the offset expressing the relative range `r` within a parent of `len` codepoints in the given mode
pub fn offset_in_mode(r: (usize, usize), len: usize, mode: &str) -> (Cur, Cur) {
    let b = if mode.as_bytes()[0] == b'B' { Cur::B(r.0) } else { Cur::E(r.0 as i64 - len as i64) };
    let e = if mode.as_bytes()[1] == b'B' { Cur::B(r.1) } else { Cur::E(r.1 as i64 - len as i64) };
    (b, e)
}

pub fn stam_offset(b: &Cur, e: &Cur) -> Offset {
    Offset::new(b.to_stam(), e.to_stam())
}

pub fn slice(text: &[char], r: (usize, usize)) -> String {
    text[r.0..r.1].iter().collect()
}

pub fn err_name(e: &StamError) -> String {
    // variant name only (the payload carries values)
    let s = format!("{:?}", e);
    s.split(|c: char| !c.is_alphanumeric()).next().unwrap_or("").to_string()
}

// ------------------------------------------------------------------------------------------------

#[derive(Clone, Debug, Serialize, Deserialize)]
pub struct Case {
    pub text: String,
    pub links: Vec<Link>,
    /// also write the store as STAM CSV (file I/O) and check the offsets found there
    pub csv: bool,
}

static CSV_COUNTER: AtomicU64 = AtomicU64::new(0);

fn scratch_dir() -> std::path::PathBuf {
    let base = std::env::var("VERIF_TMP")
        .map(std::path::PathBuf::from)
        .unwrap_or_else(|_| std::env::temp_dir().join(format!("stamverif-{}", std::process::id())));
    let n = CSV_COUNTER.fetch_add(1, Ordering::Relaxed);
    base.join(format!("c04-{}", n))
}

/// what the oracle knows about one accepted link
struct Accepted {
    id: String,
    handle: AnnotationHandle,
    /// absolute range of the parent text
    parent: (usize, usize),
    /// absolute range
    abs: (usize, usize),
    /// the offset as given
    given: (Cur, Cur),
    on_resource: bool,
}

/// Check that an offset reported by the library is well-formed and denotes `rel` within a parent of `plen`.
fn check_reported(out: &mut Outcome, entry: &str, target: &str, o: &Offset, want_mode: Option<&str>, rel: (usize, usize), plen: usize, context: &str) {
    let (b, e) = (Cur::from_stam(&o.begin), Cur::from_stam(&o.end));
    let m = mode_name(&b, &e);
    out.checks += 2;
    if !b.wellformed() || !e.wellformed() {
        out.fail(
            "report.wellformed",
            format!("{}|{}|{}", entry, target, m),
            format!("{}: {} reported {:?}: an end-aligned cursor is positive", context, entry, o),
        );
    }
    if let Some(w) = want_mode {
        out.checks += 1;
        if w != m {
            out.fail("report.mode", format!("{}|{}|{}", entry, target, w), format!("{}: {} was asked for mode {} but reported {:?}", context, entry, w, o));
        }
    }
    // the printed form of a reported cursor (what STAM CSV and the offset notation of STAMQL carry) reads back as
    // the same cursor
    for c in [&o.begin, &o.end] {
        out.checks += 1;
        let printed = c.to_string();
        let back: Option<Result<Cursor, String>> = catch(|| Cursor::try_from(printed.as_str()).map_err(|e| err_name(&e))).ok();
        if back != Some(Ok(*c)) {
            out.fail(
                "report.string",
                format!("{}|{}", if matches!(c, Cursor::EndAligned(_)) { "end-aligned" } else { "begin-aligned" }, if printed == "-0" || printed == "0" { "zero" } else { "nonzero" }),
                format!("{}: {} reported the cursor {:?}; it is printed as {:?}, which reads back as {:?}", context, entry, c, printed, back),
            );
        }
    }
    let got = oracle_range(&b, &e, plen);
    if got != Some(rel) {
        out.fail(
            &format!("report.resolve.{}", want_mode.unwrap_or(m)),
            format!("{}|{}", entry, target),
            format!("{}: {} reported {:?} which denotes {:?} in a parent of {} codepoints, expected {:?}", context, entry, o, got, plen, rel),
        );
    }
}

fn parse_json_cursor(v: &serde_json::Value) -> Option<Cur> {
    let t = v.get("@type")?.as_str()?;
    let val = v.get("value")?.as_i64()?;
    match t {
        "BeginAlignedCursor" if val >= 0 => Some(Cur::B(val as usize)),
        "EndAlignedCursor" => Some(Cur::E(val)),
        _ => None,
    }
}

/// split one CSV record (no embedded newlines in our data) honouring double quotes
fn split_csv_line(line: &str) -> Vec<String> {
    let mut out = vec![];
    let mut cur = String::new();
    let mut inq = false;
    let mut chars = line.chars().peekable();
    while let Some(c) = chars.next() {
        if inq {
            if c == '"' {
                if chars.peek() == Some(&'"') {
                    cur.push('"');
                    chars.next();
                } else {
                    inq = false;
                }
            } else {
                cur.push(c);
            }
        } else if c == '"' {
            inq = true;
        } else if c == ',' {
            out.push(std::mem::take(&mut cur));
        } else {
            cur.push(c);
        }
    }
    out.push(cur);
    out
}

fn parse_csv_cursor(s: &str) -> Option<Cur> {
    // STAM CSV: a leading '-' (including "-0") marks an end-aligned cursor
    if let Some(rest) = s.strip_prefix('-') {
        rest.parse::<i64>().ok().map(|v| Cur::E(-v))
    } else {
        s.parse::<usize>().ok().map(Cur::B)
    }
}

impl Property for C04 {
    type Case = Case;
    fn id(&self) -> &'static str {
        "C04"
    }
    fn rule(&self) -> String {
        "case = text of 0-40 codepoints over 1-4 byte characters + a chain of 1-4 links; link 1 is a TextSelector offset on the resource, every next link an AnnotationSelector offset relative to the last accepted annotation. Each cursor is begin- or end-aligned and placed at a position drawn from [-3, len+3] of its parent text (out-of-range ~14% per cursor, unsorted pairs 10%, zero-width 12%, positions 0 and len boosted). Oracle: 0<=b<=e<=len decides accept/reject for annotate, FindText::textselection, Text::text_by_offset and the low-level textselection_by_offset routines; accepted annotations must have exactly the addressed characters; every reported offset (Selector::offset, offset_with_mode x4, TextSelection::relative_offset x4, JSON, CSV) must be well-formed, denote the same absolute range and read back from its printed form (Cursor::try_from(cursor.to_string())) as the same cursor; at every link after the first the same cursor pair is also resolved against the resource itself (text_by_offset, textselection), whose position index is populated by then. Non-trivial = non-ASCII text and (an end-aligned cursor or an accepted link at depth >= 2 or a rejected offset); distinct = distinct case JSON.".into()
    }
    fn assumptions(&self) -> Vec<String> {
        vec![
            "positive end-aligned cursors are never given as input (Cursor::EndAligned is documented as 'a value of 0 or lower'); behaviour for them is don't care".into(),
            "a rejected request is only required to return Err and to add no annotation and no malformed text selection; leftovers of a failed annotate (data, keys, valid selections) are C14's subject".into(),
            "offsets are looked up in the CSV output only for the 10% of cases that write files".into(),
        ]
    }
    fn cases(&self, tier: Tier) -> u64 {
        tier.pick(600_000, 8_000_000)
    }
    fn strategy(&self, _tier: Tier) -> BoxedStrategy<Case> {
        (text_strategy(40), proptest::collection::vec(link_strategy(), 1..=4), prop_oneof![9 => Just(false), 1 => Just(true)])
            .prop_map(|(text, links, csv)| Case { text, links, csv })
            .boxed()
    }
    fn enumerate(&self, _tier: Tier) -> Vec<Case> {
        // every cursor pair over positions [-1, len+1] x alignments on tiny texts, at depth 1 and (under a
        // fixed valid parent) depth 2
        let mut v = vec![];
        for text in ["", "é", "a😀", "語ßx"] {
            let n = text.chars().count();
            let positions: Vec<(u16, i8)> = (0..=n)
                .map(|p| ((((p as u32) << 16) / (n as u32 + 1) + if p > 0 { 1 } else { 0 }).min(65535) as u16, 0i8))
                .chain([(0u16, -1i8), (0u16, 1i8)])
                .collect();
            for (bi, bo) in &positions {
                for (ei, eo) in &positions {
                    for bea in [false, true] {
                        for eea in [false, true] {
                            let l = Link {
                                begin: Pos { idx: *bi, out: *bo, ea: bea },
                                end: Pos { idx: *ei, out: *eo, ea: eea },
                                sorted: false,
                                zw: false,
                            };
                            v.push(Case {
                                text: text.to_string(),
                                links: vec![l.clone()],
                                csv: false,
                            });
                            if n >= 2 {
                                // parent = text[1..n]
                                let parent = Link {
                                    begin: Pos {
                                        idx: positions[1].0,
                                        out: 0,
                                        ea: false,
                                    },
                                    end: Pos { idx: u16::MAX, out: 0, ea: true },
                                    sorted: true,
                                    zw: false,
                                };
                                v.push(Case {
                                    text: text.to_string(),
                                    links: vec![parent, l],
                                    csv: false,
                                });
                            }
                        }
                    }
                }
            }
        }
        v
    }
    fn exhaustive_note(&self, _tier: Tier) -> Option<String> {
        None
    }
    fn health(&self, labels: &BTreeMap<String, u64>, evals: u64) -> Vec<String> {
        let mut v = vec![];
        if evals < 5000 {
            return v;
        }
        let frac = |l: &str| labels.get(l).copied().unwrap_or(0) as f64 / evals as f64;
        for (l, min) in [
            ("multibyte", 0.5),
            ("end-aligned", 0.5),
            ("depth>=2", 0.3),
            ("depth>=3", 0.1),
            ("rejected", 0.25),
            ("rejected.depth>=2", 0.08),
            ("zero-width-at-begin", 0.03),
            ("zero-width-at-end", 0.03),
            ("empty-text", 0.01),
            ("class.inverted", 0.03),
            ("class.end-beyond-end", 0.03),
            ("class.before-begin", 0.03),
        ] {
            if frac(l) < min {
                v.push(format!("label {} occurs in {:.2}% of cases, expected >= {:.0}%", l, frac(l) * 100.0, min * 100.0));
            }
        }
        v
    }

    fn run(&self, case: &Case) -> Outcome {
        let mut out = Outcome::new();
        if case.links.is_empty() || case.links.len() > 8 {
            out.skip("invalid case");
            return out;
        }
        let text: Vec<char> = case.text.chars().collect();
        let n = text.len();
        let multibyte = case.text.len() != n;
        if multibyte {
            out.label("multibyte");
        }
        if n == 0 {
            out.label("empty-text");
        }
        let mut store = AnnotationStore::default();
        store
            .add_resource(TextResourceBuilder::new().with_id("r").with_text(case.text.clone()))
            .expect("add_resource");

        let mut accepted: Vec<Accepted> = vec![];
        let mut any_end_aligned = false;
        let mut any_rejected = false;

        for (i, link) in case.links.iter().enumerate() {
            let (parent, parent_handle) = match accepted.last() {
                Some(a) => (a.abs, Some(a.handle)),
                None => ((0, n), None),
            };
            let plen = parent.1 - parent.0;
            let (cb, ce) = resolve_link(link, plen);
            let offset = stam_offset(&cb, &ce);
            let mode = mode_name(&cb, &ce);
            let target = if parent_handle.is_some() { "annotation" } else { "resource" };
            let expected = oracle_range(&cb, &ce, plen);
            let depth = accepted.len() + 1;
            if cb.is_end() || ce.is_end() {
                any_end_aligned = true;
                out.label("end-aligned");
            }
            out.label(&format!("mode.{}", mode));
            let context = format!("text={:?} link#{} depth={} parent={:?} offset=({:?},{:?})", case.text, i, depth, parent, cb, ce);
            let class = match expected {
                Some(r) => valid_shape(r, plen),
                None => invalid_class(&cb, &ce, plen),
            };
            match expected {
                Some(_) => {
                    out.label(class);
                }
                None => {
                    any_rejected = true;
                    out.label("rejected");
                    out.label(&format!("class.{}", class));
                    if depth >= 2 {
                        out.label("rejected.depth>=2");
                    }
                }
            }

            // ---- read-only entry points, before the annotation exists -----------------------------
            {
                let store = &store;
                let resource = store.resource("r").expect("resource");
                // the parent as a selection
                let parent_sel: Option<ResultTextSelection> = match parent_handle {
                    Some(h) => store.annotation(h).and_then(|a| a.textselections().next()),
                    None => None,
                };
                let want_text = expected.map(|r| slice(&text, (parent.0 + r.0, parent.0 + r.1)));
                let want_abs = expected.map(|r| (parent.0 + r.0, parent.0 + r.1));
                // (entry, result as (begin,end,text) or error)
                let mut probes: Vec<(&'static str, Result<Result<(usize, usize, String), String>, PanicInfo>)> = vec![];
                if let Some(ps) = &parent_sel {
                    probes.push((
                        "findtext.selection",
                        catch(|| {
                            ps.textselection(&offset)
                                .map(|t| (t.begin(), t.end(), t.text().to_string()))
                                .map_err(|e| err_name(&e))
                        }),
                    ));
                    probes.push((
                        "lowlevel.selection",
                        catch(|| {
                            ps.inner()
                                .textselection_by_offset(&offset)
                                .map(|t| (t.begin(), t.end(), String::new()))
                                .map_err(|e| err_name(&e))
                        }),
                    ));
                    // the second implementation of FindText for selections
                    if let ResultTextSelection::Bound(item) = ps {
                        probes.push((
                            "findtext.item",
                            catch(|| {
                                item.textselection(&offset)
                                    .map(|t| (t.begin(), t.end(), t.text().to_string()))
                                    .map_err(|e| err_name(&e))
                            }),
                        ));
                    }
                } else {
                    probes.push((
                        "findtext.resource",
                        catch(|| {
                            resource
                                .textselection(&offset)
                                .map(|t| (t.begin(), t.end(), t.text().to_string()))
                                .map_err(|e| err_name(&e))
                        }),
                    ));
                    probes.push((
                        "lowlevel.resource",
                        catch(|| {
                            resource
                                .as_ref()
                                .textselection_by_offset(&offset)
                                .map(|t| (t.begin(), t.end(), String::new()))
                                .map_err(|e| err_name(&e))
                        }),
                    ));
                }
                for (entry, res) in probes {
                    out.checks += 1;
                    match res {
                        Err(p) => out.fail("panic", format!("{}|{}", entry, p.signature()), format!("{}: {} panicked at {}:{}: {}", context, entry, p.file, p.line, p.msg)),
                        Ok(Ok((b, e, t))) => match want_abs {
                            None => out.fail(
                                "reject",
                                format!("{}|{}|{}", entry, mode, class),
                                format!("{}: {} accepted an offset that is not a range ({}) and returned [{},{})", context, entry, class, b, e),
                            ),
                            Some(abs) => {
                                if (b, e) != abs {
                                    out.fail("text", format!("{}|range", entry), format!("{}: {} returned [{},{}) expected {:?}", context, entry, b, e, abs));
                                } else if !entry.starts_with("lowlevel") && Some(&t) != want_text.as_ref() {
                                    out.fail("text", format!("{}|text", entry), format!("{}: {} returned text {:?} expected {:?}", context, entry, t, want_text));
                                }
                            }
                        },
                        Ok(Err(err)) => {
                            if want_abs.is_some() {
                                out.fail("accept", format!("{}|{}|{}", entry, mode, class), format!("{}: {} refused a valid offset ({}) with {}", context, entry, class, err));
                            }
                        }
                    }
                }
                // text_by_offset
                let mut tbos: Vec<(&'static str, Result<Result<String, String>, PanicInfo>)> = vec![];
                match &parent_sel {
                    Some(ps) => {
                        tbos.push(("text_by_offset.selection", catch(|| ps.text_by_offset(&offset).map(|s| s.to_string()).map_err(|e| err_name(&e)))));
                        if let ResultTextSelection::Bound(item) = ps {
                            tbos.push(("text_by_offset.item", catch(|| item.text_by_offset(&offset).map(|s| s.to_string()).map_err(|e| err_name(&e)))));
                        }
                    }
                    None => tbos.push(("text_by_offset.resource", catch(|| resource.text_by_offset(&offset).map(|s| s.to_string()).map_err(|e| err_name(&e))))),
                }
                for tbo in tbos {
                    out.checks += 1;
                    match tbo.1 {
                        Err(p) => out.fail("panic", format!("{}|{}", tbo.0, p.signature()), format!("{}: {} panicked at {}:{}: {}", context, tbo.0, p.file, p.line, p.msg)),
                        Ok(Ok(t)) => match &want_text {
                            None => out.fail(
                                "reject",
                                format!("{}|{}|{}", tbo.0, mode, class),
                                format!("{}: {} accepted an offset that is not a range ({}) and returned {:?}", context, tbo.0, class, t),
                            ),
                            Some(w) => {
                                if &t != w {
                                    out.fail("text", format!("{}|text", tbo.0), format!("{}: {} returned {:?} expected {:?}", context, tbo.0, t, w));
                                }
                            }
                        },
                        Ok(Err(err)) => {
                            if want_text.is_some() {
                                out.fail("accept", format!("{}|{}|{}", tbo.0, mode, class), format!("{}: {} refused a valid offset ({}) with {}", context, tbo.0, class, err));
                            }
                        }
                    }
                }
            }

            // ---- the same cursors against the resource, now that the store holds annotations -------------
            // (the resource's position index is empty while the first link is probed above: code that consults
            // it - utf8byte, the text selection lookup - takes other branches once earlier links were accepted)
            if parent_handle.is_some() {
                out.label("resource.populated");
                let store = &store;
                let resource = store.resource("r").expect("resource");
                let (rb, re) = resolve_link(link, n);
                let roffset = stam_offset(&rb, &re);
                let rmode = mode_name(&rb, &re);
                let rexpected = oracle_range(&rb, &re, n);
                let rclass = match rexpected {
                    Some(r) => valid_shape(r, n),
                    None => invalid_class(&rb, &re, n),
                };
                if rexpected.is_none() {
                    out.label("resource.populated.rejected");
                }
                let rcontext = format!("text={:?} link#{} after {} accepted annotations, offset on the resource=({:?},{:?})", case.text, i, accepted.len(), rb, re);
                let want_text = rexpected.map(|r| slice(&text, r));
                let probes: Vec<(&'static str, Result<Result<(Option<(usize, usize)>, String), String>, PanicInfo>)> = vec![
                    (
                        "text_by_offset.resource.populated",
                        catch(|| resource.text_by_offset(&roffset).map(|s| (None, s.to_string())).map_err(|e| err_name(&e))),
                    ),
                    (
                        "findtext.resource.populated",
                        catch(|| resource.textselection(&roffset).map(|t| (Some((t.begin(), t.end())), t.text().to_string())).map_err(|e| err_name(&e))),
                    ),
                ];
                for (entry, res) in probes {
                    out.checks += 1;
                    match res {
                        Err(p) => out.fail("panic", format!("{}|{}", entry, p.signature()), format!("{}: {} panicked at {}:{}: {}", rcontext, entry, p.file, p.line, p.msg)),
                        Ok(Ok((range, t))) => match (&want_text, rexpected) {
                            (Some(w), Some(r)) => {
                                if range.is_some() && range != Some(r) {
                                    out.fail("text", format!("{}|range", entry), format!("{}: {} returned {:?} expected {:?}", rcontext, entry, range, r));
                                } else if &t != w {
                                    out.fail("text", format!("{}|text", entry), format!("{}: {} returned text {:?} expected {:?}", rcontext, entry, t, w));
                                }
                            }
                            _ => out.fail(
                                "reject",
                                format!("{}|{}|{}", entry, rmode, rclass),
                                format!("{}: {} accepted an offset that is not a range 0<=b<=e<={} ({}) and returned {:?}", rcontext, entry, n, rclass, t),
                            ),
                        },
                        Ok(Err(err)) => {
                            if rexpected.is_some() {
                                out.fail("accept", format!("{}|{}|{}", entry, rmode, rclass), format!("{}: {} refused a valid offset ({}) with {}", rcontext, entry, rclass, err));
                            }
                        }
                    }
                }
            }

            // ---- annotate ---------------------------------------------------------------------------
            let id = format!("A{}", i);
            let before = store.annotations_len();
            let selector = match parent_handle {
                Some(h) => SelectorBuilder::annotationselector(h, Some(offset.clone())),
                None => SelectorBuilder::textselector("r", offset.clone()),
            };
            let builder = AnnotationBuilder::new().with_id(id.clone()).with_target(selector).with_data("s", "k", i as isize);
            let res = catch(|| store.annotate(builder));
            out.checks += 1;
            match (expected, res) {
                (_, Err(p)) => {
                    out.fail("panic", format!("annotate|{}", p.signature()), format!("{}: annotate panicked at {}:{}: {}", context, p.file, p.line, p.msg));
                    break;
                }
                (Some(r), Ok(Ok(h))) => {
                    accepted.push(Accepted {
                        id,
                        handle: h,
                        parent,
                        abs: (parent.0 + r.0, parent.0 + r.1),
                        given: (cb, ce),
                        on_resource: parent_handle.is_none(),
                    });
                    if accepted.len() >= 2 {
                        out.label("depth>=2");
                    }
                    if accepted.len() >= 3 {
                        out.label("depth>=3");
                    }
                }
                (Some(_), Ok(Err(e))) => {
                    out.fail("accept", format!("annotate|{}|{}|{}", target, mode, class), format!("{}: annotate refused a valid offset ({}): {}", context, class, e));
                }
                (None, Ok(Ok(_))) => {
                    out.fail(
                        "reject",
                        format!("annotate|{}|{}|{}", target, mode, class),
                        format!("{}: annotate accepted an offset that is not a range 0<=b<=e<={} ({})", context, plen, class),
                    );
                    // the store now holds an annotation the oracle knows nothing about; stop here
                    break;
                }
                (None, Ok(Err(_))) => {
                    out.checks += 1;
                    let after = store.annotations_len();
                    if after != before || store.annotation(id.as_str()).is_some() {
                        out.fail(
                            "reject",
                            format!("annotate-left-annotation|{}|{}|{}", target, mode, class),
                            format!("{}: annotate returned Err but the store has {} annotation slots (before: {})", context, after, before),
                        );
                    }
                }
            }
        }

        // ---- every text selection the resource now knows is a range inside the text ----------------
        {
            let store = &store;
            let resource = store.resource("r").expect("resource");
            for ts in resource.as_ref().textselections_unsorted() {
                out.checks += 1;
                if !(ts.begin() <= ts.end() && ts.end() <= n) {
                    out.fail(
                        "reject",
                        "stored-malformed-selection",
                        format!(
                            "text={:?} ({} codepoints): the resource holds the text selection [{},{}) which is not a range inside the text (chain {:?})",
                            case.text,
                            n,
                            ts.begin(),
                            ts.end(),
                            case.links
                        ),
                    );
                }
            }
        }

        // ---- observations on accepted annotations -----------------------------------------------------
        let store = &store;
        let resource = store.resource("r").expect("resource");
        for a in &accepted {
            let plen = a.parent.1 - a.parent.0;
            let rel = (a.abs.0 - a.parent.0, a.abs.1 - a.parent.0);
            let want = slice(&text, a.abs);
            let target = if a.on_resource { "resource" } else { "annotation" };
            let context = format!("text={:?} annotation {} parent={:?} given=({:?},{:?}) expected range {:?}", case.text, a.id, a.parent, a.given.0, a.given.1, a.abs);
            let Some(ann) = store.annotation(a.handle) else {
                out.fail("accept", "annotation-missing", format!("{}: annotate returned a handle that does not resolve", context));
                continue;
            };
            // text / text_simple / textselections
            if let Some(texts) = guard(&mut out, "panic", "annotation.text()", || ann.text().map(|s| s.to_string()).collect::<Vec<_>>()) {
                out.checks += 1;
                if texts != vec![want.clone()] {
                    out.fail("text", "annotation.text", format!("{}: text() = {:?} expected [{:?}]", context, texts, want));
                }
            }
            if let Some(ts) = guard(&mut out, "panic", "annotation.text_simple()", || ann.text_simple().map(|s| s.to_string())) {
                out.checks += 1;
                if ts.as_deref() != Some(want.as_str()) {
                    out.fail("text", "annotation.text_simple", format!("{}: text_simple() = {:?} expected Some({:?})", context, ts, want));
                }
            }
            let tsels = guard(&mut out, "panic", "annotation.textselections()", || {
                ann.textselections().map(|t| (t.begin(), t.end(), t.text().to_string())).collect::<Vec<_>>()
            });
            if let Some(tsels) = tsels {
                out.checks += 1;
                if tsels != vec![(a.abs.0, a.abs.1, want.clone())] {
                    out.fail("text", "annotation.textselections", format!("{}: textselections() = {:?} expected [{:?}]", context, tsels, (a.abs.0, a.abs.1, &want)));
                }
            }
            // reported offsets
            let sel = ann.as_ref().target();
            match guard(&mut out, "panic", "Selector::offset", || sel.offset(store)) {
                Some(Some(o)) => check_reported(&mut out, "offset", target, &o, None, rel, plen, &context),
                Some(None) => out.fail("report.resolve.none", format!("offset|{}", target), format!("{}: Selector::offset returned None", context)),
                None => {}
            }
            let mut reported: Vec<Offset> = vec![];
            for (m, mname) in MODES {
                match guard(&mut out, "panic", "Selector::offset_with_mode", || sel.offset_with_mode(store, Some(m))) {
                    Some(Some(o)) => {
                        check_reported(&mut out, "offset_with_mode", target, &o, Some(mname), rel, plen, &context);
                        reported.push(o);
                    }
                    Some(None) => {
                        out.fail("report.resolve.none", format!("offset_with_mode|{}", target), format!("{}: Selector::offset_with_mode({}) returned None", context, mname))
                    }
                    None => {}
                }
            }
            // the parent as a selection (the whole resource at depth 1)
            let parent_sel = guard(&mut out, "panic", "resource.textselection(parent)", || resource.textselection(&Offset::simple(a.parent.0, a.parent.1)));
            let Some(Ok(parent_sel)) = parent_sel else {
                out.fail("accept", "parent-selection", format!("{}: the parent range is not selectable", context));
                continue;
            };
            // low-level relative_offset / absolute_offset round trip
            if let Some(Some(me)) = guard(&mut out, "panic", "annotation.textselections()", || ann.textselections().next()) {
                for (m, mname) in MODES {
                    let ro = guard(&mut out, "panic", "TextSelection::relative_offset", || me.inner().relative_offset(parent_sel.inner(), m));
                    match ro {
                        Some(Some(o)) => {
                            check_reported(&mut out, "relative_offset", "selection", &o, Some(mname), rel, plen, &context);
                            reported.push(o);
                        }
                        Some(None) => {
                            out.fail("report.resolve.none", "relative_offset|selection", format!("{}: relative_offset({}) within the parent returned None", context, mname))
                        }
                        None => {}
                    }
                }
            }
            // every reported offset (if well-formed) is accepted back and gives the same range through
            // FindText::textselection on the parent selection and TextSelection::absolute_offset
            for o in &reported {
                let (b, e) = (Cur::from_stam(&o.begin), Cur::from_stam(&o.end));
                if !b.wellformed() || !e.wellformed() {
                    out.dontcare += 1;
                    continue;
                }
                let m = mode_name(&b, &e);
                let r1 = guard(&mut out, "panic", "selection.textselection(reported)", || {
                    parent_sel
                        .textselection(o)
                        .map(|t| (t.begin(), t.end(), t.text().to_string()))
                        .map_err(|e| err_name(&e))
                });
                if let Some(r1) = r1 {
                    out.checks += 1;
                    if r1 != Ok((a.abs.0, a.abs.1, want.clone())) {
                        out.fail(
                            &format!("report.resolve.{}", m),
                            "reresolve|findtext.selection",
                            format!("{}: parent.textselection({:?}) = {:?} expected {:?}", context, o, r1, a.abs),
                        );
                    }
                }
                let r2 = guard(&mut out, "panic", "TextSelection::absolute_offset", || parent_sel.inner().absolute_offset(o).map_err(|e| err_name(&e)));
                if let Some(r2) = r2 {
                    out.checks += 1;
                    let ok = match &r2 {
                        Ok(ao) => ao.begin == Cursor::BeginAligned(a.abs.0) && ao.end == Cursor::BeginAligned(a.abs.1),
                        Err(_) => false,
                    };
                    if !ok {
                        out.fail(
                            &format!("report.resolve.{}", m),
                            "reresolve|absolute_offset",
                            format!("{}: parent.absolute_offset({:?}) = {:?} expected {:?}", context, o, r2, a.abs),
                        );
                    }
                }
            }
            // the absolute range expressed in all four modes against the resource
            for (_, mname) in MODES {
                let (b, e) = offset_in_mode(a.abs, n, mname);
                let o = stam_offset(&b, &e);
                let r = guard(&mut out, "panic", "resource.textselection", || {
                    resource
                        .textselection(&o)
                        .map(|t| (t.begin(), t.end(), t.text().to_string()))
                        .map_err(|e| err_name(&e))
                });
                if let Some(r) = r {
                    out.checks += 1;
                    if r != Ok((a.abs.0, a.abs.1, want.clone())) {
                        out.fail(
                            &format!("report.resolve.{}", mname),
                            "reresolve|findtext.resource",
                            format!("{}: resource.textselection({:?}) = {:?} expected {:?}", context, o, r, a.abs),
                        );
                    }
                }
            }
        }

        // ---- serialised offsets: JSON --------------------------------------------------------------------
        if !accepted.is_empty() {
            if let Some(jv) = guard(&mut out, "panic", "to_json_value", || store.to_json_value()) {
                match jv {
                    Err(e) => out.fail("report.resolve.json", "json|serialise", format!("text={:?}: to_json_value failed: {}", case.text, e)),
                    Ok(v) => {
                        let empty = vec![];
                        let anns = v.get("annotations").and_then(|a| a.as_array()).unwrap_or(&empty);
                        for a in &accepted {
                            let plen = a.parent.1 - a.parent.0;
                            let rel = (a.abs.0 - a.parent.0, a.abs.1 - a.parent.0);
                            let target = if a.on_resource { "resource" } else { "annotation" };
                            let context = format!("text={:?} annotation {} parent={:?} given=({:?},{:?})", case.text, a.id, a.parent, a.given.0, a.given.1);
                            let found = anns.iter().find(|x| x.get("@id").and_then(|i| i.as_str()) == Some(a.id.as_str()));
                            let off = found.and_then(|x| x.get("target")).and_then(|t| t.get("offset"));
                            let cursors = off.and_then(|o| Some((parse_json_cursor(o.get("begin")?)?, parse_json_cursor(o.get("end")?)?)));
                            match cursors {
                                None => {
                                    out.fail("report.resolve.json", format!("json|missing|{}", target), format!("{}: no parsable offset in the JSON output: {:?}", context, found))
                                }
                                Some((b, e)) => {
                                    let o = stam_offset(&b, &e);
                                    check_reported(&mut out, "json", target, &o, None, rel, plen, &context);
                                }
                            }
                        }
                    }
                }
            }
        }

        // ---- serialised offsets: CSV (file I/O, a fraction of the cases) ------------------------------------
        if case.csv && !accepted.is_empty() {
            out.label("csv");
            let dir = scratch_dir();
            let _ = std::fs::create_dir_all(&dir);
            let storefile = dir.join("c.store.stam.csv");
            // work on a copy obtained through JSON so that `store` stays untouched
            let copy = guard(&mut out, "panic", "csv.copy", || {
                store
                    .to_json_string(&Config::default())
                    .and_then(|s| AnnotationStore::from_str(&s, Config::default()))
            });
            if let Some(Ok(mut copy)) = copy {
                let saved = guard(&mut out, "panic", "csv.save", || {
                    copy.set_filename(storefile.to_str().expect("utf8 path"));
                    copy.save()
                });
                match saved {
                    Some(Ok(())) => {
                        let mut table: Option<String> = None;
                        if let Ok(rd) = std::fs::read_dir(&dir) {
                            let mut names: Vec<_> = rd.filter_map(|e| e.ok()).map(|e| e.path()).collect();
                            names.sort();
                            for p in names {
                                let name = p.file_name().and_then(|s| s.to_str()).unwrap_or("").to_string();
                                if name.contains(".annotations.") && name.ends_with(".csv") {
                                    table = std::fs::read_to_string(&p).ok();
                                }
                            }
                        }
                        match table {
                            None => out.fail("report.resolve.csv", "csv|no-annotation-table", format!("text={:?}: no annotation table written in {:?}", case.text, dir)),
                            Some(t) => {
                                let mut lines = t.lines();
                                let header = split_csv_line(lines.next().unwrap_or(""));
                                let col = |name: &str| header.iter().position(|h| h == name);
                                let (ci, cb, ce) = (col("Id"), col("BeginOffset"), col("EndOffset"));
                                let rows: Vec<Vec<String>> = lines.map(split_csv_line).collect();
                                for a in &accepted {
                                    let plen = a.parent.1 - a.parent.0;
                                    let rel = (a.abs.0 - a.parent.0, a.abs.1 - a.parent.0);
                                    let target = if a.on_resource { "resource" } else { "annotation" };
                                    let context = format!("text={:?} annotation {} parent={:?} given=({:?},{:?})", case.text, a.id, a.parent, a.given.0, a.given.1);
                                    let row = ci.and_then(|ci| rows.iter().find(|r| r.get(ci).map(|s| s.as_str()) == Some(a.id.as_str())));
                                    let cursors = match (row, cb, ce) {
                                        (Some(r), Some(cb), Some(ce)) => match (r.get(cb).and_then(|s| parse_csv_cursor(s)), r.get(ce).and_then(|s| parse_csv_cursor(s))) {
                                            (Some(b), Some(e)) => Some((b, e)),
                                            _ => None,
                                        },
                                        _ => None,
                                    };
                                    match cursors {
                                        None => out.fail(
                                            "report.resolve.csv",
                                            format!("csv|missing|{}", target),
                                            format!("{}: no parsable offset in the CSV annotation table: {:?}", context, row),
                                        ),
                                        Some((b, e)) => {
                                            let o = stam_offset(&b, &e);
                                            check_reported(&mut out, "csv", target, &o, None, rel, plen, &context);
                                        }
                                    }
                                }
                            }
                        }
                    }
                    Some(Err(e)) => out.fail("report.resolve.csv", "csv|save-failed", format!("text={:?}: saving as CSV failed: {}", case.text, e)),
                    None => {}
                }
            } else if let Some(Err(e)) = copy {
                out.fail("report.resolve.json", "json|reload-failed", format!("text={:?}: the JSON output does not load again: {}", case.text, e));
            }
            if std::env::var("VERIF_KEEP").is_err() {
                let _ = std::fs::remove_dir_all(&dir);
            }
        }

        out.nontrivial = multibyte && (any_end_aligned || accepted.len() >= 2 || any_rejected);
        out
    }
}
