//! C03 Public identifiers resolve to exactly the live item that carries them.
//! History machine (C01 ops) + tail of duplicate-id insertions / strip-ids / reindex; after every step a
//! battery of lookup strings is resolved through every lookup entry point and compared with the model.

use crate::engine::*;
use crate::hist::*;
use crate::model::*;
use proptest::prelude::*;
use serde::{Deserialize, Serialize};
use stam::*;
use std::collections::BTreeSet;

pub struct C03;

#[derive(Clone, Debug, Serialize, Deserialize, PartialEq)]
pub enum TailOp {
    /// add a resource with the id of the k-th live resource (same or different text)
    DupResource { pick: u16, same_text: bool },
    /// add a dataset with the id of the k-th live dataset
    DupDataset { pick: u16 },
    /// annotate with the id of the k-th live annotation that has an id (side-effect free request)
    DupAnnotation { pick: u16 },
    /// insert data with an id that already exists in the set
    DupData { set: u16, pick: u16 },
    StripAnnotationIds,
    StripDataIds,
    /// compaction; terminal
    Reindex,
}

#[derive(Clone, Debug, Serialize, Deserialize)]
pub struct Case {
    pub hist: History,
    pub tail: Vec<TailOp>,
    /// extra lookup strings
    pub strings: Vec<String>,
    /// some items carry public ids of the form "!A2" (see Machine::tempid_ids)
    #[serde(default)]
    pub tempid_ids: bool,
}

fn tail_strategy() -> BoxedStrategy<Vec<TailOp>> {
    let op = prop_oneof![
        3 => (any::<u16>(), any::<bool>()).prop_map(|(pick, same_text)| TailOp::DupResource { pick, same_text }),
        2 => any::<u16>().prop_map(|pick| TailOp::DupDataset { pick }),
        3 => any::<u16>().prop_map(|pick| TailOp::DupAnnotation { pick }),
        2 => (any::<u16>(), any::<u16>()).prop_map(|(set, pick)| TailOp::DupData { set, pick }),
        1 => Just(TailOp::StripAnnotationIds),
        1 => Just(TailOp::StripDataIds),
        2 => Just(TailOp::Reindex),
    ];
    proptest::collection::vec(op, 0..=5).boxed()
}

fn strings_strategy() -> BoxedStrategy<Vec<String>> {
    let letters = proptest::sample::select(vec!["A", "R", "S", "K", "D", "I", "T", "X", "Z", "É", "a", "r", "", "😀"]);
    let tails = proptest::sample::select(vec![
        "0", "1", "2", "3", "5", "9", "", "x", "1x", "-1", "99999999999999999999999", " 1", "1 ", "É", "٣",
        // numbers that wrap onto small handles when truncated to 16, 32 or 64 bits
        "65536", "65537", "65538", "4294967296", "4294967297", "4294967298", "18446744073709551616", "18446744073709551617",
    ]);
    let temp = (letters, tails).prop_map(|(l, t)| format!("!{}{}", l, t));
    let arb = "\\PC{0,6}";
    proptest::collection::vec(prop_oneof![3 => temp, 1 => arb.prop_map(|s: String| s), 1 => Just("!".to_string()), 1 => Just("".to_string())], 0..=12)
        .boxed()
}

/// canonical temporary id "!<L><digits>" (no sign, no leading zeros except "0") → Some(Some(n));
/// things the documentation does not clearly make a temporary id (sign, leading zeros) → Some(None) = don't care;
/// everything else → None (not a temporary id)
fn parse_temp(s: &str, letter: char) -> Option<Option<usize>> {
    let mut it = s.chars();
    if it.next() != Some('!') {
        return None;
    }
    if it.next() != Some(letter) {
        return None;
    }
    let rest: &str = &s[1 + letter.len_utf8()..];
    if rest.is_empty() {
        return None;
    }
    if rest.chars().all(|c| c.is_ascii_digit()) {
        if rest.len() > 1 && rest.starts_with('0') {
            return Some(None);
        }
        return match rest.parse::<usize>() {
            Ok(n) => Some(Some(n)),
            Err(_) => None, // overflow: cannot be a handle
        };
    }
    if rest.starts_with('+') && rest[1..].chars().all(|c| c.is_ascii_digit()) && rest.len() > 1 {
        return Some(None);
    }
    None
}

struct Expect {
    /// Some(handle) must resolve to that handle; None must not resolve; outer None = don't care
    v: Option<Option<usize>>,
    class: &'static str,
}

fn expect_for(s: &str, by_id: Option<usize>, letter: char, live: &dyn Fn(usize) -> bool) -> Expect {
    if let Some(h) = by_id {
        return Expect { v: Some(Some(h)), class: "public" };
    }
    match parse_temp(s, letter) {
        Some(Some(n)) => {
            if live(n) {
                Expect { v: Some(Some(n)), class: "tempid.live" }
            } else {
                Expect { v: Some(None), class: "tempid.dead" }
            }
        }
        Some(None) => Expect { v: None, class: "tempid.odd" },
        None => {
            let class = if s.starts_with('!') {
                "tempid.malformed-or-other-kind"
            } else if s.is_ascii() {
                "unknown"
            } else {
                "unknown.nonascii"
            };
            Expect { v: Some(None), class }
        }
    }
}

struct Battery<'a> {
    store: &'a AnnotationStore,
    model: &'a Model,
    /// model handle -> store handle (identity until reindex)
    map_ann: &'a dyn Fn(usize) -> usize,
    map_res: &'a dyn Fn(usize) -> usize,
    map_set: &'a dyn Fn(usize) -> usize,
    after: &'static str,
}

impl<'a> Battery<'a> {
    fn run(&self, strings: &BTreeSet<String>, out: &mut Outcome) {
        let m = self.model;
        for s in strings {
            // ---- annotations
            let by_id = m.ann_by_id(s).map(|h| (self.map_ann)(h));
            let live = |n: usize| m.live_anns().iter().any(|h| (self.map_ann)(*h) == n);
            let e = expect_for(s, by_id, 'A', &live);
            let got = catch(|| self.store.annotation(s.as_str()).map(|a| (a.handle().as_usize(), a.id().map(|x| x.to_string()))));
            self.cmp(out, "annotation", s, &e, got.map(|g| g.map(|(h, id)| (h, id))), by_id.is_some());
            let got = catch(|| self.store.resolve_annotation_id(s.as_str()).ok().map(|h| (h.as_usize(), None)));
            self.cmp(out, "resolve_annotation_id", s, &e, got, false);
            // ---- resources
            let by_id = m.res_by_id(s).map(|h| (self.map_res)(h));
            let live = |n: usize| m.live_resources().iter().any(|h| (self.map_res)(*h) == n);
            let e = expect_for(s, by_id, 'R', &live);
            let got = catch(|| self.store.resource(s.as_str()).map(|a| (a.handle().as_usize(), a.id().map(|x| x.to_string()))));
            self.cmp(out, "resource", s, &e, got, by_id.is_some());
            let got = catch(|| self.store.resolve_resource_id(s.as_str()).ok().map(|h| (h.as_usize(), None)));
            self.cmp(out, "resolve_resource_id", s, &e, got, false);
            if let (Some(h), Ok(Some(r))) = (by_id, catch(|| self.store.resource(s.as_str()).map(|r| r.text().to_string()))) {
                let mh = m.res_by_id(s).unwrap();
                let t: String = m.res(mh).text.iter().collect();
                out.checks += 1;
                if r != t {
                    out.fail("resolve.resource", format!("wrong-text|{}", self.after), format!("resource id {:?} (handle {}) has text {:?}, expected {:?}", s, h, r, t));
                }
            }
            // ---- datasets
            let by_id = m.set_by_id(s).map(|h| (self.map_set)(h));
            let live = |n: usize| m.live_sets().iter().any(|h| (self.map_set)(*h) == n);
            let e = expect_for(s, by_id, 'S', &live);
            let got = catch(|| self.store.dataset(s.as_str()).map(|a| (a.handle().as_usize(), a.id().map(|x| x.to_string()))));
            self.cmp(out, "dataset", s, &e, got, by_id.is_some());
            let got = catch(|| self.store.resolve_dataset_id(s.as_str()).ok().map(|h| (h.as_usize(), None)));
            self.cmp(out, "resolve_dataset_id", s, &e, got, false);
            // ---- substores: none exist
            let got = catch(|| self.store.substore(s.as_str()).map(|a| (a.handle().as_usize(), None)));
            let e = Expect { v: if parse_temp(s, 'I') == Some(None) { None } else { Some(None) }, class: "substore" };
            self.cmp(out, "substore", s, &e, got, false);
            // ---- keys and data of every live set
            for sh in m.live_sets() {
                let ms = m.set(sh);
                let store_sh = AnnotationDataSetHandle::new((self.map_set)(sh));
                let by_id = ms.key_by_id(s);
                let live = |n: usize| ms.live_keys().contains(&n);
                let e = expect_for(s, by_id, 'K', &live);
                let got = catch(|| self.store.key(store_sh, s.as_str()).map(|a| (a.handle().as_usize(), a.id().map(|x| x.to_string()))));
                self.cmp(out, "key", s, &e, got, by_id.is_some());
                let by_id = ms.data_by_id(s);
                let live = |n: usize| ms.live_data().contains(&n);
                let e = expect_for(s, by_id, 'D', &live);
                let got = catch(|| self.store.annotationdata(store_sh, s.as_str()).map(|a| (a.handle().as_usize(), a.id().map(|x| x.to_string()))));
                self.cmp(out, "annotationdata", s, &e, got, by_id.is_some());
            }
        }
    }

    fn cmp(
        &self,
        out: &mut Outcome,
        kind: &str,
        s: &str,
        e: &Expect,
        got: Result<Option<(usize, Option<String>)>, PanicInfo>,
        check_id: bool,
    ) {
        out.checks += 1;
        let facet = format!("resolve.{}", kind);
        match got {
            Err(p) => out.fail(
                "panic",
                format!("{}|{}", kind, p.signature()),
                format!("{}({:?}) panicked at {}:{}: {}", kind, s, p.file, p.line, p.msg),
            ),
            Ok(g) => match e.v {
                None => out.dontcare += 1,
                Some(exp) => {
                    let gh = g.as_ref().map(|x| x.0);
                    if gh != exp {
                        let dir = match (exp, gh) {
                            (Some(_), None) => "not-found",
                            (None, Some(_)) => "resolves",
                            _ => "wrong-item",
                        };
                        out.fail(
                            &facet,
                            format!("{}|{}|{}", e.class, dir, self.after),
                            format!("{}({:?}) gave {:?}, expected {:?} ({})", kind, s, gh, exp, e.class),
                        );
                    } else if check_id {
                        if let Some((_, Some(id))) = &g {
                            if id != s {
                                out.fail(&facet, format!("{}|item-has-other-id|{}", e.class, self.after), format!("{}({:?}) returned an item whose id is {:?}", kind, s, id));
                            }
                        } else if let Some((_, None)) = &g {
                            out.fail(&facet, format!("{}|item-has-no-id|{}", e.class, self.after), format!("{}({:?}) returned an item without id", kind, s));
                        }
                    }
                }
            },
        }
    }
}

fn collect_ids(m: &Model, all: &mut BTreeSet<String>) {
    for r in m.resources.iter().flatten() {
        all.insert(r.id.clone());
    }
    for s in m.sets.iter().flatten() {
        all.insert(s.id.clone());
        for k in s.keys.iter().flatten() {
            all.insert(k.clone());
        }
        for d in s.data.iter().flatten() {
            if let Some(id) = &d.id {
                all.insert(id.clone());
            }
        }
    }
    for a in m.anns.iter().flatten() {
        if let Some(id) = &a.id {
            all.insert(id.clone());
        }
    }
}

impl Property for C03 {
    type Case = Case;
    fn id(&self) -> &'static str {
        "C03"
    }
    fn rule(&self) -> String {
        "case = C01 history + tail of duplicate-id insertions (resource, dataset, annotation, data), strip_annotation_ids, strip_data_ids and a terminal reindex + extra lookup strings (temporary-id syntax with any letter / digit string / junk, arbitrary Unicode); after every step every id ever used (live and removed, of every kind) and every extra string is resolved through annotation/resource/dataset/key/annotationdata/substore and resolve_*_id and compared with the model: the unique live item carrying the id, a live item of the right kind for a canonical temporary id, nothing otherwise; never a panic. Non-trivial = the battery ran after a removal, a strip, a reindex or a duplicate insertion; distinct = distinct case JSON.".into()
    }
    fn assumptions(&self) -> Vec<String> {
        vec![
            "temporary ids with a sign or leading zeros ('!A+5', '!A007') are don't-care (the documented form is '!A0')".into(),
            "reindex is terminal: afterwards only ids, handles and resource texts are inspected (targets inside annotations are outside C03)".into(),
            "the duplicate annotate request is side-effect free by construction (existing resource selector, no data) so that C14-type leaks cannot disturb the oracle".into(),
        ]
    }
    fn cases(&self, tier: Tier) -> u64 {
        tier.pick(400_000, 4_000_000)
    }
    fn strategy(&self, tier: Tier) -> BoxedStrategy<Case> {
        let cfg = HistCfg {
            max_ops: tier.pick(14, 30),
            text_max: 8,
            removal_weight: 6,
            protect_weight: 0,
            complex_weight: 1,
            ..HistCfg::default()
        };
        (history_strategy(cfg), tail_strategy(), strings_strategy(), proptest::bool::weighted(0.4))
            .prop_map(|(hist, tail, strings, tempid_ids)| Case { hist, tail, strings, tempid_ids })
            .boxed()
    }

    fn run(&self, case: &Case) -> Outcome {
        let mut out = Outcome::new();
        let mut m = Machine::new(case.hist.hostile);
        m.tempid_ids = case.tempid_ids;
        if case.tempid_ids {
            out.label("public_ids_in_tempid_form");
        }
        let mut all: BTreeSet<String> = case.strings.iter().cloned().collect();
        // a fixed set of probes that must never resolve or panic
        for s in ["!", "!A", "!É1", "!😀0", "!a0", "!A-1", "!R0", "!S0", "!K0", "!D0", "!I0", "!A0", "!A1", "!A2", "!R1", "!S1", "!K1", "!D1", "!D2", "!T0", "!Z0", "", " ", "é"] {
            all.insert(s.to_string());
        }
        let ident = |h: usize| h;
        let mut any_removal = false;
        for op in &case.hist.ops {
            let step = m.apply(op);
            if step.skipped.is_some() {
                continue;
            }
            if step.panic.is_some() || step.result.is_err() || step.mismatch.is_some() {
                // other properties' business (C01/C02); the model no longer tracks the store
                out.label("stopped_at_foreign_divergence");
                return out;
            }
            // the model must still agree with the store on what exists, otherwise expectations are meaningless
            let live_ok = catch(|| {
                let a: Vec<usize> = m.store.annotations().map(|a| a.handle().as_usize()).collect();
                let r: Vec<usize> = m.store.resources().map(|a| a.handle().as_usize()).collect();
                let s: Vec<usize> = m.store.datasets().map(|a| a.handle().as_usize()).collect();
                a == m.model.live_anns() && r == m.model.live_resources() && s == m.model.live_sets()
            });
            if live_ok.ok() != Some(true) {
                out.label("stopped_at_foreign_divergence");
                return out;
            }
            if op.is_removal() {
                any_removal = true;
                out.label("after_removal");
            }
            collect_ids(&m.model, &mut all);
            let b = Battery {
                store: &m.store,
                model: &m.model,
                map_ann: &ident,
                map_res: &ident,
                map_set: &ident,
                after: if any_removal { "after-removal" } else { "fresh" },
            };
            b.run(&all, &mut out);
            if !out.failures.is_empty() {
                return out;
            }
        }
        // ---- tail
        let Machine { mut store, mut model, .. } = m;
        for t in &case.tail {
            let mut after: &'static str = "after-dup";
            match t {
                TailOp::DupResource { pick: p, same_text } => {
                    let live = model.live_resources();
                    if live.is_empty() {
                        continue;
                    }
                    let r = live[pick(*p, live.len())];
                    let id = model.res(r).id.clone();
                    let mut text: String = model.res(r).text.iter().collect();
                    if !*same_text {
                        text.push('#');
                    }
                    let before = model.live_resources().len();
                    let res = catch(|| store.add_resource(TextResourceBuilder::new().with_id(id.clone()).with_text(text.clone())));
                    out.label("dup_resource");
                    match res {
                        Err(p) => out.fail("panic", format!("add_resource-dup|{}", p.signature()), format!("adding a resource with an existing id panicked: {}", p.msg)),
                        Ok(Ok(h)) => {
                            if h.as_usize() != r {
                                out.fail("unique", "resource|second-item", format!("adding a resource with existing id {:?} returned new handle {} (existing is {})", id, h.as_usize(), r));
                            }
                            if !*same_text {
                                out.fail("unique", "resource|different-accepted", format!("a different resource with existing id {:?} was accepted", id));
                            }
                        }
                        Ok(Err(_)) => {}
                    }
                    let n = catch(|| store.resources().count()).unwrap_or(usize::MAX);
                    if n != before {
                        out.fail("unique", "resource|count", format!("number of resources changed from {} to {} by a duplicate insertion", before, n));
                    }
                }
                TailOp::DupDataset { pick: p } => {
                    let live = model.live_sets();
                    if live.is_empty() {
                        continue;
                    }
                    let s = live[pick(*p, live.len())];
                    let id = model.set(s).id.clone();
                    let before = live.len();
                    let res = catch(|| store.add_dataset(AnnotationDataSetBuilder::new().with_id(id.clone())));
                    out.label("dup_dataset");
                    match res {
                        Err(p) => out.fail("panic", format!("add_dataset-dup|{}", p.signature()), format!("adding a dataset with an existing id panicked: {}", p.msg)),
                        Ok(Ok(h)) => {
                            if h.as_usize() != s {
                                out.fail("unique", "dataset|second-item", format!("adding a dataset with existing id {:?} returned new handle {} (existing is {})", id, h.as_usize(), s));
                            }
                        }
                        Ok(Err(_)) => {}
                    }
                    let n = catch(|| store.datasets().count()).unwrap_or(usize::MAX);
                    if n != before {
                        out.fail("unique", "dataset|count", format!("number of datasets changed from {} to {} by a duplicate insertion", before, n));
                    }
                }
                TailOp::DupAnnotation { pick: p } => {
                    let with_id: Vec<usize> = model.live_anns().into_iter().filter(|a| model.ann(*a).id.is_some()).collect();
                    let lr = model.live_resources();
                    if with_id.is_empty() || lr.is_empty() {
                        continue;
                    }
                    let a = with_id[pick(*p, with_id.len())];
                    let id = model.ann(a).id.clone().unwrap();
                    let before = model.live_anns().len();
                    let rid = model.res(lr[0]).id.clone();
                    let res = catch(|| {
                        store.annotate(
                            AnnotationBuilder::new()
                                .with_id(id.clone())
                                .with_target(SelectorBuilder::ResourceSelector(BuildItem::Id(rid.clone()))),
                        )
                    });
                    out.label("dup_annotation");
                    match res {
                        Err(p) => out.fail("panic", format!("annotate-dup|{}", p.signature()), format!("annotate with an existing id panicked: {}", p.msg)),
                        Ok(Ok(h)) => {
                            if h.as_usize() != a {
                                out.fail("unique", "annotation|second-item", format!("annotate with existing id {:?} returned new handle {} (existing is {})", id, h.as_usize(), a));
                            }
                        }
                        Ok(Err(_)) => {}
                    }
                    let n = catch(|| store.annotations().count()).unwrap_or(usize::MAX);
                    if n != before {
                        out.fail("unique", "annotation|count", format!("number of annotations changed from {} to {} by a duplicate insertion", before, n));
                    }
                }
                TailOp::DupData { set, pick: p } => {
                    let live = model.live_sets();
                    if live.is_empty() {
                        continue;
                    }
                    let s = live[pick(*set, live.len())];
                    let with_id: Vec<usize> = model
                        .set(s)
                        .live_data()
                        .into_iter()
                        .filter(|d| model.set(s).data[*d].as_ref().unwrap().id.is_some())
                        .collect();
                    if with_id.is_empty() {
                        continue;
                    }
                    let d = with_id[pick(*p, with_id.len())];
                    let md = model.set(s).data[d].clone().unwrap();
                    let key = model.set(s).keys[md.key].clone().unwrap();
                    let before = model.set(s).live_data().len();
                    let sh = AnnotationDataSetHandle::new(s);
                    let res = catch(|| {
                        store.insert_data(
                            AnnotationDataBuilder::new()
                                .with_dataset(BuildItem::Handle(sh))
                                .with_id(BuildItem::Id(md.id.clone().unwrap()))
                                .with_key(BuildItem::Id(key.clone()))
                                .with_value(md.value.to_stam()),
                        )
                    });
                    out.label("dup_data");
                    match res {
                        Err(p) => out.fail("panic", format!("insert_data-dup|{}", p.signature()), format!("insert_data with an existing id panicked: {}", p.msg)),
                        Ok(Ok((_, h))) => {
                            if h.as_usize() != d {
                                out.fail("unique", "data|second-item", format!("insert_data with existing id {:?} returned handle {} (existing is {})", md.id, h.as_usize(), d));
                            }
                        }
                        Ok(Err(_)) => {}
                    }
                    let n = catch(|| store.dataset(sh).map(|x| x.data().count()).unwrap_or(usize::MAX)).unwrap_or(usize::MAX);
                    if n != before {
                        out.fail("unique", "data|count", format!("number of data items changed from {} to {} by a duplicate insertion", before, n));
                    }
                }
                TailOp::StripAnnotationIds => {
                    if let Err(p) = catch(|| store.strip_annotation_ids()) {
                        out.fail("panic", format!("strip_annotation_ids|{}", p.signature()), p.msg.clone());
                    }
                    for a in model.anns.iter_mut().flatten() {
                        a.id = None;
                    }
                    out.label("strip_annotation_ids");
                    after = "after-strip";
                }
                TailOp::StripDataIds => {
                    if let Err(p) = catch(|| store.strip_data_ids()) {
                        out.fail("panic", format!("strip_data_ids|{}", p.signature()), p.msg.clone());
                    }
                    for s in model.sets.iter_mut().flatten() {
                        for d in s.data.iter_mut().flatten() {
                            d.id = None;
                        }
                    }
                    out.label("strip_data_ids");
                    after = "after-strip";
                }
                TailOp::Reindex => {
                    out.label("reindex");
                    if model.anns.iter().any(|a| a.is_none()) || model.resources.iter().any(|a| a.is_none()) || model.sets.iter().any(|a| a.is_none()) {
                        out.label("reindex_with_gaps");
                    }
                    let res = catch(move || store.reindex());
                    match res {
                        Err(p) => {
                            out.fail("panic", format!("reindex|{}", p.signature()), format!("reindex panicked at {}:{}: {}", p.file, p.line, p.msg));
                            break;
                        }
                        Ok(s2) => {
                            let la = model.live_anns();
                            let lr = model.live_resources();
                            let ls = model.live_sets();
                            let map_ann = |h: usize| la.iter().position(|x| *x == h).unwrap_or(usize::MAX);
                            let map_res = |h: usize| lr.iter().position(|x| *x == h).unwrap_or(usize::MAX);
                            let map_set = |h: usize| ls.iter().position(|x| *x == h).unwrap_or(usize::MAX);
                            let b = Battery {
                                store: &s2,
                                model: &model,
                                map_ann: &map_ann,
                                map_res: &map_res,
                                map_set: &map_set,
                                after: "after-reindex",
                            };
                            b.run(&all, &mut out);
                            out.nontrivial = true;
                            return out;
                        }
                    }
                }
            }
            if !out.failures.is_empty() {
                break;
            }
            collect_ids(&model, &mut all);
            let b = Battery {
                store: &store,
                model: &model,
                map_ann: &ident,
                map_res: &ident,
                map_set: &ident,
                after,
            };
            b.run(&all, &mut out);
            if !out.failures.is_empty() {
                break;
            }
        }
        out.nontrivial = any_removal || !case.tail.is_empty();
        out
    }
}
