//! C08 helper: case specifications (index based, always valid, shrink friendly), their resolution
//! against the reference model into concrete constraints, the STAMQL printer and the programmatic builder.

use crate::engine::pick;
use crate::hist::*;
use crate::model::*;
use crate::props::c10::OpSpec as DOp;
use proptest::prelude::*;
use serde::{Deserialize, Serialize};
use stam::*;

pub const RTN: [&str; 6] = ["ANNOTATION", "DATA", "KEY", "TEXT", "RESOURCE", "DATASET"];
pub const T_ANN: u8 = 0;
pub const T_DATA: u8 = 1;
pub const T_KEY: u8 = 2;
pub const T_TEXT: u8 = 3;
pub const T_RES: u8 = 4;
pub const T_SET: u8 = 5;

pub const RELOPS: [&str; 10] = [
    "EQUALS", "EMBEDS", "EMBEDDED", "OVERLAPS", "PRECEDES", "SUCCEEDS", "SAMEBEGIN", "SAMEEND", "BEFORE", "AFTER",
];

/// one result item, by handles (text selections by resource and absolute range)
#[derive(Clone, Debug, PartialEq, Eq, PartialOrd, Ord, Hash)]
pub enum It {
    A(usize),
    D(usize, usize),
    K(usize, usize),
    T(usize, usize, usize),
    R(usize),
    S(usize),
    /// no result at this level (OPTIONAL sub-query without match)
    None,
}

impl It {
    pub fn show(&self) -> String {
        match self {
            It::A(a) => format!("A{}", a),
            It::D(s, d) => format!("D{}:{}", s, d),
            It::K(s, k) => format!("K{}:{}", s, k),
            It::T(r, b, e) => format!("T{}:{}-{}", r, b, e),
            It::R(r) => format!("R{}", r),
            It::S(s) => format!("S{}", s),
            It::None => "-".into(),
        }
    }
}

pub fn show_items(v: &[It]) -> String {
    let mut s = String::from("[");
    for (i, x) in v.iter().enumerate() {
        if i > 0 {
            s.push(' ');
        }
        if i >= 24 {
            s.push_str(&format!("… ({} items)", v.len()));
            break;
        }
        s.push_str(&x.show());
    }
    s.push(']');
    s
}

pub fn show_rows(v: &[Vec<It>]) -> String {
    let mut s = String::from("[");
    for (i, r) in v.iter().enumerate() {
        if i > 0 {
            s.push(' ');
        }
        if i >= 16 {
            s.push_str(&format!("… ({} rows)", v.len()));
            break;
        }
        s.push_str(&r.iter().map(|x| x.show()).collect::<Vec<_>>().join("+"));
    }
    s.push(']');
    s
}

// ------------------------------------------------------------------------------------------
// specification (what the generator produces; every reference is "the k-th live item")

#[derive(Clone, Debug, Serialize, Deserialize, PartialEq)]
pub struct OpS {
    /// 0 =  1 !=  2 >  3 >=  4 <  5 <=   (mapped onto the comparisons the grammar has for the literal's type)
    pub cmp: u8,
    /// explicit literal; None = the value of the datum the constraint was derived from
    pub lit: Option<Val>,
}

#[derive(Clone, Debug, Serialize, Deserialize, PartialEq)]
pub enum TextSrc {
    /// the text of the k-th live annotation that has text (first piece)
    Ann(u16),
    /// a slice of the k-th live resource
    Sub { res: u16, b: u16, e: u16 },
    /// the k-th entry of a small pool of literals / patterns
    Pool(u16),
}

#[derive(Clone, Debug, Serialize, Deserialize, PartialEq)]
pub enum CS {
    /// id of the k-th live item of the result type (`missing`: an id that does not exist)
    Id { pick: u16, missing: bool },
    /// DATA set key (set and key of the k-th datum of the k-th set)
    DataKey { set: u16, data: u16, meta: bool },
    /// DATA set key op value
    KeyValue { set: u16, data: u16, op: OpS, meta: bool },
    /// VALUE op value
    Value { set: u16, data: u16, op: OpS },
    /// TEXT literal; mode 0 exact, 1 AS NOCASE, 2 AS REGEX; `flip`: change the case of the literal
    Text { src: TextSrc, mode: u8, flip: bool },
    Resource { pick: u16, meta: bool, offset: Option<(u16, u16)> },
    DataSet { pick: u16, meta: bool },
    Annotation { pick: u16, meta: bool, rec: bool },
    /// constraint on the variable of the enclosing query `up` levels above (0 = the directly enclosing one);
    /// `which` selects among the variable constraints that exist for (outer type, inner type)
    Link { up: u8, which: u16, op: u8, offset: (u16, u16) },
    Union(Vec<CS>),
    Limit { b: i8, e: i8 },
}

#[derive(Clone, Debug, Serialize, Deserialize, PartialEq)]
pub struct QS {
    /// 0 ANNOTATION 1 DATA 2 KEY 3 TEXT 4 RESOURCE 5 DATASET
    pub rtype: u8,
    pub optional: bool,
    pub cons: Vec<CS>,
    pub sub: Option<Box<QS>>,
    /// derive the constraints of this level from the k-th live item of the result type where possible, so that
    /// their conjunction is satisfiable
    #[serde(default)]
    pub anchor: Option<u16>,
}

impl QS {
    pub fn depth(&self) -> usize {
        1 + self.sub.as_ref().map(|s| s.depth()).unwrap_or(0)
    }
}

// ------------------------------------------------------------------------------------------
// concrete constraints (after resolution against the model)

#[derive(Clone, Debug, PartialEq)]
pub struct OpC {
    pub cmp: u8,
    pub v: Val,
}

impl OpC {
    pub fn text(&self) -> String {
        let cmp = ["=", "!=", ">", ">=", "<", "<="][self.cmp as usize % 6];
        let lit = match &self.v {
            Val::Null => "null".to_string(),
            Val::Bool(b) => format!("{}", b),
            Val::Int(i) => format!("{}", i),
            Val::Float(f) => float_text(*f),
            Val::Str(s) => format!("\"{}\"", s),
            Val::Dt(s) => s.clone(),
            Val::List(_) => "null".to_string(),
        };
        format!("{} {}", cmp, lit)
    }
    /// the reference operator (c10's three-valued definition)
    pub fn dop(&self) -> DOp {
        let c = self.cmp % 6;
        match &self.v {
            Val::Null | Val::List(_) => neg(DOp::Null, c == 1),
            Val::Bool(true) => neg(DOp::True, c == 1),
            Val::Bool(false) => neg(DOp::False, c == 1),
            Val::Str(s) => neg(DOp::Equals(s.clone()), c == 1),
            Val::Int(i) => match c {
                0 => DOp::EqualsInt(*i),
                1 => DOp::Not(Box::new(DOp::EqualsInt(*i))),
                2 => DOp::Gt(*i),
                3 => DOp::Ge(*i),
                4 => DOp::Lt(*i),
                _ => DOp::Le(*i),
            },
            Val::Float(f) => match c {
                0 => DOp::EqualsFloat(*f),
                1 => DOp::Not(Box::new(DOp::EqualsFloat(*f))),
                2 => DOp::GtF(*f),
                3 => DOp::GeF(*f),
                4 => DOp::LtF(*f),
                _ => DOp::LeF(*f),
            },
            Val::Dt(s) => match c {
                2 => DOp::DtAfter(s.clone()),
                3 => DOp::DtAtOrAfter(s.clone()),
                4 => DOp::DtBefore(s.clone()),
                5 => DOp::DtAtOrBefore(s.clone()),
                _ => DOp::DtExact(s.clone()),
            },
        }
    }
}

fn neg(o: DOp, n: bool) -> DOp {
    if n {
        DOp::Not(Box::new(o))
    } else {
        o
    }
}

/// a float literal the lexer types as float and that parses back to the same f64
pub fn float_text(f: f64) -> String {
    let s = format!("{}", f);
    if s.contains('.') {
        s
    } else {
        format!("{}.0", s)
    }
}

#[derive(Clone, Debug, PartialEq)]
pub enum CC {
    Id { id: String },
    DataKey { set: String, key: String, s: usize, k: usize, meta: bool },
    KeyValue { set: String, key: String, s: usize, k: usize, op: OpC, meta: bool },
    Value { op: OpC },
    Text { w: String, mode: u8 },
    Resource { id: String, r: usize, meta: bool, offset: Option<(usize, usize)> },
    DataSet { id: String, s: usize, meta: bool },
    Annotation { id: String, a: usize, meta: bool, rec: bool },
    VarAnnotation { var: String, meta: bool, rec: bool },
    VarResource { var: String, meta: bool, offset: Option<(usize, usize)> },
    VarDataSet { var: String },
    VarKey { var: String, meta: bool },
    VarData { var: String, meta: bool },
    VarText { var: String },
    Relation { var: String, op: u8 },
    Union(Vec<CC>),
    Limit { b: isize, e: isize },
}

impl CC {
    /// kind name used in labels and signatures
    pub fn kind(&self) -> String {
        match self {
            CC::Id { .. } => "ID".into(),
            CC::DataKey { meta, .. } => format!("DATAKEY{}", if *meta { "_META" } else { "" }),
            CC::KeyValue { meta, .. } => format!("KEYVALUE{}", if *meta { "_META" } else { "" }),
            CC::Value { .. } => "VALUE".into(),
            CC::Text { mode, .. } => ["TEXT", "TEXT_NOCASE", "TEXT_REGEX"][*mode as usize % 3].into(),
            CC::Resource { meta, offset, .. } => {
                format!("RESOURCE{}{}", if *meta { "_META" } else { "" }, if offset.is_some() { "_OFFSET" } else { "" })
            }
            CC::DataSet { meta, .. } => format!("DATASET{}", if *meta { "_META" } else { "" }),
            CC::Annotation { meta, rec, .. } => {
                format!("ANNOTATION{}{}", if *meta { "_META" } else { "" }, if *rec { "_REC" } else { "" })
            }
            CC::VarAnnotation { meta, rec, .. } => {
                format!("VAR_ANNOTATION{}{}", if *meta { "_META" } else { "" }, if *rec { "_REC" } else { "" })
            }
            CC::VarResource { meta, offset, .. } => {
                format!("VAR_RESOURCE{}{}", if *meta { "_META" } else { "" }, if offset.is_some() { "_OFFSET" } else { "" })
            }
            CC::VarDataSet { .. } => "VAR_DATASET".into(),
            CC::VarKey { meta, .. } => format!("VAR_KEY{}", if *meta { "_META" } else { "" }),
            CC::VarData { meta, .. } => format!("VAR_DATA{}", if *meta { "_META" } else { "" }),
            CC::VarText { .. } => "VAR_TEXT".into(),
            CC::Relation { .. } => "RELATION".into(),
            CC::Union(_) => "UNION".into(),
            CC::Limit { .. } => "LIMIT".into(),
        }
    }
    /// refers to an id that does not exist (the engine raises an error; what a query should answer then is not documented)
    pub fn has_missing(&self) -> bool {
        match self {
            CC::Id { id } => id == "no-such-id",
            CC::Union(v) => v.iter().any(|c| c.has_missing()),
            _ => false,
        }
    }
    pub fn is_limit(&self) -> bool {
        matches!(self, CC::Limit { .. })
    }
    pub fn uses_var(&self) -> bool {
        match self {
            CC::VarAnnotation { .. }
            | CC::VarResource { .. }
            | CC::VarDataSet { .. }
            | CC::VarKey { .. }
            | CC::VarData { .. }
            | CC::VarText { .. }
            | CC::Relation { .. } => true,
            CC::Union(v) => v.iter().any(|c| c.uses_var()),
            _ => false,
        }
    }
    pub fn text(&self) -> String {
        let q = |m: &bool| if *m { " AS METADATA" } else { "" };
        let off = |o: &Option<(usize, usize)>| match o {
            Some((b, e)) => format!(" OFFSET {} {}", b, e),
            None => String::new(),
        };
        match self {
            CC::Id { id } => format!("ID \"{}\"", id),
            CC::DataKey { set, key, meta, .. } => format!("DATA{} \"{}\" \"{}\"", q(meta), set, key),
            CC::KeyValue { set, key, op, meta, .. } => format!("DATA{} \"{}\" \"{}\" {}", q(meta), set, key, op.text()),
            CC::Value { op } => format!("VALUE {}", op.text()),
            CC::Text { w, mode } => match mode % 3 {
                0 => format!("TEXT \"{}\"", w),
                1 => format!("TEXT AS NOCASE \"{}\"", w),
                _ => format!("TEXT AS REGEX \"{}\"", w),
            },
            CC::Resource { id, meta, offset, .. } => format!("RESOURCE{} \"{}\"{}", q(meta), id, off(offset)),
            CC::DataSet { id, meta, .. } => format!("DATASET{} \"{}\"", q(meta), id),
            CC::Annotation { id, meta, rec, .. } => {
                format!("ANNOTATION{}{} \"{}\"", q(meta), if *rec { " RECURSIVE" } else { "" }, id)
            }
            CC::VarAnnotation { var, meta, rec } => {
                format!("ANNOTATION{}{} ?{}", q(meta), if *rec { " RECURSIVE" } else { "" }, var)
            }
            CC::VarResource { var, meta, offset } => format!("RESOURCE{} ?{}{}", q(meta), var, off(offset)),
            CC::VarDataSet { var } => format!("DATASET ?{}", var),
            CC::VarKey { var, meta } => format!("KEY{} ?{}", q(meta), var),
            CC::VarData { var, meta } => format!("DATA{} ?{}", q(meta), var),
            CC::VarText { var } => format!("TEXT ?{}", var),
            CC::Relation { var, op } => format!("RELATION ?{} {}", var, RELOPS[*op as usize % 10]),
            CC::Union(arms) => format!("[ {} ]", arms.iter().map(|a| a.text()).collect::<Vec<_>>().join(" OR ")),
            CC::Limit { b, e } => format!("LIMIT {} {}", b, e),
        }
    }
    pub fn build<'a>(&'a self) -> Constraint<'a> {
        let q = |m: bool| if m { SelectionQualifier::Metadata } else { SelectionQualifier::Normal };
        let off = |o: &Option<(usize, usize)>| o.map(|(b, e)| Offset::simple(b, e));
        let depth = |rec: bool| if rec { AnnotationDepth::Max } else { AnnotationDepth::One };
        match self {
            CC::Id { id } => Constraint::Id(id),
            CC::DataKey { set, key, meta, .. } => Constraint::DataKey { set, key, qualifier: q(*meta) },
            CC::KeyValue { set, key, op, meta, .. } => {
                Constraint::KeyValue { set, key, operator: op.dop().to_stam(), qualifier: q(*meta) }
            }
            CC::Value { op } => Constraint::Value(op.dop().to_stam(), SelectionQualifier::Normal),
            CC::Text { w, mode } => match mode % 3 {
                0 => Constraint::Text(w, TextMode::Exact),
                1 => Constraint::Text(w, TextMode::CaseInsensitive),
                _ => Constraint::Regex(Regex::new(w).expect("resolved regex is valid")),
            },
            CC::Resource { id, meta, offset, .. } => Constraint::TextResource(id, q(*meta), off(offset)),
            CC::DataSet { id, meta, .. } => Constraint::DataSet(id, q(*meta)),
            CC::Annotation { id, meta, rec, .. } => Constraint::Annotation(id, q(*meta), depth(*rec), None),
            CC::VarAnnotation { var, meta, rec } => Constraint::AnnotationVariable(var, q(*meta), depth(*rec), None),
            CC::VarResource { var, meta, offset } => Constraint::ResourceVariable(var, q(*meta), off(offset)),
            CC::VarDataSet { var } => Constraint::DataSetVariable(var, SelectionQualifier::Normal),
            CC::VarKey { var, meta } => Constraint::KeyVariable(var, q(*meta)),
            CC::VarData { var, meta } => Constraint::DataVariable(var, q(*meta)),
            CC::VarText { var } => Constraint::TextVariable(var),
            CC::Relation { var, op } => Constraint::TextRelation { var, operator: relop(*op) },
            CC::Union(arms) => Constraint::Union(arms.iter().map(|a| a.build()).collect()),
            CC::Limit { b, e } => Constraint::Limit { begin: *b, end: *e },
        }
    }
}

pub fn relop(op: u8) -> TextSelectionOperator {
    match op % 10 {
        0 => TextSelectionOperator::equals(),
        1 => TextSelectionOperator::embeds(),
        2 => TextSelectionOperator::embedded(),
        3 => TextSelectionOperator::overlaps(),
        4 => TextSelectionOperator::precedes(),
        5 => TextSelectionOperator::succeeds(),
        6 => TextSelectionOperator::samebegin(),
        7 => TextSelectionOperator::sameend(),
        8 => TextSelectionOperator::before(),
        _ => TextSelectionOperator::after(),
    }
}

pub fn rtype_of(rt: u8) -> Type {
    match rt % 6 {
        0 => Type::Annotation,
        1 => Type::AnnotationData,
        2 => Type::DataKey,
        3 => Type::TextSelection,
        4 => Type::TextResource,
        _ => Type::AnnotationDataSet,
    }
}

/// one level of a (nested) SELECT query
#[derive(Clone, Debug, PartialEq)]
pub struct Lvl {
    pub rtype: u8,
    pub optional: bool,
    pub name: String,
    pub cons: Vec<CC>,
}

impl Lvl {
    pub fn with_cons(&self, cons: Vec<CC>) -> Lvl {
        Lvl { rtype: self.rtype, optional: self.optional, name: self.name.clone(), cons }
    }
    pub fn without_limit(&self) -> Lvl {
        self.with_cons(self.cons.iter().filter(|c| !c.is_limit()).cloned().collect())
    }
    pub fn limit_pos(&self) -> Option<usize> {
        self.cons.iter().position(|c| c.is_limit())
    }
}

/// STAMQL text of a nested SELECT over `levels` (first = outermost)
pub fn print_levels(levels: &[Lvl]) -> String {
    let mut s = String::new();
    print_rec(levels, &mut s);
    s
}

fn print_rec(levels: &[Lvl], s: &mut String) {
    let l = &levels[0];
    s.push_str("SELECT ");
    if l.optional {
        s.push_str("OPTIONAL ");
    }
    s.push_str(RTN[l.rtype as usize % 6]);
    s.push_str(" ?");
    s.push_str(&l.name);
    if !l.cons.is_empty() {
        s.push_str(" WHERE");
        for c in &l.cons {
            s.push(' ');
            s.push_str(&c.text());
            s.push(';');
        }
    }
    if levels.len() > 1 {
        s.push_str(" { ");
        print_rec(&levels[1..], s);
        s.push_str(" }");
    }
}

/// programmatic construction of the same query
pub fn build_levels<'a>(levels: &'a [Lvl]) -> Query<'a> {
    let l = &levels[0];
    let mut q = Query::new(QueryType::Select, Some(rtype_of(l.rtype)), Some(l.name.as_str()));
    if l.optional {
        q = q.with_qualifier(QueryQualifier::Optional);
    }
    for c in &l.cons {
        q = q.with_constraint(c.build());
    }
    if levels.len() > 1 {
        q = q.with_subquery(build_levels(&levels[1..]));
    }
    q
}

// ------------------------------------------------------------------------------------------
// resolution against the model

pub const POOL_LIT: [&str; 8] = ["a", "b", "ab", " ", "x", "ba", "c", "a b"];
pub const POOL_RE: [&str; 10] = ["a+", "[ab]+", "^a", "b$", ".", "\\s", "a.b", "(a|b)c", "^[^a]*$", "\\w\\w"];

/// variable constraints that exist (in at least one position) for an inner query of type `inner`
/// on the variable of an outer query of type `outer`
pub fn links(outer: u8, inner: u8) -> Vec<&'static str> {
    match (outer, inner) {
        (T_ANN, T_ANN) => vec!["ann", "ann_meta", "ann_meta_rec", "rel", "textvar"],
        (T_ANN, T_DATA) | (T_ANN, T_KEY) => vec!["ann", "ann_meta"],
        (T_ANN, T_TEXT) => vec!["ann", "rel"],
        (T_TEXT, T_ANN) => vec!["textvar", "rel"],
        (T_TEXT, T_TEXT) => vec!["rel", "textvar"],
        (T_TEXT, T_DATA) => vec!["textvar"],
        (T_DATA, T_ANN) | (T_DATA, T_KEY) | (T_DATA, T_SET) | (T_DATA, T_TEXT) | (T_DATA, T_DATA) => vec!["data"],
        (T_DATA, T_RES) => vec!["data", "data_meta"],
        (T_KEY, T_ANN) | (T_KEY, T_DATA) | (T_KEY, T_SET) | (T_KEY, T_TEXT) | (T_KEY, T_KEY) => vec!["key"],
        (T_KEY, T_RES) => vec!["key", "key_meta"],
        (T_SET, T_ANN) | (T_SET, T_DATA) | (T_SET, T_KEY) | (T_SET, T_SET) => vec!["set"],
        (T_RES, T_ANN) => vec!["res", "res_meta"],
        (T_RES, T_TEXT) => vec!["res", "res_off"],
        _ => vec![],
    }
}

pub fn flip_case(s: &str) -> String {
    s.chars()
        .map(|c| {
            if c.is_lowercase() {
                c.to_uppercase().collect::<String>()
            } else if c.is_uppercase() {
                c.to_lowercase().collect::<String>()
            } else {
                c.to_string()
            }
        })
        .collect()
}

/// a string literal that the lexer carries unchanged inside quotes
fn quotable(s: &str) -> bool {
    !s.contains('"') && !s.ends_with('\\')
}

/// a quoted string value that the lexer types as a string
fn string_typed(s: &str) -> bool {
    !s.contains('|') && !matches!(s, "null" | "any" | "true" | "false") && chrono::DateTime::parse_from_rfc3339(s).is_err()
}

fn leaf_val(v: &Val) -> Val {
    match v {
        Val::List(l) => l.first().map(leaf_val).unwrap_or(Val::Null),
        Val::Str(s) if !(quotable(s) && string_typed(s)) => Val::Str("noun".into()),
        v => v.clone(),
    }
}

pub fn resolve_op(op: &OpS, from: &Val) -> OpC {
    let v = leaf_val(op.lit.as_ref().unwrap_or(from));
    let allowed: &[u8] = match &v {
        Val::Int(_) | Val::Float(_) => &[0, 1, 2, 3, 4, 5],
        Val::Dt(_) => &[0, 2, 3, 4, 5],
        _ => &[0, 1],
    };
    let cmp = if allowed.contains(&(op.cmp % 6)) { op.cmp % 6 } else { allowed[(op.cmp as usize) % allowed.len()] };
    OpC { cmp, v }
}

pub struct Resolver<'m> {
    pub m: &'m Model,
    /// constraints derived from the anchor / resolved freely (root level)
    pub n_anchored: usize,
    pub n_free: usize,
    pub n_underivable: usize,
    /// constraints dropped because the referent does not exist or the kind does not exist for the type
    pub dropped: usize,
}

impl<'m> Resolver<'m> {
    fn set_data(&self, set: u16, data: u16) -> Option<(usize, usize)> {
        let sets: Vec<usize> = self.m.live_sets().into_iter().filter(|s| !self.m.set(*s).live_data().is_empty()).collect();
        if sets.is_empty() {
            return None;
        }
        let s = sets[pick(set, sets.len())];
        let ds = self.m.set(s).live_data();
        Some((s, ds[pick(data, ds.len())]))
    }
    fn ann_with_id(&self, p: u16) -> Option<(usize, String)> {
        let v: Vec<usize> = self.m.live_anns().into_iter().filter(|a| self.m.ann(*a).id.is_some()).collect();
        if v.is_empty() {
            return None;
        }
        let a = v[pick(p, v.len())];
        Some((a, self.m.ann(a).id.clone().unwrap()))
    }
    fn text_literal(&self, src: &TextSrc, mode: u8, flip: bool) -> String {
        let m = self.m;
        let mut w: String = match src {
            TextSrc::Ann(p) => {
                let v: Vec<usize> = m
                    .live_anns()
                    .into_iter()
                    .filter(|a| m.text_ranges(*a).iter().any(|r| r.2 > r.1))
                    .collect();
                if v.is_empty() {
                    String::new()
                } else {
                    let a = v[pick(*p, v.len())];
                    let r = m.text_ranges(a).into_iter().find(|r| r.2 > r.1).unwrap();
                    m.slice(r)
                }
            }
            TextSrc::Sub { res, b, e } => {
                let live = m.live_resources();
                if live.is_empty() {
                    String::new()
                } else {
                    let r = live[pick(*res, live.len())];
                    let len = m.res(r).text.len();
                    let lo = pick(*b, len + 1);
                    let hi = (lo + 1 + pick(*e, 4)).min(len);
                    if hi > lo {
                        m.slice((r, lo, hi))
                    } else {
                        String::new()
                    }
                }
            }
            TextSrc::Pool(p) => {
                if mode % 3 == 2 {
                    return POOL_RE[pick(*p, POOL_RE.len())].to_string();
                }
                POOL_LIT[pick(*p, POOL_LIT.len())].to_string()
            }
        };
        self.finish_literal(w, mode, flip)
    }

    fn finish_literal(&self, mut w: String, mode: u8, flip: bool) -> String {
        if w.is_empty() || !quotable(&w) || w.starts_with('?') || w == "AS" {
            w = "a".to_string();
        }
        if flip {
            let f = flip_case(&w);
            if quotable(&f) && !f.is_empty() {
                w = f;
            }
        }
        if mode % 3 == 2 {
            let e = regex::escape(&w);
            if quotable(&e) && Regex::new(&e).is_ok() {
                return e;
            }
            return "a".to_string();
        }
        w
    }


    fn anns_with_id(&self, f: &dyn Fn(usize) -> bool) -> Vec<usize> {
        self.m.live_anns().into_iter().filter(|a| self.m.ann(*a).id.is_some() && f(*a)).collect()
    }

    /// the item the constraints of a level are derived from
    pub fn anchor_item(&self, rt: u8, anchor: u16) -> Option<It> {
        let m = self.m;
        let used: Vec<(usize, usize)> = {
            let mut v: Vec<(usize, usize)> = m.live_anns().into_iter().flat_map(|a| m.ann(a).data.clone()).collect();
            v.sort();
            v.dedup();
            v
        };
        let nth = |v: Vec<It>| if v.is_empty() { None } else { Some(v[pick(anchor, v.len())].clone()) };
        match rt % 6 {
            T_ANN => {
                let rich: Vec<It> = m.live_anns().into_iter().filter(|a| !m.ann(*a).data.is_empty()).map(It::A).collect();
                if !rich.is_empty() && anchor % 4 != 0 {
                    nth(rich)
                } else {
                    nth(m.live_anns().into_iter().map(It::A).collect())
                }
            }
            T_DATA => nth(used.iter().map(|(s, d)| It::D(*s, *d)).collect()),
            T_KEY => {
                let mut v: Vec<(usize, usize)> = used.iter().map(|(s, d)| (*s, m.set(*s).data[*d].as_ref().unwrap().key)).collect();
                v.sort();
                v.dedup();
                nth(v.into_iter().map(|(s, k)| It::K(s, k)).collect())
            }
            T_TEXT => {
                let mut v: Vec<(usize, usize, usize)> = m.live_anns().into_iter().flat_map(|a| m.ann(a).target.texts()).collect();
                v.sort();
                v.dedup();
                nth(v.into_iter().map(|(r, b, e)| It::T(r, b, e)).collect())
            }
            T_RES => nth(m.live_resources().into_iter().map(It::R).collect()),
            _ => nth(m.live_sets().into_iter().map(It::S).collect()),
        }
    }

    fn data_cc(&self, c: &CS, s: usize, d: usize, meta: bool) -> Option<CC> {
        let m = self.m;
        let dd = m.set(s).data[d].as_ref().unwrap();
        // an operator the datum satisfies: its own value with =, >= or <=
        let resolve_op = |op: &OpS, v: &Val| -> OpC {
            let cmp = match op.cmp % 6 {
                2 | 3 => 3,
                4 | 5 => 5,
                _ => 0,
            };
            let mut o = resolve_op(&OpS { cmp, lit: None }, v);
            if o.cmp == 1 {
                o.cmp = 0;
            }
            o
        };
        let set = m.set(s).id.clone();
        let key = m.set(s).keys[dd.key].clone().unwrap();
        if matches!(dd.value, Val::List(_)) {
            // no operator of the grammar describes a list value
            return match c {
                CS::DataKey { .. } | CS::KeyValue { .. } => Some(CC::DataKey { set, key, s, k: dd.key, meta }),
                _ => None,
            };
        }
        match c {
            CS::DataKey { .. } => Some(CC::DataKey { set, key, s, k: dd.key, meta }),
            CS::KeyValue { op, .. } => Some(CC::KeyValue { set, key, s, k: dd.key, op: resolve_op(op, &dd.value), meta }),
            CS::Value { op, .. } => Some(CC::Value { op: resolve_op(op, &dd.value) }),
            _ => None,
        }
    }

    /// a constraint of the given kind that the anchor item satisfies (None: no such constraint can be derived)
    fn anchored(&self, rt: u8, c: &CS, anchor: &It) -> Option<CC> {
        let m = self.m;
        let ann_cc = |v: Vec<usize>, p: u16, meta: bool, rec: bool| -> Option<CC> {
            if v.is_empty() {
                return None;
            }
            let x = v[pick(p, v.len())];
            Some(CC::Annotation { id: m.ann(x).id.clone().unwrap(), a: x, meta, rec })
        };
        let data_pick = |c: &CS| -> u16 {
            match c {
                CS::DataKey { data, .. } | CS::KeyValue { data, .. } | CS::Value { data, .. } => *data,
                _ => 0,
            }
        };
        match (rt % 6, anchor) {
            (T_ANN, It::A(a)) => {
                let a = *a;
                let data = &m.ann(a).data;
                match c {
                    CS::Id { missing: false, .. } => m.ann(a).id.clone().map(|id| CC::Id { id }),
                    CS::DataKey { .. } | CS::KeyValue { .. } | CS::Value { .. } => {
                        if data.is_empty() {
                            return None;
                        }
                        let (s, d) = data[pick(data_pick(c), data.len())];
                        self.data_cc(c, s, d, false)
                    }
                    CS::Text { mode, flip, .. } => {
                        let r = m.text_ranges(a);
                        if r.len() != 1 || r[0].2 == r[0].1 {
                            return None;
                        }
                        Some(CC::Text { w: self.finish_literal(m.slice(r[0]), *mode, *flip), mode: *mode % 3 })
                    }
                    CS::Resource { meta: false, .. } => {
                        let t = m.ann(a).target.texts();
                        t.first().map(|t| CC::Resource { id: m.res(t.0).id.clone(), r: t.0, meta: false, offset: None })
                    }
                    CS::Resource { meta: true, .. } => m.ann(a).target.leaves().into_iter().find_map(|l| match l {
                        MSel::Res(r) => Some(CC::Resource { id: m.res(*r).id.clone(), r: *r, meta: true, offset: None }),
                        _ => None,
                    }),
                    CS::DataSet { meta: false, pick: p } => {
                        if data.is_empty() {
                            return None;
                        }
                        let s = data[pick(*p, data.len())].0;
                        Some(CC::DataSet { id: m.set(s).id.clone(), s, meta: false })
                    }
                    CS::DataSet { meta: true, .. } => m.ann(a).target.leaves().into_iter().find_map(|l| match l {
                        MSel::Set(s) => Some(CC::DataSet { id: m.set(*s).id.clone(), s: *s, meta: true }),
                        _ => None,
                    }),
                    CS::Annotation { pick: p, meta: false, .. } => ann_cc(self.anns_with_id(&|x| m.ann(x).target.anns().contains(&a)), *p, false, false),
                    CS::Annotation { pick: p, meta: true, rec } => {
                        let direct = m.ann(a).target.anns();
                        if *rec {
                            // anything reachable
                            let mut seen: Vec<usize> = vec![];
                            let mut stack = direct.clone();
                            while let Some(x) = stack.pop() {
                                if !seen.contains(&x) && m.anns.get(x).map(|o| o.is_some()).unwrap_or(false) {
                                    seen.push(x);
                                    stack.extend(m.ann(x).target.anns());
                                }
                            }
                            ann_cc(self.anns_with_id(&|x| seen.contains(&x)), *p, true, true)
                        } else {
                            ann_cc(self.anns_with_id(&|x| direct.contains(&x)), *p, true, false)
                        }
                    }
                    _ => None,
                }
            }
            (T_DATA, It::D(s, d)) => match c {
                CS::DataKey { .. } | CS::KeyValue { .. } | CS::Value { .. } => self.data_cc(c, *s, *d, false),
                CS::DataSet { .. } => Some(CC::DataSet { id: m.set(*s).id.clone(), s: *s, meta: false }),
                CS::Annotation { pick: p, meta: false, .. } => ann_cc(self.anns_with_id(&|x| m.ann(x).data.contains(&(*s, *d))), *p, false, false),
                CS::Annotation { pick: p, meta: true, .. } => ann_cc(self.anns_with_id(&|x| m.ann(x).target.refs_data(*s, *d)), *p, true, false),
                _ => None,
            },
            (T_KEY, It::K(s, k)) => match c {
                CS::DataSet { .. } => Some(CC::DataSet { id: m.set(*s).id.clone(), s: *s, meta: false }),
                CS::Annotation { pick: p, meta: false, .. } => ann_cc(
                    self.anns_with_id(&|x| m.ann(x).data.iter().any(|(ds, dd)| ds == s && m.set(*ds).data[*dd].as_ref().unwrap().key == *k)),
                    *p,
                    false,
                    false,
                ),
                CS::Annotation { pick: p, meta: true, .. } => ann_cc(self.anns_with_id(&|x| m.ann(x).target.refs_key(*s, *k)), *p, true, false),
                _ => None,
            },
            (T_TEXT, It::T(r, b, e)) => {
                let t = (*r, *b, *e);
                let on: Vec<usize> = m.live_anns().into_iter().filter(|a| m.ann(*a).target.texts().contains(&t)).collect();
                match c {
                    CS::Resource { offset, .. } => Some(CC::Resource { id: m.res(*r).id.clone(), r: *r, meta: false, offset: offset.map(|_| (*b, *e)) }),
                    CS::Annotation { pick: p, .. } => ann_cc(self.anns_with_id(&|x| on.contains(&x)), *p, false, false),
                    CS::DataKey { .. } | CS::KeyValue { .. } | CS::Value { .. } => {
                        let data: Vec<(usize, usize)> = on.iter().flat_map(|a| m.ann(*a).data.clone()).collect();
                        if data.is_empty() {
                            return None;
                        }
                        let (s, d) = data[pick(data_pick(c), data.len())];
                        self.data_cc(c, s, d, false)
                    }
                    CS::Text { mode, flip, .. } => {
                        if b == e {
                            return None;
                        }
                        Some(CC::Text { w: self.finish_literal(m.slice(t), *mode, *flip), mode: *mode % 3 })
                    }
                    _ => None,
                }
            }
            (T_RES, It::R(r)) => match c {
                CS::Id { missing: false, .. } => Some(CC::Id { id: m.res(*r).id.clone() }),
                CS::Resource { .. } => Some(CC::Resource { id: m.res(*r).id.clone(), r: *r, meta: false, offset: None }),
                CS::DataKey { meta, .. } | CS::KeyValue { meta, .. } => {
                    let data: Vec<(usize, usize)> = m
                        .live_anns()
                        .into_iter()
                        .filter(|a| {
                            let leaves = m.ann(*a).target.leaves();
                            if *meta {
                                leaves.iter().any(|l| matches!(l, MSel::Res(x) if x == r))
                            } else {
                                leaves.iter().any(|l| matches!(l, MSel::Text { res, .. } if res == r))
                            }
                        })
                        .flat_map(|a| m.ann(a).data.clone())
                        .collect();
                    if data.is_empty() {
                        return None;
                    }
                    let (s, d) = data[pick(data_pick(c), data.len())];
                    self.data_cc(c, s, d, *meta)
                }
                _ => None,
            },
            (T_SET, It::S(s)) => match c {
                CS::Id { missing: false, .. } => Some(CC::Id { id: m.set(*s).id.clone() }),
                CS::DataSet { .. } => Some(CC::DataSet { id: m.set(*s).id.clone(), s: *s, meta: false }),
                _ => None,
            },
            _ => None,
        }
    }

    /// `outer`: (name, rtype) of the enclosing queries, outermost first
    pub fn constraint_anchored(&mut self, rt: u8, c: &CS, outer: &[(String, u8)], anchor: Option<&It>) -> Option<CC> {
        if let Some(a) = anchor {
            match c {
                CS::Union(arms) => {
                    // the first arm is derived from the anchor, the others are free
                    let mut v: Vec<CC> = vec![];
                    for (i, arm) in arms.iter().enumerate() {
                        let cc = if i == 0 { self.anchored(rt, arm, a).or_else(|| self.constraint(rt, arm, outer, true)) } else { self.constraint(rt, arm, outer, true) };
                        if let Some(cc) = cc {
                            v.push(cc);
                        }
                    }
                    if v.is_empty() {
                        self.dropped += 1;
                        return None;
                    }
                    return Some(CC::Union(v));
                }
                _ => {
                    if let Some(cc) = self.anchored(rt, c, a) {
                        if outer.is_empty() {
                            self.n_anchored += 1;
                        }
                        return Some(cc);
                    }
                }
            }
        }
        let is_meta = matches!(
            c,
            CS::Resource { meta: true, .. } | CS::DataSet { meta: true, .. } | CS::Annotation { meta: true, .. } | CS::DataKey { meta: true, .. } | CS::KeyValue { meta: true, .. }
        );
        if anchor.is_some() && !is_meta && !matches!(c, CS::Limit { .. } | CS::Link { .. } | CS::Union(_)) {
            // not derivable from the anchor: mostly dropped (a free constraint usually empties the answer)
            self.n_underivable += 1;
            if self.n_underivable % 3 != 0 {
                self.dropped += 1;
                return None;
            }
        }
        if outer.is_empty() && !matches!(c, CS::Limit { .. }) {
            self.n_free += 1;
        }
        self.constraint(rt, c, outer, false)
    }

    /// `outer`: (name, rtype) of the enclosing queries, outermost first
    pub fn constraint(&mut self, rt: u8, c: &CS, outer: &[(String, u8)], in_union: bool) -> Option<CC> {
        let m = self.m;
        let r = match c {
            CS::Id { pick: p, missing } => {
                if *missing {
                    Some(CC::Id { id: "no-such-id".into() })
                } else {
                    match rt {
                        T_ANN => self.ann_with_id(*p).map(|(_, id)| CC::Id { id }),
                        T_RES => {
                            let live = m.live_resources();
                            if live.is_empty() {
                                None
                            } else {
                                Some(CC::Id { id: m.res(live[pick(*p, live.len())]).id.clone() })
                            }
                        }
                        T_SET => {
                            let live = m.live_sets();
                            if live.is_empty() {
                                None
                            } else {
                                Some(CC::Id { id: m.set(live[pick(*p, live.len())]).id.clone() })
                            }
                        }
                        _ => None,
                    }
                }
            }
            CS::DataKey { set, data, meta } => match rt {
                T_ANN | T_DATA | T_TEXT | T_RES => self.set_data(*set, *data).map(|(s, d)| {
                    let k = m.set(s).data[d].as_ref().unwrap().key;
                    CC::DataKey {
                        set: m.set(s).id.clone(),
                        key: m.set(s).keys[k].clone().unwrap(),
                        s,
                        k,
                        meta: *meta && rt == T_RES,
                    }
                }),
                _ => None,
            },
            CS::KeyValue { set, data, op, meta } => match rt {
                T_ANN | T_DATA | T_TEXT | T_RES => self.set_data(*set, *data).map(|(s, d)| {
                    let dd = m.set(s).data[d].as_ref().unwrap();
                    CC::KeyValue {
                        set: m.set(s).id.clone(),
                        key: m.set(s).keys[dd.key].clone().unwrap(),
                        s,
                        k: dd.key,
                        op: resolve_op(op, &dd.value),
                        meta: *meta && rt == T_RES,
                    }
                }),
                _ => None,
            },
            CS::Value { set, data, op } => match rt {
                T_ANN | T_DATA | T_TEXT => {
                    let from = self.set_data(*set, *data).map(|(s, d)| m.set(s).data[d].as_ref().unwrap().value.clone()).unwrap_or(Val::Null);
                    Some(CC::Value { op: resolve_op(op, &from) })
                }
                _ => None,
            },
            CS::Text { src, mode, flip } => match rt {
                T_ANN | T_TEXT => Some(CC::Text { w: self.text_literal(src, *mode, *flip), mode: *mode % 3 }),
                _ => None,
            },
            CS::Resource { pick: p, meta, offset } => {
                let live = m.live_resources();
                if live.is_empty() || !matches!(rt, T_ANN | T_TEXT | T_RES) {
                    None
                } else {
                    let r = live[pick(*p, live.len())];
                    let len = m.res(r).text.len();
                    let offset = if rt == T_TEXT {
                        offset.map(|(b, e)| {
                            let lo = pick(b, len + 1);
                            (lo, lo + pick(e, len - lo + 1))
                        })
                    } else {
                        None
                    };
                    Some(CC::Resource { id: m.res(r).id.clone(), r, meta: *meta && rt == T_ANN, offset })
                }
            }
            CS::DataSet { pick: p, meta } => {
                let live = m.live_sets();
                if live.is_empty() || !matches!(rt, T_ANN | T_DATA | T_KEY | T_SET) {
                    None
                } else {
                    let s = live[pick(*p, live.len())];
                    Some(CC::DataSet { id: m.set(s).id.clone(), s, meta: *meta && rt == T_ANN })
                }
            }
            CS::Annotation { pick: p, meta, rec } => match rt {
                T_ANN | T_DATA | T_KEY | T_TEXT => self.ann_with_id(*p).map(|(a, id)| CC::Annotation {
                    id,
                    a,
                    meta: *meta && rt != T_TEXT,
                    rec: *rec && *meta && rt == T_ANN,
                }),
                _ => None,
            },
            CS::Link { up, which, op, offset } => {
                if outer.is_empty() {
                    None
                } else {
                    let i = outer.len() - 1 - (*up as usize).min(outer.len() - 1);
                    let (var, ort) = (&outer[i].0, outer[i].1);
                    let ls = links(ort, rt);
                    if ls.is_empty() {
                        None
                    } else {
                        let var = var.clone();
                        Some(match ls[pick(*which, ls.len())] {
                            "ann" => CC::VarAnnotation { var, meta: false, rec: false },
                            "ann_meta" => CC::VarAnnotation { var, meta: true, rec: false },
                            "ann_meta_rec" => CC::VarAnnotation { var, meta: true, rec: true },
                            "rel" => CC::Relation { var, op: *op % 10 },
                            "textvar" => CC::VarText { var },
                            "data" => CC::VarData { var, meta: false },
                            "data_meta" => CC::VarData { var, meta: true },
                            "key" => CC::VarKey { var, meta: false },
                            "key_meta" => CC::VarKey { var, meta: true },
                            "set" => CC::VarDataSet { var },
                            "res" => CC::VarResource { var, meta: false, offset: None },
                            "res_meta" => CC::VarResource { var, meta: true, offset: None },
                            _ => {
                                // offsets relative to an unknown resource: keep them small so that they are often valid
                                let lo = (offset.0 % 6) as usize;
                                CC::VarResource { var, meta: false, offset: Some((lo, lo + (offset.1 % 5) as usize)) }
                            }
                        })
                    }
                }
            }
            CS::Union(arms) => {
                if in_union {
                    None
                } else {
                    let v: Vec<CC> = arms.iter().filter_map(|a| self.constraint(rt, a, outer, true)).collect();
                    if v.is_empty() {
                        None
                    } else {
                        Some(CC::Union(v))
                    }
                }
            }
            CS::Limit { b, e } => {
                if in_union {
                    None
                } else {
                    Some(CC::Limit { b: *b as isize, e: *e as isize })
                }
            }
        };
        if r.is_none() {
            self.dropped += 1;
        }
        r
    }

    pub fn levels(&mut self, q: &QS) -> Vec<Lvl> {
        let mut out: Vec<Lvl> = vec![];
        let mut cur = Some(q);
        let mut outer: Vec<(String, u8)> = vec![];
        while let Some(q) = cur {
            let rt = q.rtype % 6;
            let name = format!("v{}", out.len());
            let mut cons: Vec<CC> = vec![];
            let mut have_limit = false;
            let anchor = q.anchor.and_then(|a| self.anchor_item(rt, a));
            for c in &q.cons {
                if let Some(cc) = self.constraint_anchored(rt, c, &outer, anchor.as_ref()) {
                    if cc.is_limit() {
                        if have_limit {
                            continue;
                        }
                        have_limit = true;
                    }
                    if !cons.contains(&cc) {
                        cons.push(cc);
                    }
                }
            }
            out.push(Lvl { rtype: rt, optional: q.optional && !out.is_empty(), name: name.clone(), cons });
            outer.push((name, rt));
            cur = q.sub.as_deref();
            if out.len() >= 3 {
                break;
            }
        }
        out
    }
}

// ------------------------------------------------------------------------------------------
// strategies

fn idx() -> BoxedStrategy<u16> {
    prop_oneof![6 => any::<u16>(), 1 => Just(0u16), 1 => Just(u16::MAX)].boxed()
}

fn ops() -> BoxedStrategy<OpS> {
    let lit = prop_oneof![
        6 => Just(None),
        1 => leaf_val_strategy(false).prop_map(Some),
        1 => prop_oneof![(-3i64..=3), Just(12i64)].prop_map(|i| Some(Val::Int(i))),
        1 => proptest::sample::select(vec![0.0f64, 1.5, -2.25, 12.0, 3.0]).prop_map(|f| Some(Val::Float(f))),
    ];
    (prop_oneof![4 => Just(0u8), 2 => Just(1u8), 3 => 2u8..6], lit).prop_map(|(cmp, lit)| OpS { cmp, lit }).boxed()
}

fn textsrc() -> BoxedStrategy<TextSrc> {
    prop_oneof![
        5 => idx().prop_map(TextSrc::Ann),
        3 => (idx(), idx(), idx()).prop_map(|(res, b, e)| TextSrc::Sub { res, b, e }),
        2 => idx().prop_map(TextSrc::Pool),
    ]
    .boxed()
}

fn meta(p: f64) -> BoxedStrategy<bool> {
    proptest::bool::weighted(p).boxed()
}

fn leaf(rt: u8) -> BoxedStrategy<CS> {
    let id = (idx(), proptest::bool::weighted(0.04)).prop_map(|(pick, missing)| CS::Id { pick, missing }).boxed();
    let datakey = (idx(), idx(), meta(0.4)).prop_map(|(set, data, meta)| CS::DataKey { set, data, meta }).boxed();
    let keyvalue = (idx(), idx(), ops(), meta(0.4)).prop_map(|(set, data, op, meta)| CS::KeyValue { set, data, op, meta }).boxed();
    let value = (idx(), idx(), ops()).prop_map(|(set, data, op)| CS::Value { set, data, op }).boxed();
    let text = (textsrc(), prop_oneof![5 => Just(0u8), 3 => Just(1u8), 2 => Just(2u8)], proptest::bool::weighted(0.3))
        .prop_map(|(src, mode, flip)| CS::Text { src, mode, flip: flip && mode == 1 })
        .boxed();
    let resource = (idx(), meta(0.3), proptest::option::weighted(0.3, (idx(), idx())))
        .prop_map(|(pick, meta, offset)| CS::Resource { pick, meta, offset })
        .boxed();
    let dataset = (idx(), meta(0.3)).prop_map(|(pick, meta)| CS::DataSet { pick, meta }).boxed();
    let annotation = (idx(), meta(0.45), proptest::bool::weighted(0.4)).prop_map(|(pick, meta, rec)| CS::Annotation { pick, meta, rec }).boxed();
    let arms: Vec<(u32, BoxedStrategy<CS>)> = match rt % 6 {
        T_ANN => vec![(2, id), (3, datakey), (5, keyvalue), (2, value), (4, text), (3, resource), (2, dataset), (4, annotation)],
        T_DATA => vec![(2, datakey), (6, keyvalue), (5, value), (2, dataset), (2, annotation)],
        T_KEY => vec![(4, dataset), (4, annotation)],
        T_TEXT => vec![(5, resource), (3, annotation), (2, datakey), (3, keyvalue), (2, value), (4, text)],
        T_RES => vec![(2, id), (1, resource), (5, datakey), (3, keyvalue)],
        _ => vec![(3, id), (3, dataset)],
    };
    proptest::strategy::Union::new_weighted(arms).boxed()
}

fn link() -> BoxedStrategy<CS> {
    (prop_oneof![5 => Just(0u8), 1 => Just(1u8)], idx(), 0u8..10, (any::<u16>(), any::<u16>()))
        .prop_map(|(up, which, op, offset)| CS::Link { up, which, op, offset })
        .boxed()
}

fn limit() -> BoxedStrategy<CS> {
    (-4i8..=6, -4i8..=6).prop_map(|(b, e)| CS::Limit { b, e }).boxed()
}

fn constraint(rt: u8, sub: bool) -> BoxedStrategy<CS> {
    // the TEXT result type has no UNION in any position (todo!() / not implemented): generated rarely
    let union_w = if rt % 6 == T_TEXT { 1 } else { 10 };
    let union = proptest::collection::vec(if sub { prop_oneof![5 => leaf(rt), 1 => link()].boxed() } else { leaf(rt) }, 2..=3).prop_map(CS::Union);
    // disjunctions of ids / of annotation constraints: they have a handle-collection form (forms facet)
    let homogeneous = (any::<bool>(), proptest::collection::vec(idx(), 2..=3), meta(0.3))
        .prop_map(move |(ids, picks, meta)| {
            let ids = match rt % 6 {
                T_ANN => ids,
                T_RES | T_SET => true,
                _ => false,
            };
            CS::Union(picks.into_iter().map(|pick| if ids { CS::Id { pick, missing: false } } else { CS::Annotation { pick, meta, rec: false } }).collect())
        })
        .boxed();
    let homog_w = if rt % 6 == T_TEXT { 0 } else { 5 };
    if sub {
        prop_oneof![60 => leaf(rt), 12 => link(), union_w => union, homog_w => homogeneous].boxed()
    } else {
        prop_oneof![70 => leaf(rt), union_w => union, homog_w => homogeneous].boxed()
    }
}

fn level(rt: u8, sub: bool) -> BoxedStrategy<(Vec<CS>, bool)> {
    // KEY and DATASET queries implement (nearly) nothing after the first constraint
    let n = if matches!(rt % 6, T_KEY | T_SET) {
        prop_oneof![1 => Just(0usize), 8 => Just(1usize), 1 => Just(2usize)].boxed()
    } else {
        prop_oneof![1 => Just(0usize), 2 => Just(1usize), 8 => Just(2usize), 5 => Just(3usize)].boxed()
    };
    (
        n.prop_flat_map(move |n| proptest::collection::vec(constraint(rt, sub), n..=n)),
        proptest::option::weighted(if sub { 0.12 } else { 0.3 }, limit()),
        proptest::bool::weighted(0.08),
        if sub { proptest::option::weighted(0.9, link()).boxed() } else { Just(None).boxed() },
        proptest::bool::weighted(0.3),
    )
        .prop_map(|(mut cons, lim, lim_mid, lnk, optional)| {
            if let Some(l) = lnk {
                cons.insert(0, l);
                if cons.len() > 3 {
                    cons.pop();
                }
            }
            if let Some(l) = lim {
                if lim_mid && !cons.is_empty() {
                    let at = cons.len() - 1;
                    cons.insert(at, l);
                } else {
                    cons.push(l);
                }
            }
            (cons, optional)
        })
        .boxed()
}

fn rtype() -> BoxedStrategy<u8> {
    prop_oneof![7 => Just(T_ANN), 3 => Just(T_DATA), 2 => Just(T_KEY), 5 => Just(T_TEXT), 2 => Just(T_RES), 1 => Just(T_SET)].boxed()
}

/// inner result type given the outer one: biased towards pairs that can be linked by a variable
fn inner_rtype(outer: u8) -> BoxedStrategy<u8> {
    let linked: Vec<u8> = (0u8..6).filter(|i| !links(outer, *i).is_empty()).collect();
    if linked.is_empty() {
        rtype()
    } else {
        prop_oneof![8 => proptest::sample::select(linked), 1 => rtype()].boxed()
    }
}

fn qs_of(rt: u8, depth: u32, sub: bool) -> BoxedStrategy<QS> {
    let subq: BoxedStrategy<Option<Box<QS>>> = if depth == 0 {
        Just(None).boxed()
    } else {
        prop_oneof![
            if sub { 5 } else { 5 } => Just(None),
            if sub { 2 } else { 4 } => inner_rtype(rt).prop_flat_map(move |irt| qs_of(irt, depth - 1, true)).prop_map(|q| Some(Box::new(q))),
        ]
        .boxed()
    };
    (level(rt, sub), subq, proptest::option::weighted(0.9, idx()))
        .prop_map(move |((cons, optional), sub_, anchor)| QS { rtype: rt, optional: optional && sub, cons, sub: sub_, anchor })
        .boxed()
}

pub fn qs_strategy(depth: u32) -> BoxedStrategy<QS> {
    rtype().prop_flat_map(move |rt| qs_of(rt, depth, false)).boxed()
}

/// a single-level select for mutation queries (DELETE / ADD target selection)
pub fn qs_single(rt: u8) -> BoxedStrategy<QS> {
    qs_of(rt, 0, false)
}

/// arguments of the filter-method facet (`c08_filt.rs`)
pub fn fargs_strategy() -> BoxedStrategy<super::filt::FArgs> {
    (
        proptest::collection::vec(idx(), 24..=24),
        (any::<u16>(), any::<u32>(), any::<u16>()),
        proptest::collection::vec(ops(), 2..=2),
        (0u8..4, proptest::bool::weighted(0.3), 0u8..3, 0u8..3, 0u8..10),
        any::<bool>(),
    )
        .prop_map(|(picks, (source, mask, sizes), ops, (text_kind, flip, re_kind, delim, relop), depth_max)| super::filt::FArgs {
            picks,
            source,
            mask,
            ops,
            text_kind,
            flip,
            re_kind,
            delim,
            relop,
            sizes,
            depth_max,
        })
        .boxed()
}

/// history: two resources and a dataset up front, then the shared history generator
pub fn hist_strategy(max_ops: usize, text_max: usize) -> BoxedStrategy<History> {
    let cfg = HistCfg { max_ops, text_max, removal_weight: 2, protect_weight: 0, complex_weight: 1, hostile: false, data_only: false };
    let min_ops = (max_ops / 2).max(1);
    (
        text_strategy(text_max),
        text_strategy(text_max),
        proptest::bool::weighted(0.7),
        proptest::collection::vec((proptest::bool::weighted(0.4), 0u8..6, val_strategy(false)), 1..=3),
        proptest::collection::vec(op_strategy(&cfg), min_ops..=max_ops),
    )
        .prop_map(|(t1, t2, second, data, ops)| {
            let mut v = vec![Op::AddResource { text: t1, sfx: 0 }];
            if second {
                v.push(Op::AddResource { text: t2, sfx: 2 });
            }
            v.push(Op::AddDataset { sfx: 0, data: data.into_iter().map(|(with_id, key, val)| DSpec { with_id, key, val }).collect() });
            // removing a whole resource or dataset late in the history leaves little to query: keep those early
            let n = ops.len();
            v.extend(ops.into_iter().enumerate().filter(|(i, op)| !(matches!(op, Op::RemoveResource { .. } | Op::RemoveDataset { .. }) && *i * 10 > n * 4)).map(|(_, op)| op));
            History { hostile: false, ops: v }
        })
        .boxed()
}
