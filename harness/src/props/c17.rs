//! C17 Web Annotation export is well-formed JSON faithful to the annotation.
//!
//! Case = a hostile `History` (ids, keys and values with quotes, backslashes, control characters, non-BMP
//! codepoints) + extra operations of this file's own (resources / annotations with further hostile ids, data in
//! IRI-named sets and in the W3C anno vocabulary, more hostile values) + an export configuration.
//! Every annotation of the final real store is exported with `ResultItem<Annotation>::to_webannotation` and the
//! output is judged by `serde_json` and compared with the annotation as the store's public API presents it.
//!
//! Everything the rustdoc of `WebAnnoConfig` / `IRI` / `to_webannotation` does not pin down is three-valued
//! (don't care, counted): the transformation applied to characters that are invalid in an IRI, whether a `/` is
//! inserted between a prefix and an identifier, whether an IRI-like string value is a plain string or `{"id":..}`,
//! whether W3C vocabulary predicates live at top level or in the body, the `type` strings of targets, the order of
//! non-text targets, namespace compaction (names are compared after JSON-LD style expansion).
//!
//! Triage aid: `C17_DUMP=1 check C17 --replay <file>` prints every exported document.

use crate::engine::*;
use crate::hist::*;
use crate::model::{MSel, Val};
use crate::observe::decode_selector;
use proptest::prelude::*;
use serde::{Deserialize, Serialize};
use serde_json::Value;
use stam::*;
use std::collections::BTreeMap;

pub struct C17;

pub const W3C_NS_ANNO: &str = "http://www.w3.org/ns/anno/";
pub const W3C_CONTEXT_ANNO: &str = "http://www.w3.org/ns/anno.jsonld";

// ------------------------------------------------------------------------------------------------
// pools

pub const IRI_PREFIXES: [&str; 7] = [
    "_:",
    "",
    "https://example.org/",
    "http://example.org/base#",
    "https://example.org/noslash",
    "urn:stam:",
    "https://example.org/a/",
];

/// (namespace prefix, uri prefix)
pub const NS_POOL: [(&str, &str); 6] = [
    ("ex", "http://example.org/"),
    ("my", "https://example.org/set/"),
    ("voc", "http://example.org/vocab#"),
    ("def", "_:"),
    ("base", "https://example.org/"),
    ("e2", "http://example.org/ty"),
];

pub const CTX_POOL: [&str; 3] = [
    "https://example.org/context.jsonld",
    "http://example.org/ctx2.jsonld",
    "https://example.org/c?a=1&b=2",
];

pub const TEMPLATES: [&str; 4] = [
    "{resource}/{begin}/{end}",
    "https://example.org/fetch?res={resource}&b={begin}&e={end}",
    "{resource}#char={begin},{end}",
    "https://example.org/static",
];

/// ids of the extra resources / annotations; `{n}` is replaced by a counter (keeps them unique)
pub const XIDS: [&str; 18] = [
    "x{n}",
    "x{n}",
    "https://example.org/res/{n}",
    "urn:stam:{n}",
    "file:///tmp/{n}",
    "x{n}\\",
    "x{n}\\u0041",
    "x{n}\\n",
    "x{n}\u{1}c",
    "x{n}\u{7f}",
    "x{n}\"q\"",
    "{n}\\\"",
    "x{n}\rz",
    "x{n}<>|^`",
    "日本{n}😀",
    "http://example.org/a b/{n}",
    "mailto:{n}@example.org",
    "x{n}/y#z",
];

/// dataset ids of the extra data (datasets are created on the fly)
pub const XSETS: [&str; 10] = [
    W3C_NS_ANNO,
    W3C_CONTEXT_ANNO,
    W3C_NS_ANNO,
    "https://example.org/set/",
    "http://example.org/vocab#",
    "https://example.org/ns",
    "plainset",
    "set \"q\"",
    "set\\b",
    "set\u{1}",
];

pub const ANNO_KEYS: [&str; 11] = [
    "motivation",
    "created",
    "creator",
    "generated",
    "generator",
    "type",
    "id",
    "value",
    "purpose",
    "format",
    "language",
];

pub const XKEYS: [&str; 14] = [
    "name",
    "http://example.org/vocab#pos",
    "https://example.org/set/lemma",
    "lemma",
    "k\"q",
    "k\\u0041",
    "k\\",
    "k\ttab",
    "k\nnl",
    "k\u{1}ctl",
    "ключ😀",
    "a/b",
    "with space",
    "urn:k:1",
];

pub const XSTRINGS: [&str; 30] = [
    "\r",
    "\u{8}",
    "\u{c}",
    "\u{0}",
    "\u{1f}",
    "\\",
    "\\\"",
    "\\n",
    "\\u0041",
    "x\\",
    "\"",
    "\"\"",
    "a\"b\\c\nd\te",
    "\u{2028}",
    "\u{7f}",
    "</script>",
    "\u{10FFFF}",
    "𝄞",
    "{\"a\":1}",
    "[1,2]",
    "a, b",
    " ",
    "urn:x",
    "_:b0",
    "file:///x",
    "mailto:x@y",
    "https://example.org/a\"b",
    "http://example.org/a\\b",
    "https://example.org/é😀",
    "http://example.org/with space",
];

pub const XALPHABET: [char; 24] = [
    '"', '\\', '/', '\n', '\r', '\t', '\u{1}', '\u{7f}', '\u{8}', 'é', '😀', 'a', 'b', '1', ':', '{', '}', '[', ']',
    ',', ' ', 'n', 'u', '\'',
];

// ------------------------------------------------------------------------------------------------
// case

#[derive(Clone, Debug, Serialize, Deserialize, PartialEq)]
pub struct CfgSpec {
    pub ann_iri: u8,
    pub set_iri: u8,
    pub res_iri: u8,
    pub namespaces: Vec<u8>,
    pub extra_context: Vec<u8>,
    pub template: Option<u8>,
    #[serde(default)]
    pub generate_ids: bool,
    #[serde(default)]
    pub auto_generated: bool,
    #[serde(default)]
    pub auto_generator: bool,
}

#[derive(Clone, Debug, Serialize, Deserialize, PartialEq)]
pub enum XTarget {
    Text { res: u16, off: OffSpec },
    Res { res: u16 },
    Set { set: u16 },
    Ann { ann: u16 },
    /// kind: 0 multi, 1 composite, 2 directional; text selections only (mixed shapes come from the history)
    Complex { kind: u8, parts: Vec<(u16, OffSpec)> },
}

#[derive(Clone, Debug, Serialize, Deserialize, PartialEq)]
pub struct XData {
    pub set: u8,
    pub key: u8,
    pub val: Val,
}

#[derive(Clone, Debug, Serialize, Deserialize, PartialEq)]
pub enum XOp {
    AddResource { id: u8, text: String },
    Annotate { id: Option<u8>, target: XTarget, data: Vec<XData> },
}

#[derive(Clone, Debug, Serialize, Deserialize, PartialEq)]
pub struct Case {
    pub hist: History,
    #[serde(default)]
    pub extras: Vec<XOp>,
    pub cfg: CfgSpec,
}

// ------------------------------------------------------------------------------------------------
// strategies

fn xstr() -> BoxedStrategy<String> {
    prop_oneof![
        3 => proptest::sample::select(XSTRINGS.to_vec()).prop_map(|s| s.to_string()),
        2 => proptest::collection::vec(proptest::sample::select(XALPHABET.to_vec()), 0..=8)
            .prop_map(|v| v.into_iter().collect::<String>()),
        1 => str_val_strategy(true),
    ]
    .boxed()
}

fn xleaf() -> BoxedStrategy<Val> {
    prop_oneof![
        6 => xstr().prop_map(Val::Str),
        5 => leaf_val_strategy(true),
        1 => proptest::sample::select(vec![0.1f64, 1e300, -1e-300, 2.5e-10, 123456.789, -1.0])
            .prop_map(Val::Float),
    ]
    .boxed()
}

fn xval() -> BoxedStrategy<Val> {
    let leaf = xleaf();
    prop_oneof![
        7 => leaf.clone(),
        2 => proptest::collection::vec(leaf.clone(), 0..=3).prop_map(Val::List),
        1 => proptest::collection::vec(
            prop_oneof![2 => leaf.clone(), 1 => proptest::collection::vec(leaf, 0..=2).prop_map(Val::List)],
            1..=3
        )
        .prop_map(Val::List),
    ]
    .boxed()
}

fn xdata() -> BoxedStrategy<XData> {
    (0u8..XSETS.len() as u8, 0u8..64, xval())
        .prop_map(|(set, key, val)| XData { set, key, val })
        .boxed()
}

fn xtarget() -> BoxedStrategy<XTarget> {
    prop_oneof![
        6 => (any::<u16>(), offspec_strategy()).prop_map(|(res, off)| XTarget::Text { res, off }),
        2 => any::<u16>().prop_map(|res| XTarget::Res { res }),
        1 => any::<u16>().prop_map(|set| XTarget::Set { set }),
        2 => any::<u16>().prop_map(|ann| XTarget::Ann { ann }),
        3 => (0u8..3, proptest::collection::vec((any::<u16>(), offspec_strategy()), 2..=4))
            .prop_map(|(kind, parts)| XTarget::Complex { kind, parts }),
    ]
    .boxed()
}

fn xop() -> BoxedStrategy<XOp> {
    prop_oneof![
        1 => (0u8..XIDS.len() as u8, text_strategy(12)).prop_map(|(id, text)| XOp::AddResource { id, text }),
        4 => (proptest::option::weighted(0.7, 0u8..XIDS.len() as u8), xtarget(), proptest::collection::vec(xdata(), 0..=3))
            .prop_map(|(id, target, data)| XOp::Annotate { id, target, data }),
    ]
    .boxed()
}

fn cfgspec() -> BoxedStrategy<CfgSpec> {
    let iri = || prop_oneof![2 => Just(0u8), 5 => 0u8..IRI_PREFIXES.len() as u8];
    (
        (iri(), iri(), iri()),
        prop_oneof![2 => Just(vec![]), 3 => proptest::collection::vec(0u8..NS_POOL.len() as u8, 1..=3)],
        prop_oneof![3 => Just(vec![]), 2 => proptest::collection::vec(0u8..CTX_POOL.len() as u8, 1..=2)],
        proptest::option::weighted(0.45, 0u8..TEMPLATES.len() as u8),
        proptest::bool::weighted(0.2),
        proptest::bool::weighted(0.2),
        proptest::bool::weighted(0.25),
    )
        .prop_map(
            |((ann_iri, set_iri, res_iri), mut namespaces, extra_context, template, generate_ids, auto_generated, auto_generator)| {
                namespaces.dedup();
                let mut seen = vec![];
                namespaces.retain(|n| {
                    if seen.contains(n) {
                        false
                    } else {
                        seen.push(*n);
                        true
                    }
                });
                CfgSpec {
                    ann_iri,
                    set_iri,
                    res_iri,
                    namespaces,
                    extra_context,
                    template,
                    generate_ids,
                    auto_generated,
                    auto_generator,
                }
            },
        )
        .boxed()
}

// ------------------------------------------------------------------------------------------------
// resolved configuration (plain data, independent of stam)

#[derive(Clone, Debug)]
pub struct Cfg {
    pub ann_iri: String,
    pub set_iri: String,
    pub res_iri: String,
    /// (namespace prefix, uri prefix)
    pub namespaces: Vec<(String, String)>,
    pub extra_context: Vec<String>,
    pub template: Option<String>,
    pub generate_ids: bool,
    pub auto_generated: bool,
    pub auto_generator: bool,
}

impl CfgSpec {
    pub fn resolve(&self) -> Cfg {
        let p = |i: u8| IRI_PREFIXES[i as usize % IRI_PREFIXES.len()].to_string();
        Cfg {
            ann_iri: p(self.ann_iri),
            set_iri: p(self.set_iri),
            res_iri: p(self.res_iri),
            namespaces: self
                .namespaces
                .iter()
                .map(|i| {
                    let (a, b) = NS_POOL[*i as usize % NS_POOL.len()];
                    (a.to_string(), b.to_string())
                })
                .collect(),
            extra_context: self
                .extra_context
                .iter()
                .map(|i| CTX_POOL[*i as usize % CTX_POOL.len()].to_string())
                .collect(),
            template: self.template.map(|i| TEMPLATES[i as usize % TEMPLATES.len()].to_string()),
            generate_ids: self.generate_ids,
            auto_generated: self.auto_generated,
            auto_generator: self.auto_generator,
        }
    }
}

impl Cfg {
    pub fn to_stam(&self) -> WebAnnoConfig {
        let mut c = WebAnnoConfig {
            default_annotation_iri: self.ann_iri.clone(),
            generate_annotation_iri: self.generate_ids,
            default_set_iri: self.set_iri.clone(),
            default_resource_iri: self.res_iri.clone(),
            extra_context: self.extra_context.clone(),
            auto_generated: self.auto_generated,
            auto_generator: self.auto_generator,
            extra_target_template: self.template.clone(),
            ..WebAnnoConfig::default()
        };
        for (prefix, uri) in &self.namespaces {
            c = c.with_namespace(prefix.clone(), uri.clone());
        }
        c
    }
    /// JSON-LD style expansion of a (possibly compacted) name: the name itself and, for `p:rest` with a configured
    /// namespace prefix `p`, the uri prefix + rest
    fn expansions(&self, name: &str) -> Vec<String> {
        let mut v = vec![name.to_string()];
        for (prefix, uri) in &self.namespaces {
            if let Some(rest) = name.strip_prefix(prefix.as_str()) {
                if let Some(rest) = rest.strip_prefix(':') {
                    v.push(format!("{}{}", uri, rest));
                }
            }
        }
        v
    }
}

// ------------------------------------------------------------------------------------------------
// character classes (signatures and labels name these, never concrete strings)

pub fn char_class(c: char) -> &'static str {
    match c {
        '"' => "quote",
        '\\' => "backslash",
        '\t' => "tab",
        '\n' => "newline",
        '\r' => "cr",
        c if (c as u32) < 0x20 => "control",
        '\u{7f}' => "del",
        c if (c as u32) > 0xFFFF => "nonbmp",
        c if !c.is_ascii() => "nonascii",
        _ => "plain",
    }
}

const CLASS_PRIORITY: [&str; 10] = [
    "control", "backslash", "quote", "newline", "cr", "tab", "del", "nonbmp", "nonascii", "plain",
];

/// the most dangerous character class present in a string
pub fn worst_class(s: &str) -> &'static str {
    if s.is_empty() {
        return "empty";
    }
    for cl in CLASS_PRIORITY {
        if s.chars().any(|c| char_class(c) == cl) {
            return cl;
        }
    }
    "plain"
}

fn classes_of(s: &str) -> Vec<&'static str> {
    let mut v = vec![];
    for c in s.chars() {
        let cl = char_class(c);
        if cl != "plain" && !v.contains(&cl) {
            v.push(cl);
        }
    }
    v
}

// ------------------------------------------------------------------------------------------------
// the documented IRI rule, three-valued

/// characters that are not allowed in an IRI (RFC 3987): the exporter "applies some transformations" to them, which
/// transformation is not documented
fn iri_unsafe(c: char) -> bool {
    c.is_control()
        || c == ' '
        || matches!(c, '"' | '<' | '>' | '\\' | '^' | '`' | '{' | '|' | '}')
        || c == '\u{2028}'
        || c == '\u{2029}'
}

#[derive(Clone, Copy, PartialEq, Eq, Debug)]
enum IdClass {
    /// certainly an IRI already: exported as is
    Iri,
    /// certainly not an IRI: the prefix is prepended
    Plain,
    /// has a colon but is not clearly an absolute IRI: either treatment is accepted
    Uncertain,
}

fn classify(id: &str) -> IdClass {
    if !id.contains(':') {
        return IdClass::Plain;
    }
    let scheme_ok = ["http://", "https://", "urn:", "file:"].iter().any(|p| id.starts_with(p));
    if scheme_ok && !id.chars().any(iri_unsafe) {
        IdClass::Iri
    } else {
        IdClass::Uncertain
    }
}

#[derive(Clone, Debug)]
enum Piece {
    /// one of these literal strings
    Alt(Vec<String>),
    /// an identifier: literally if it has no IRI-unsafe character, otherwise any span that keeps its safe
    /// characters in order (the transformation of the unsafe ones is not documented)
    Id(String),
}

fn is_subsequence(needle: &[char], hay: &[char]) -> bool {
    let mut i = 0;
    for c in hay {
        if i < needle.len() && *c == needle[i] {
            i += 1;
        }
    }
    i == needle.len()
}

fn match_pieces(pieces: &[Piece], s: &[char]) -> bool {
    match pieces.first() {
        None => s.is_empty(),
        Some(Piece::Alt(alts)) => alts.iter().any(|a| {
            let ac: Vec<char> = a.chars().collect();
            s.len() >= ac.len() && s[..ac.len()] == ac[..] && match_pieces(&pieces[1..], &s[ac.len()..])
        }),
        Some(Piece::Id(id)) => {
            let idc: Vec<char> = id.chars().collect();
            if !idc.iter().any(|c| iri_unsafe(*c)) {
                s.len() >= idc.len() && s[..idc.len()] == idc[..] && match_pieces(&pieces[1..], &s[idc.len()..])
            } else {
                let safe: Vec<char> = idc.iter().copied().filter(|c| !iri_unsafe(*c)).collect();
                // a transformation may drop, replace or percent-encode unsafe characters; it may not invent control
                // characters the identifier did not contain
                for cut in 0..=s.len() {
                    let span = &s[..cut];
                    if span.iter().any(|c| c.is_control() && !idc.contains(c)) {
                        break;
                    }
                    if is_subsequence(&safe, span) && match_pieces(&pieces[1..], &s[cut..]) {
                        return true;
                    }
                }
                false
            }
        }
    }
}

type Pattern = Vec<Piece>;

fn matches_any(patterns: &[Pattern], s: &str) -> bool {
    let sc: Vec<char> = s.chars().collect();
    patterns.iter().any(|p| match_pieces(p, &sc))
}

fn ends_with_sep(s: &str) -> bool {
    matches!(s.chars().last(), Some('/') | Some('#') | Some(':'))
}

/// "IRI prefix ... Will be prepended if the public ID is not an IRI yet": prefix directly followed by the id; when
/// the prefix has no trailing separator a `/` in between is accepted as well; an empty prefix may become `_:`
fn prefix_alts(prefix: &str) -> Vec<String> {
    if prefix.is_empty() {
        vec!["_:".to_string(), String::new()]
    } else if ends_with_sep(prefix) {
        vec![prefix.to_string()]
    } else {
        vec![format!("{}/", prefix), prefix.to_string()]
    }
}

/// acceptable exported IRIs of an item with public id `id` under `prefix`
fn iri_patterns(prefix: &str, id: &str) -> Vec<Pattern> {
    let asis = vec![Piece::Alt(vec![id.to_string()])];
    let prefixed = vec![Piece::Alt(prefix_alts(prefix)), Piece::Id(id.to_string())];
    match classify(id) {
        IdClass::Iri => vec![asis],
        IdClass::Plain => vec![prefixed],
        IdClass::Uncertain => vec![asis, prefixed],
    }
}

/// acceptable predicates of key `key` in set `set`: the key itself if it is an IRI, else the IRI of the set followed by the key
fn predicate_patterns(cfg: &Cfg, set: &str, key: &str) -> Vec<Pattern> {
    let mut out = vec![];
    let kc = classify(key);
    if kc != IdClass::Plain {
        out.push(vec![Piece::Alt(vec![key.to_string()])]);
    }
    if kc != IdClass::Iri {
        let sep = if ends_with_sep(set) {
            vec![String::new()]
        } else {
            vec!["/".to_string(), String::new()]
        };
        for sp in iri_patterns(&cfg.set_iri, set) {
            let mut p = sp.clone();
            p.push(Piece::Alt(sep.clone()));
            p.push(Piece::Id(key.to_string()));
            out.push(p);
        }
    }
    out
}

// ------------------------------------------------------------------------------------------------
// value comparison

struct Mismatch {
    facet: &'static str,
    sig: String,
    detail: String,
}

fn json_type(j: &Value) -> &'static str {
    match j {
        Value::Null => "null",
        Value::Bool(_) => "bool",
        Value::Number(_) => "number",
        Value::String(_) => "string",
        Value::Array(_) => "array",
        Value::Object(_) => "object",
    }
}

fn string_diff_class(expected: &str, got: &str) -> &'static str {
    let e: Vec<char> = expected.chars().collect();
    let g: Vec<char> = got.chars().collect();
    for i in 0..e.len() {
        if i >= g.len() || g[i] != e[i] {
            return char_class(e[i]);
        }
    }
    "trailing"
}

fn short(s: &str) -> String {
    let mut t: String = s.chars().take(300).collect();
    if t.len() < s.len() {
        t.push('…');
    }
    t
}

/// does the JSON value carry `v` with the same JSON type and content? `checks`/`dontcare` are counted by the caller
fn cmp_val(v: &Val, j: &Value, dontcare: &mut u64) -> Result<(), Mismatch> {
    let type_mismatch = |facet: &'static str, what: &str| Mismatch {
        facet,
        sig: format!("{}|type|got={}", what, json_type(j)),
        detail: format!("value {:?} exported as JSON {} {}", v, json_type(j), short(&j.to_string())),
    };
    match v {
        Val::Null => {
            if j.is_null() {
                Ok(())
            } else {
                Err(type_mismatch("body.null", "null"))
            }
        }
        Val::Bool(b) => match j.as_bool() {
            Some(x) if x == *b => Ok(()),
            Some(_) => Err(Mismatch {
                facet: "body.bool",
                sig: "bool|content".into(),
                detail: format!("value {:?} exported as {}", v, j),
            }),
            None => Err(type_mismatch("body.bool", "bool")),
        },
        Val::Int(i) => {
            if !j.is_number() {
                return Err(type_mismatch("body.number", "int"));
            }
            let exact = j.as_i64() == Some(*i);
            let as_float = i.unsigned_abs() < (1u64 << 53) && j.as_f64() == Some(*i as f64);
            if exact || as_float {
                Ok(())
            } else {
                Err(Mismatch {
                    facet: "body.number",
                    sig: "int|content".into(),
                    detail: format!("value {:?} exported as {}", v, j),
                })
            }
        }
        Val::Float(f) => {
            if !j.is_number() {
                return Err(type_mismatch("body.number", "float"));
            }
            let g = j.as_f64().unwrap_or(f64::NAN);
            // tolerance: serde_json's default float parser may be off by an ULP on long inputs
            let tol = 8.0 * f64::EPSILON * f.abs().max(g.abs());
            if (g - f).abs() <= tol {
                Ok(())
            } else {
                Err(Mismatch {
                    facet: "body.number",
                    sig: "float|content".into(),
                    detail: format!("value {:?} exported as {}", v, j),
                })
            }
        }
        Val::Str(s) => {
            let got: &str = match j {
                Value::String(t) => t.as_str(),
                // a string with a space, tab, newline or double quote is certainly no valid IRI (RFC 3987) and has to stay a string
                Value::Object(m) if s.contains(':') && m.len() == 1 && !s.chars().any(|c| c == ' ' || c == '\t' || c == '\n' || c == '"') => {
                    // "Any String value that is a valid IRI SHOULD be interpreted as such": {"id": iri}
                    match m.get("id").or_else(|| m.get("@id")) {
                        Some(Value::String(t)) => {
                            *dontcare += 1;
                            t.as_str()
                        }
                        _ => return Err(type_mismatch("body.string", "string")),
                    }
                }
                _ => return Err(type_mismatch("body.string", "string")),
            };
            if got == s {
                Ok(())
            } else {
                Err(Mismatch {
                    facet: "body.string",
                    sig: format!("{}|{}", if s.contains(':') { "iri-like" } else { "string" }, string_diff_class(s, got)),
                    detail: format!("string {:?} exported as {:?}", s, short(got)),
                })
            }
        }
        Val::Dt(s) => {
            let Value::String(t) = j else {
                return Err(type_mismatch("body.datetime", "datetime"));
            };
            let a = chrono::DateTime::parse_from_rfc3339(s);
            let b = chrono::DateTime::parse_from_rfc3339(t);
            match (a, b) {
                (Ok(a), Ok(b)) if a == b => Ok(()),
                (Ok(_), Ok(_)) => Err(Mismatch {
                    facet: "body.datetime",
                    sig: "datetime|instant".into(),
                    detail: format!("datetime {} exported as {:?}", s, t),
                }),
                _ => Err(Mismatch {
                    facet: "body.datetime",
                    sig: "datetime|not-rfc3339".into(),
                    detail: format!("datetime {} exported as {:?}, which is not RFC 3339", s, short(t)),
                }),
            }
        }
        Val::List(items) => {
            let Value::Array(arr) = j else {
                return Err(type_mismatch("body.list", if items.is_empty() { "list-empty" } else { "list" }));
            };
            if arr.len() != items.len() {
                return Err(Mismatch {
                    facet: "body.list",
                    sig: "list|length".into(),
                    detail: format!("list of {} items {:?} exported as array of {}: {}", items.len(), v, arr.len(), short(&j.to_string())),
                });
            }
            for (x, y) in items.iter().zip(arr.iter()) {
                if let Err(m) = cmp_val(x, y, dontcare) {
                    return Err(Mismatch {
                        facet: "body.list",
                        sig: format!("list|{}", m.sig),
                        detail: format!("in list {:?}: {}", v, m.detail),
                    });
                }
            }
            Ok(())
        }
    }
}

// ------------------------------------------------------------------------------------------------
// features of an annotation (labels, non-triviality, diagnosis of malformed output)

#[derive(Default)]
struct Features {
    /// (where, class) e.g. ("value","backslash"), ("key","quote"), ("id","control"), ("value","datetime")
    items: Vec<(&'static str, &'static str)>,
}

impl Features {
    fn add(&mut self, wher: &'static str, class: &'static str) {
        if !self.items.contains(&(wher, class)) {
            self.items.push((wher, class));
        }
    }
    fn add_str(&mut self, wher: &'static str, s: &str) {
        for cl in classes_of(s) {
            self.add(wher, cl);
        }
    }
    fn add_val(&mut self, v: &Val, depth: usize) {
        match v {
            Val::Str(s) => {
                self.add_str("value", s);
                if s.contains(':') {
                    self.add("value", "iri-like");
                }
                self.add("value", "string");
            }
            Val::Null => self.add("value", "null"),
            Val::Bool(_) => self.add("value", "bool"),
            Val::Int(_) => self.add("value", "int"),
            Val::Float(_) => self.add("value", "float"),
            Val::Dt(_) => self.add("value", "datetime"),
            Val::List(items) => {
                if items.is_empty() {
                    self.add("value", "list-empty");
                } else if depth > 0 {
                    self.add("value", "list-nested");
                } else if items.len() == 1 {
                    self.add("value", "list-single");
                } else {
                    self.add("value", "list");
                }
                if depth == 0 && items.iter().any(|x| matches!(x, Val::List(_))) {
                    self.add("value", "list-nested");
                }
                for x in items {
                    self.add_val(x, depth + 1);
                }
            }
        }
    }
    fn has(&self, wher: &str, class: &str) -> bool {
        self.items.iter().any(|(w, c)| *w == wher && *c == class)
    }
    /// root-cause class for output that is not well-formed: the first feature present, in order of how certainly it
    /// needs care when a JSON document is assembled from strings
    fn diagnose(&self) -> String {
        const ORDER: [(&str, &str); 26] = [
            ("value", "datetime"),
            ("value", "list-empty"),
            ("value", "list-nested"),
            ("value", "list"),
            ("value", "list-single"),
            ("value", "control"),
            ("key", "control"),
            ("id", "control"),
            ("value", "backslash"),
            ("key", "backslash"),
            ("id", "backslash"),
            ("key", "quote"),
            ("id", "quote"),
            ("value", "quote"),
            ("key", "newline"),
            ("value", "newline"),
            ("value", "cr"),
            ("key", "cr"),
            ("id", "cr"),
            ("value", "tab"),
            ("key", "tab"),
            ("id", "tab"),
            ("target", "skipped-subselector"),
            ("toplevel", "anno-predicate"),
            ("config", "extra_context"),
            ("config", "template"),
        ];
        for (w, c) in ORDER {
            if self.has(w, c) {
                return format!("{}|{}", w, c);
            }
        }
        "other".to_string()
    }
    fn nontrivial(&self) -> bool {
        self.items.iter().any(|(w, c)| {
            matches!(*c, "control" | "backslash" | "quote" | "newline" | "cr" | "tab")
                || (*w == "value"
                    && matches!(
                        *c,
                        "null" | "bool" | "int" | "float" | "datetime" | "list" | "list-empty" | "list-single" | "list-nested"
                    ))
        })
    }
}

// ------------------------------------------------------------------------------------------------
// reading the exported target

#[derive(Default, Debug)]
struct TargetObs {
    /// (source, start, end) of every object with `source` and `selector`, in document order
    texts: Vec<(String, Option<u64>, Option<u64>)>,
    /// `id` of every other object that has one (null for JSON null), in document order
    refs: Vec<Option<String>>,
    /// bare strings (extra targets from the template), in document order
    strings: Vec<String>,
    /// structural oddities
    odd: Vec<String>,
}

fn walk_target(v: &Value, obs: &mut TargetObs) {
    match v {
        Value::Array(items) => {
            for x in items {
                walk_target(x, obs);
            }
        }
        Value::String(s) => obs.strings.push(s.clone()),
        Value::Object(m) => {
            if m.contains_key("source") || m.contains_key("selector") {
                let source = match m.get("source") {
                    Some(Value::String(s)) => s.clone(),
                    other => {
                        obs.odd.push(format!("source is {:?}", other));
                        String::new()
                    }
                };
                let sel = m.get("selector");
                let start = sel.and_then(|s| s.get("start")).and_then(|x| x.as_u64());
                let end = sel.and_then(|s| s.get("end")).and_then(|x| x.as_u64());
                obs.texts.push((source, start, end));
            } else if let Some(items) = m.get("items") {
                walk_target(items, obs);
            } else if let Some(id) = m.get("id") {
                match id {
                    Value::String(s) => obs.refs.push(Some(s.clone())),
                    Value::Null => obs.refs.push(None),
                    other => obs.odd.push(format!("id is {}", other)),
                }
            } else {
                obs.odd.push(format!("object without source, items or id: {}", short(&v.to_string())));
            }
        }
        other => obs.odd.push(format!("unexpected {} in target", json_type(other))),
    }
}

// ------------------------------------------------------------------------------------------------
// applying the extra operations to the real store

fn xid(i: u8, counter: &mut usize) -> String {
    *counter += 1;
    XIDS[i as usize % XIDS.len()].replace("{n}", &counter.to_string())
}

fn xkey(set: &str, key: u8) -> &'static str {
    if set == W3C_NS_ANNO || set == W3C_CONTEXT_ANNO {
        ANNO_KEYS[key as usize % ANNO_KEYS.len()]
    } else {
        XKEYS[key as usize % XKEYS.len()]
    }
}

/// returns false when the store panicked (the case is abandoned: not this property's business)
fn apply_extra(store: &mut AnnotationStore, op: &XOp, counter: &mut usize, out: &mut Outcome) -> bool {
    match op {
        XOp::AddResource { id, text } => {
            let id = xid(*id, counter);
            match catch(|| store.add_resource(TextResourceBuilder::new().with_id(id).with_text(text.clone()))) {
                Ok(Ok(_)) => out.label("extra:add_resource"),
                Ok(Err(_)) => out.label("extra:rejected"),
                Err(_) => return false,
            }
        }
        XOp::Annotate { id, target, data } => {
            let resources: Vec<(TextResourceHandle, usize)> = store.resources().map(|r| (r.handle(), r.textlen())).collect();
            let sets: Vec<AnnotationDataSetHandle> = store.datasets().map(|s| s.handle()).collect();
            let anns: Vec<AnnotationHandle> = store.annotations().map(|a| a.handle()).collect();
            let text_sel = |res: u16, off: &OffSpec| -> Option<SelectorBuilder<'static>> {
                if resources.is_empty() {
                    return None;
                }
                let (h, len) = resources[pick(res, resources.len())];
                Some(SelectorBuilder::TextSelector(BuildItem::Handle(h), off.to_offset(len)))
            };
            let tb: Option<SelectorBuilder<'static>> = match target {
                XTarget::Text { res, off } => text_sel(*res, off),
                XTarget::Res { res } => {
                    if resources.is_empty() {
                        None
                    } else {
                        Some(SelectorBuilder::ResourceSelector(BuildItem::Handle(resources[pick(*res, resources.len())].0)))
                    }
                }
                XTarget::Set { set } => {
                    if sets.is_empty() {
                        None
                    } else {
                        Some(SelectorBuilder::DataSetSelector(BuildItem::Handle(sets[pick(*set, sets.len())])))
                    }
                }
                XTarget::Ann { ann } => {
                    if anns.is_empty() {
                        None
                    } else {
                        Some(SelectorBuilder::AnnotationSelector(BuildItem::Handle(anns[pick(*ann, anns.len())]), None))
                    }
                }
                XTarget::Complex { kind, parts } => {
                    let subs: Vec<SelectorBuilder<'static>> = parts.iter().filter_map(|(r, o)| text_sel(*r, o)).collect();
                    if subs.len() < 2 {
                        None
                    } else {
                        Some(match kind % 3 {
                            0 => SelectorBuilder::MultiSelector(subs),
                            1 => SelectorBuilder::CompositeSelector(subs),
                            _ => SelectorBuilder::DirectionalSelector(subs),
                        })
                    }
                }
            };
            let Some(tb) = tb else {
                out.label("extra:no_referent");
                return true;
            };
            let mut b = AnnotationBuilder::new().with_target(tb);
            if let Some(i) = id {
                b = b.with_id(xid(*i, counter));
            }
            for d in data {
                let set = XSETS[d.set as usize % XSETS.len()];
                let key = xkey(set, d.key);
                b = b.with_data_builder(
                    AnnotationDataBuilder::new()
                        .with_dataset(BuildItem::Id(set.to_string()))
                        .with_key(BuildItem::Id(key.to_string()))
                        .with_value(d.val.to_stam()),
                );
            }
            match catch(|| store.annotate(b)) {
                Ok(Ok(_)) => out.label("extra:annotate"),
                Ok(Err(_)) => out.label("extra:rejected"),
                Err(_) => return false,
            }
        }
    }
    true
}

// ------------------------------------------------------------------------------------------------
// the oracle for one annotation

fn is_anno_set(id: &str) -> bool {
    id == W3C_NS_ANNO || id == W3C_CONTEXT_ANNO
}

struct Datum {
    set: String,
    key: String,
    val: Val,
}

fn check_annotation(store: &AnnotationStore, a: &ResultItem<Annotation>, cfg: &Cfg, wcfg: &WebAnnoConfig, out: &mut Outcome) -> bool {
    // ---- the annotation as the public API presents it
    let mut ranged = false;
    let target = decode_selector(store, a.as_ref().target(), &mut ranged);
    let kind = target.kind();
    out.label(&format!("sel:{}", kind));
    if ranged {
        out.label("sel:ranged-internally");
    }
    let ann_id: Option<String> = a.id().map(|s| s.to_string());
    let tsels: Vec<(String, usize, usize)> = a
        .textselections()
        .map(|t| (t.resource().id().unwrap_or("").to_string(), t.begin(), t.end()))
        .collect();
    let data: Vec<Datum> = a
        .data()
        .map(|d| Datum {
            set: d.set().id().unwrap_or("").to_string(),
            key: d.key().id().unwrap_or("").to_string(),
            val: Val::from_stam(d.value()),
        })
        .collect();
    let res_id = |r: usize| -> String {
        store
            .resource(TextResourceHandle::new(r))
            .and_then(|r| r.id().map(|s| s.to_string()))
            .unwrap_or_default()
    };
    let set_id = |s: usize| -> String {
        store
            .dataset(AnnotationDataSetHandle::new(s))
            .and_then(|r| r.id().map(|s| s.to_string()))
            .unwrap_or_default()
    };

    // ---- features
    let mut feat = Features::default();
    if let Some(id) = &ann_id {
        feat.add_str("id", id);
    }
    for (rid, _, _) in &tsels {
        feat.add_str("id", rid);
    }
    let mut idless_target = false;
    // expected non-text referents: (what, patterns)
    let mut exp_refs: Vec<(&'static str, Vec<Pattern>, String)> = vec![];
    for leaf in target.leaves() {
        match leaf {
            MSel::Res(r) => {
                let id = res_id(*r);
                feat.add_str("id", &id);
                exp_refs.push(("resource", iri_patterns(&cfg.res_iri, &id), id));
            }
            MSel::Set(s) => {
                let id = set_id(*s);
                feat.add_str("id", &id);
                exp_refs.push(("dataset", iri_patterns(&cfg.set_iri, &id), id));
            }
            MSel::Ann { ann, text: None } => {
                match store.annotation(AnnotationHandle::new(*ann)).and_then(|x| x.id().map(|s| s.to_string())) {
                    Some(id) => {
                        feat.add_str("id", &id);
                        exp_refs.push(("annotation", iri_patterns(&cfg.ann_iri, &id), id));
                    }
                    None => idless_target = true,
                }
            }
            MSel::Key(..) | MSel::Data(..) => {
                if target.is_complex() {
                    feat.add("target", "skipped-subselector");
                }
            }
            _ => {}
        }
    }
    let mut toplevel_anno = false;
    for d in &data {
        feat.add_val(&d.val, 0);
        feat.add_str("key", &d.key);
        feat.add_str("id", &d.set);
        if is_anno_set(&d.set) {
            if matches!(d.key.as_str(), "generated" | "generator" | "motivation" | "created" | "creator") {
                feat.add("toplevel", "anno-predicate");
                toplevel_anno = true;
            } else {
                out.label("anno:body");
            }
        }
    }
    if toplevel_anno {
        out.label("anno:toplevel");
    }
    if !cfg.extra_context.is_empty() {
        feat.add("config", "extra_context");
    }
    if cfg.template.is_some() && !tsels.is_empty() {
        feat.add("config", "template");
        out.label("tpl:used");
        if target.is_complex() {
            out.label("tpl:complex");
        }
    }
    for (w, c) in &feat.items {
        match *w {
            "value" => out.label(&format!("val:{}", c)),
            "key" => out.label(&format!("chr:key:{}", c)),
            "id" => out.label(&format!("chr:id:{}", c)),
            _ => {}
        }
    }
    if feat.has("target", "skipped-subselector") {
        out.label("sel:complex-with-key-or-data");
    }

    // ---- export
    let exported = match catch(|| a.to_webannotation(wcfg)) {
        Ok(s) => s,
        Err(p) => {
            out.fail(
                "panic",
                p.signature(),
                format!("to_webannotation panicked at {}:{}: {} ({} target)", p.file, p.line, p.msg, kind),
            );
            return feat.nontrivial();
        }
    };
    if std::env::var_os("C17_DUMP").is_some() {
        // triage aid for replays: show what was exported (does not influence the verdict)
        println!("  export of {} {:?}: {}", kind, ann_id, exported);
    }
    out.checks += 1;
    let may_decline = matches!(target, MSel::Key(..) | MSel::Data(..));
    if exported.is_empty() {
        out.label("declined");
        if !may_decline {
            out.fail(
                "declined",
                kind,
                format!("to_webannotation returned nothing for an annotation with a {}", kind),
            );
        }
        return false;
    }
    if may_decline {
        out.dontcare += 1;
    }

    // ---- "the JSON output will be on a single line" (rustdoc of to_webannotation)
    out.checks += 1;
    if exported.contains('\n') {
        out.fail("wellformed.single-line", feat.diagnose(), format!("output contains a raw newline: {:?}", short(&exported)));
    }
    // ---- facet wellformed: exactly one JSON object
    let json: Value = match serde_json::from_str(&exported) {
        Ok(v) => v,
        Err(e) => {
            out.fail(
                "wellformed",
                feat.diagnose(),
                format!("not well-formed JSON ({}): {}", e, short(&exported)),
            );
            return feat.nontrivial();
        }
    };
    let Value::Object(top) = &json else {
        out.fail("wellformed", "not-an-object", format!("output is a JSON {}: {}", json_type(&json), short(&exported)));
        return feat.nontrivial();
    };
    out.label("exported");

    // ---- top level: type, id, @context
    out.checks += 1;
    let type_ok = match top.get("type") {
        Some(Value::String(s)) => s == "Annotation",
        Some(Value::Array(v)) => v.iter().any(|x| x == "Annotation"),
        _ => false,
    };
    if !type_ok && !data.iter().any(|d| is_anno_set(&d.set) && d.key == "type") {
        out.fail("toplevel.type", "type", format!("top-level type is {:?}: {}", top.get("type"), short(&exported)));
    }
    match (&ann_id, top.get("id")) {
        (Some(id), Some(Value::String(got))) => {
            out.checks += 1;
            if !matches_any(&iri_patterns(&cfg.ann_iri, id), got) {
                out.fail(
                    "toplevel.id",
                    format!("annotation|{}", id_sig(id)),
                    format!("annotation id {:?} with prefix {:?} exported as {:?}", id, cfg.ann_iri, got),
                );
            }
        }
        (Some(id), other) => {
            out.checks += 1;
            if !data.iter().any(|d| is_anno_set(&d.set) && d.key == "id") {
                out.fail(
                    "toplevel.id",
                    format!("annotation|{}|absent", id_sig(id)),
                    format!("annotation id {:?} exported as {:?}", id, other),
                );
            }
        }
        (None, Some(Value::String(got))) if cfg.generate_ids => {
            out.checks += 1;
            let alts = prefix_alts(&cfg.ann_iri);
            if !alts.iter().any(|p| got.starts_with(p.as_str())) {
                out.fail("toplevel.id", "generated|prefix", format!("generated id {:?} lacks the prefix {:?}", got, cfg.ann_iri));
            }
        }
        (None, None) if cfg.generate_ids => {
            out.checks += 1;
            out.fail("toplevel.id", "generated|absent", "generate_annotation_iri is set but the output has no id".to_string());
        }
        _ => out.dontcare += 1,
    }
    check_context(top.get("@context"), cfg, out);

    // ---- facet target.*
    match top.get("target") {
        None => out.fail("target.text", format!("{}|absent", kind), format!("no target in {}", short(&exported))),
        Some(t) => {
            let (primary, extra): (&Value, &[Value]) = match (cfg.template.is_some(), t) {
                (true, Value::Array(v)) if !v.is_empty() => (&v[0], &v[1..]),
                _ => (t, &[]),
            };
            let mut obs = TargetObs::default();
            walk_target(primary, &mut obs);
            let mut xobs = TargetObs::default();
            for x in extra {
                walk_target(x, &mut xobs);
            }
            for o in obs.odd.iter().chain(xobs.odd.iter()) {
                out.fail("target.shape", kind, format!("{} in target of {}", o, short(&exported)));
            }
            // text selections, in order
            out.checks += 1;
            let mut sources_ok = obs.texts.len() == tsels.len();
            if obs.texts.len() != tsels.len() {
                out.fail(
                    "target.text",
                    format!("{}|count", kind),
                    format!("annotation has {} text selections {:?}, target names {}: {}", tsels.len(), tsels, obs.texts.len(), short(&t.to_string())),
                );
            } else {
                for ((rid, b, e), (src, start, end)) in tsels.iter().zip(obs.texts.iter()) {
                    out.checks += 2;
                    if *start != Some(*b as u64) || *end != Some(*e as u64) {
                        out.fail(
                            "target.text",
                            format!("{}|offsets", kind),
                            format!("text selections {:?} exported as {:?}", tsels, obs.texts),
                        );
                    }
                    if !matches_any(&iri_patterns(&cfg.res_iri, rid), src) {
                        sources_ok = false;
                        out.fail(
                            "target.text",
                            format!("{}|source|{}", kind, id_sig(rid)),
                            format!("resource {:?} with prefix {:?} exported as source {:?}", rid, cfg.res_iri, src),
                        );
                    }
                }
            }
            // extra targets from the template
            match &cfg.template {
                Some(tpl) => {
                    if sources_ok {
                        let expected: Vec<String> = tsels
                            .iter()
                            .zip(obs.texts.iter())
                            .map(|((_, b, e), (src, _, _))| {
                                tpl.replace("{resource}", src).replace("{begin}", &b.to_string()).replace("{end}", &e.to_string())
                            })
                            .collect();
                        out.checks += 1;
                        let mut got = obs.strings.clone();
                        got.extend(xobs.strings.iter().cloned());
                        if got != expected {
                            out.fail(
                                "target.template",
                                format!("{}|{}", kind, tsels.iter().map(|t| worst_class(&t.0)).max_by_key(|c| class_rank(c)).unwrap_or("none")),
                                format!("template {:?}: expected extra targets {:?}, got {:?} in {}", tpl, expected, got, short(&t.to_string())),
                            );
                        }
                    }
                }
                None => {
                    out.checks += 1;
                    if !obs.strings.is_empty() {
                        out.fail("target.shape", format!("{}|strings", kind), format!("bare strings {:?} in target without template", obs.strings));
                    }
                }
            }
            // other referents (order and type strings are not documented: compared as multisets of ids)
            if idless_target {
                out.dontcare += 1;
                out.label("target:idless-annotation");
            } else {
                out.checks += 1;
                let mut unused: Vec<&Option<String>> = obs.refs.iter().collect();
                let mut missing = false;
                for (what, pats, id) in &exp_refs {
                    let pos = unused.iter().position(|r| match r {
                        Some(s) => matches_any(pats, s),
                        None => false,
                    });
                    match pos {
                        Some(i) => {
                            unused.remove(i);
                        }
                        None => {
                            missing = true;
                            out.fail(
                                "target.ref",
                                format!("{}|{}|{}", kind, what, id_sig(id)),
                                format!(
                                    "targeted {} {:?} (prefixes: annotation {:?}, set {:?}, resource {:?}) not named by the target (ids found: {:?}) in {}",
                                    what,
                                    id,
                                    cfg.ann_iri,
                                    cfg.set_iri,
                                    cfg.res_iri,
                                    obs.refs,
                                    short(&t.to_string())
                                ),
                            )
                        }
                    }
                }
                if !unused.is_empty() && !missing {
                    out.fail(
                        "target.ref",
                        format!("{}|surplus", kind),
                        format!("target names {:?} which the annotation does not target: {}", unused, short(&t.to_string())),
                    );
                }
            }
        }
    }

    // ---- facet body.*
    let body = top.get("body");
    let body_obj: Option<&serde_json::Map<String, Value>> = match body {
        Some(Value::Object(m)) => Some(m),
        Some(other) => {
            out.fail("body.shape", "not-an-object", format!("body is a JSON {}", json_type(other)));
            None
        }
        None => None,
    };
    // predicate identity: annotations with two data of the same predicate are excluded (JSON object semantics)
    let ident = |d: &Datum| -> String {
        if is_anno_set(&d.set) {
            format!("anno\u{0}{}", d.key)
        } else {
            format!("{}\u{0}{}", d.set, d.key)
        }
    };
    let mut idents: Vec<String> = data.iter().map(ident).collect();
    idents.sort();
    let dup = idents.windows(2).any(|w| w[0] == w[1]);
    if dup {
        out.label("dup_predicate");
        out.dontcare += data.len() as u64;
    } else if !data.is_empty() {
        // candidate members: (location, name, value)
        let mut members: Vec<(&'static str, &String, &Value)> = vec![];
        if let Some(m) = body_obj {
            for (k, v) in m {
                members.push(("body", k, v));
            }
        }
        for (k, v) in top {
            if k != "body" && k != "target" && k != "@context" {
                members.push(("top", k, v));
            }
        }
        // which members can carry which datum?
        let mut cands: Vec<Vec<usize>> = vec![];
        for d in &data {
            let mut c = vec![];
            if is_anno_set(&d.set) {
                // W3C vocabulary: the key is the predicate; top level or body
                let in_body: Vec<usize> = members
                    .iter()
                    .enumerate()
                    .filter(|(_, (loc, name, _))| *loc == "body" && **name == d.key)
                    .map(|(i, _)| i)
                    .collect();
                if !in_body.is_empty() {
                    c = in_body;
                } else {
                    c = members
                        .iter()
                        .enumerate()
                        .filter(|(_, (loc, name, _))| *loc == "top" && **name == d.key)
                        .map(|(i, _)| i)
                        .collect();
                }
            } else {
                let pats = predicate_patterns(cfg, &d.set, &d.key);
                for (i, (loc, name, _)) in members.iter().enumerate() {
                    if *loc != "body" {
                        continue;
                    }
                    let exps = cfg.expansions(name);
                    if exps.iter().any(|n| matches_any(&pats, n)) {
                        if exps.len() > 1 && !matches_any(&pats, name) {
                            out.label("ns:compacted");
                        }
                        c.push(i);
                    }
                }
            }
            cands.push(c);
        }
        for (di, d) in data.iter().enumerate() {
            let c = &cands[di];
            out.checks += 1;
            if c.is_empty() {
                out.fail(
                    "body.missing",
                    format!("{}|key={}|set={}", if is_anno_set(&d.set) { "anno" } else { "custom" }, id_sig(&d.key), id_sig(&d.set)),
                    format!(
                        "no member for key {:?} of set {:?} (value {:?}) in body/top level; members: {:?}",
                        d.key,
                        d.set,
                        d.val,
                        members.iter().map(|(l, n, _)| format!("{}:{}", l, n)).collect::<Vec<_>>()
                    ),
                );
                continue;
            }
            // ambiguous when another datum competes for the same member or several members match
            let contested = c.len() > 1 || cands.iter().enumerate().any(|(dj, cj)| dj != di && cj.iter().any(|m| c.contains(m)));
            if contested {
                out.dontcare += 1;
                out.label("body:ambiguous-predicate");
                continue;
            }
            let (loc, name, jv) = members[c[0]];
            if let Err(m) = cmp_val(&d.val, jv, &mut out.dontcare) {
                out.fail(
                    m.facet,
                    m.sig,
                    format!("key {:?} of set {:?} exported as {} member {:?}: {}", d.key, d.set, loc, name, m.detail),
                );
            }
        }
    }
    feat.nontrivial()
}

fn class_rank(c: &str) -> usize {
    CLASS_PRIORITY.iter().position(|x| *x == c).map(|i| CLASS_PRIORITY.len() - i).unwrap_or(0)
}

/// signature token of an identifier: its IRI class and its most dangerous character class
fn id_sig(id: &str) -> String {
    let c = match classify(id) {
        IdClass::Iri => "iri",
        IdClass::Plain => "plain",
        IdClass::Uncertain => "iri-like",
    };
    format!("{}:{}", c, worst_class(id))
}

fn check_context(ctx: Option<&Value>, cfg: &Cfg, out: &mut Outcome) {
    out.checks += 1;
    let Some(ctx) = ctx else {
        out.fail("context", "absent", "no @context".to_string());
        return;
    };
    let members: Vec<&Value> = match ctx {
        Value::Array(v) => v.iter().collect(),
        other => vec![other],
    };
    if !members.iter().any(|m| m.as_str() == Some(W3C_CONTEXT_ANNO)) {
        out.fail("context", "anno", format!("@context {} lacks {}", ctx, W3C_CONTEXT_ANNO));
    }
    for c in &cfg.extra_context {
        out.checks += 1;
        if !members.iter().any(|m| m.as_str() == Some(c.as_str())) {
            out.fail("context", "extra_context", format!("@context {} lacks the extra context {:?}", ctx, c));
        }
    }
    for (prefix, uri) in &cfg.namespaces {
        out.checks += 1;
        let found = members
            .iter()
            .any(|m| m.as_object().and_then(|o| o.get(prefix)).and_then(|v| v.as_str()) == Some(uri.as_str()));
        if !found {
            out.fail("context", "namespace", format!("@context {} lacks the alias {:?}: {:?}", ctx, prefix, uri));
        }
    }
}

// ------------------------------------------------------------------------------------------------

impl Property for C17 {
    type Case = Case;
    fn id(&self) -> &'static str {
        "C17"
    }
    fn rule(&self) -> String {
        "case = (hostile history, extra operations, export configuration). The history (add-resource / add-dataset / insert-data / annotate with all nine selector kinds / removals / protect-text; ids, keys and string values drawn from alphabets with quotes, backslashes, tabs, newlines, control characters, non-BMP codepoints, IRIs and number look-alikes; values of every type incl. nested lists and datetimes) is run through the model-based machine and only the final real store is used; the extra operations add resources and annotations whose ids come from a second hostile pool (trailing backslash, \\u escapes, CR, DEL, IRIs, IRI look-alikes), with data in IRI-named datasets, in the W3C anno vocabulary (motivation/created/creator/generated/generator/type/id/...) and with further hostile values. Every annotation of the final store is exported under the configuration (default IRIs for annotations/sets/resources from 7 prefixes, 0-3 namespaces, 0-2 extra contexts, optional extra_target_template, generate_annotation_iri, auto_generated, auto_generator) and checked: declined only for DataKeySelector/AnnotationDataSelector targets; parses as exactly one JSON object; type/id/@context; target text selections (source IRI, start, end) equal textselections() in order, template targets, other targets by id; every datum found under its predicate with the same JSON type and content. Non-trivial = at least one exported annotation has an id, key or string value with a character JSON must escape, or a non-string value; distinct = distinct case JSON.".into()
    }
    fn assumptions(&self) -> Vec<String> {
        vec![
            "the annotation is taken as the store's public API presents it (textselections(), data(), target selector); whether that agrees with the history is C01/C02/C05 business, machine divergences are ignored and a machine panic ends the case without verdict".into(),
            "IRI rule (rustdoc of WebAnnoConfig and trait IRI): an id that is an absolute http/https/urn/file IRI without IRI-invalid characters is exported as is; an id without a colon gets the prefix prepended (a '/' in between is accepted when the prefix has no trailing '/', '#' or ':'; an empty prefix may become '_:'); other ids with a colon may be treated either way; characters invalid in IRIs may be transformed in any way that keeps the valid characters in order and invents no control characters".into(),
            "predicate of a datum = the key if it is an IRI, else set IRI + key; names are compared after expanding configured namespace prefixes, so which namespace compaction is chosen is don't care".into(),
            "a string value containing ':' may be exported as plain string or as {\"id\": string}; W3C vocabulary predicates are looked up in the body first, then at top level".into(),
            "annotations with two data of the same predicate are excluded from the body comparison; a member matched by several data or a datum matching several members is don't care".into(),
            "floats are compared with a tolerance of 8 ulp-equivalents (serde_json's default float parser); integers may be exported as integral floats below 2^53; NaN/inf and magnitudes beyond 1e300 (f64::MAX printed positionally is rejected by serde_json itself as out of range) are not generated".into(),
            "type strings of targets and body, the body id, the order of non-text targets, output for a DataKeySelector/AnnotationDataSelector that is not declined, and targets of annotations without public id are not checked".into(),
            "extra_context entries are URLs without characters that need escaping, as the rustdoc demands".into(),
        ]
    }
    fn cases(&self, tier: Tier) -> u64 {
        tier.pick(400_000, 4_000_000)
    }
    fn strategy(&self, tier: Tier) -> BoxedStrategy<Case> {
        let hist = history_strategy(HistCfg {
            max_ops: tier.pick(18, 40),
            text_max: 20,
            removal_weight: 3,
            protect_weight: 1,
            complex_weight: 3,
            hostile: true,
            data_only: false,
        });
        (hist, proptest::collection::vec(xop(), 0..=tier.pick(6, 10)), cfgspec())
            .prop_map(|(hist, extras, cfg)| Case { hist, extras, cfg })
            .boxed()
    }

    fn run(&self, case: &Case) -> Outcome {
        let mut out = Outcome::new();
        let cfg = case.cfg.resolve();
        let wcfg = cfg.to_stam();
        // ---- labels of the configuration
        if cfg.template.is_some() {
            out.label("cfg:template");
        }
        if !cfg.namespaces.is_empty() {
            out.label("cfg:namespaces");
        }
        if !cfg.extra_context.is_empty() {
            out.label("cfg:extra_context");
        }
        if cfg.ann_iri != "_:" || cfg.set_iri != "_:" || cfg.res_iri != "_:" {
            out.label("cfg:custom_default_iri");
        }
        if cfg.set_iri != cfg.res_iri {
            out.label("cfg:set_iri!=res_iri");
        }
        if cfg.generate_ids {
            out.label("cfg:generate_ids");
        }
        if cfg.auto_generated {
            out.label("cfg:auto_generated");
        }
        if cfg.auto_generator {
            out.label("cfg:auto_generator");
        }
        // ---- build the store
        let mut m = Machine::new(true);
        for op in &case.hist.ops {
            let step = m.apply(op);
            if step.panic.is_some() {
                out.label("machine_panic");
                return out;
            }
            if step.result.is_err() || step.mismatch.is_some() {
                out.label("machine_divergence");
            }
        }
        let mut counter = 0usize;
        for x in &case.extras {
            if !apply_extra(&mut m.store, x, &mut counter, &mut out) {
                out.label("machine_panic");
                return out;
            }
        }
        // ---- export every annotation
        let store = &m.store;
        let mut nontrivial = false;
        let mut n = 0usize;
        for a in store.annotations() {
            n += 1;
            nontrivial |= check_annotation(store, &a, &cfg, &wcfg, &mut out);
        }
        if n == 0 {
            out.label("no_annotations");
        }
        out.nontrivial = nontrivial;
        out
    }

    fn health(&self, labels: &BTreeMap<String, u64>, evals: u64) -> Vec<String> {
        let mut complaints = vec![];
        if evals < 1000 {
            return complaints;
        }
        let frac = |l: &str| labels.get(l).copied().unwrap_or(0) as f64 / evals as f64;
        let need: [(&str, f64); 30] = [
            ("exported", 0.80),
            ("val:quote", 0.20),
            ("val:backslash", 0.20),
            ("val:control", 0.20),
            ("val:tab", 0.10),
            ("val:newline", 0.10),
            ("val:nonbmp", 0.15),
            ("val:datetime", 0.10),
            ("val:list", 0.10),
            ("val:list-nested", 0.05),
            ("val:list-empty", 0.03),
            ("val:int", 0.25),
            ("val:float", 0.20),
            ("val:bool", 0.10),
            ("val:null", 0.10),
            ("val:iri-like", 0.10),
            ("chr:key:quote", 0.10),
            ("chr:key:backslash", 0.10),
            ("chr:id:quote", 0.20),
            ("chr:id:backslash", 0.20),
            ("chr:id:nonbmp", 0.15),
            ("sel:TextSelector", 0.50),
            ("sel:AnnotationSelector", 0.30),
            ("sel:ResourceSelector", 0.15),
            ("sel:DataSetSelector", 0.08),
            ("sel:MultiSelector", 0.15),
            ("sel:CompositeSelector", 0.15),
            ("sel:DirectionalSelector", 0.15),
            ("cfg:template", 0.30),
            ("cfg:namespaces", 0.40),
        ];
        for (l, min) in need {
            if frac(l) < min {
                complaints.push(format!("label {} in {:.1}% of cases, expected at least {:.0}%", l, frac(l) * 100.0, min * 100.0));
            }
        }
        for (l, min) in [("cfg:extra_context", 0.25), ("anno:toplevel", 0.08), ("tpl:complex", 0.05), ("declined", 0.05)] {
            if frac(l) < min {
                complaints.push(format!("label {} in {:.1}% of cases, expected at least {:.0}%", l, frac(l) * 100.0, min * 100.0));
            }
        }
        complaints
    }
}
