//! C16 Transposition preserves text.
//!
//! Generator: two or three texts built from a shared pool of fragments (different fillers, optionally a
//! different fragment order per text); a transposition over them (simple: DirectionalSelector of
//! TextSelectors; complex: DirectionalSelector of AnnotationSelectors whose annotations select the
//! fragments through a TextSelector / DirectionalSelector / MultiSelector); a source (annotation or
//! text selection set) placed inside one fragment, spanning adjacent fragments exactly or partially,
//! partly or wholly outside; TransposeConfig variations.
//!
//! Oracle: interval arithmetic over `Vec<char>`; shares no code with stam.

use crate::engine::*;
use crate::observe::observe;
use proptest::prelude::*;
use serde::{Deserialize, Serialize};
use stam::*;
use std::collections::BTreeMap;

pub struct C16;

pub const VOCAB: &str = "https://w3id.org/stam/extensions/stam-transpose/";

#[derive(Clone, Copy, Debug, Serialize, Deserialize, PartialEq, Eq)]
pub enum SelKind {
    Text,
    Directional,
    Multi,
}

#[derive(Clone, Copy, Debug, Serialize, Deserialize, PartialEq, Eq)]
pub enum Via {
    /// DirectionalSelector of TextSelectors (one fragment per side)
    Simple,
    /// DirectionalSelector of AnnotationSelectors; every side annotation selects the fragments of its side
    Complex,
}

#[derive(Clone, Debug, Serialize, Deserialize)]
pub struct Side {
    /// index of the text this side lies in
    pub res: u8,
    /// selector kind of the side annotation (complex transpositions with more than one fragment)
    pub kind: SelKind,
    /// fragments (begin, end) in selector order
    pub frags: Vec<(u16, u16)>,
}

#[derive(Clone, Copy, Debug, Serialize, Deserialize, PartialEq, Eq)]
pub enum Entry {
    /// `ResultItem<Annotation>::transpose`, the annotation has a public id
    AnnotationId,
    /// `ResultItem<Annotation>::transpose`, the annotation has no public id
    AnnotationNoId,
    /// `ResultTextSelectionSet::transpose` on ad-hoc selections, no source annotation exists
    TsetNew,
    /// `ResultTextSelectionSet::transpose` on the selections of an existing annotation, `source_side_id` + `existing_source_side`
    TsetExisting,
    /// `ResultTextSelectionSet::transpose` on ad-hoc selections, `source_side_id` names the annotation to create
    TsetNamed,
}

#[derive(Clone, Debug, Serialize, Deserialize)]
pub struct Cfg {
    /// pass transposition_id / resegmentation_id / target_side_ids
    pub ids: bool,
    pub allow_simple: bool,
    pub no_transposition: bool,
    pub no_resegmentation: bool,
    /// 0 = Auto, 1 = ByIndex(the side the source lies in), 2 = ByIndex(another side)
    pub side: u8,
}

#[derive(Clone, Debug, Serialize, Deserialize)]
pub struct Case {
    pub texts: Vec<String>,
    pub via: Via,
    pub sides: Vec<Side>,
    /// text the source lies in
    pub src_res: u8,
    pub src_kind: SelKind,
    pub src: Vec<(u16, u16)>,
    pub entry: Entry,
    pub with_data: bool,
    /// representation noise: bit 0 = an unrelated annotation between the side annotations (their handles are then
    /// not consecutive), bit 1 = every fragment is annotated beforehand in textual order (the text selections of a
    /// re-ordered side are then not consecutive handles)
    #[serde(default)]
    pub noise: u8,
    pub cfg: Cfg,
}

// ------------------------------------------------------------------------------------------------
// oracle (plain interval arithmetic)

type R = (usize, usize);

#[derive(Clone, Copy, Debug, PartialEq, Eq, PartialOrd, Ord)]
enum Class {
    Inside,
    Span,
    SpanReordered,
    Zero,
    PartialBegin,
    PartialEnd,
    Gap,
    Outside,
}

impl Class {
    fn name(&self) -> &'static str {
        match self {
            Class::Inside => "inside",
            Class::Span => "span",
            Class::SpanReordered => "span-reordered",
            Class::Zero => "zero",
            Class::PartialBegin => "partial-begin",
            Class::PartialEnd => "partial-end",
            Class::Gap => "gap",
            Class::Outside => "outside",
        }
    }
    fn uncovered(&self) -> bool {
        matches!(self, Class::PartialBegin | Class::PartialEnd | Class::Gap | Class::Outside)
    }
}

#[derive(Clone, Debug)]
struct Piece {
    /// sequence number of the fragment in its side
    frag: usize,
    /// offsets relative to the fragment
    rb: usize,
    re: usize,
}

/// Walk one source range over the fragments of the source side (sequence order); returns the class and,
/// when every codepoint is inside a fragment, the pieces in textual order.
fn walk(frags: &[R], b: usize, e: usize) -> (Class, Vec<Piece>) {
    if b == e {
        return (Class::Zero, vec![]);
    }
    let containing = |p: usize| frags.iter().position(|f| f.0 <= p && p < f.1);
    let mut pieces = vec![];
    let mut cur = b;
    loop {
        match containing(cur) {
            None => {
                let later_overlap = frags.iter().any(|f| f.0 > cur && f.0 < e);
                let class = if pieces.is_empty() {
                    if later_overlap {
                        Class::PartialBegin
                    } else {
                        Class::Outside
                    }
                } else if later_overlap {
                    Class::Gap
                } else {
                    Class::PartialEnd
                };
                return (class, vec![]);
            }
            Some(i) => {
                let pe = e.min(frags[i].1);
                pieces.push(Piece { frag: i, rb: cur - frags[i].0, re: pe - frags[i].0 });
                cur = pe;
                if cur == e {
                    break;
                }
            }
        }
    }
    let class = if pieces.len() == 1 {
        Class::Inside
    } else if pieces.windows(2).all(|w| w[1].frag == w[0].frag + 1) {
        Class::Span
    } else {
        Class::SpanReordered
    };
    (class, pieces)
}

/// merge consecutive pieces that touch (same resource, end == next begin)
fn coalesce(v: &[(usize, usize, usize)]) -> Vec<(usize, usize, usize)> {
    let mut out: Vec<(usize, usize, usize)> = vec![];
    for &(r, b, e) in v {
        if let Some(last) = out.last_mut() {
            if last.0 == r && last.2 == b && last.1 < last.2 && b < e {
                last.2 = e;
                continue;
            }
        }
        out.push((r, b, e));
    }
    out
}

fn slice(chars: &[char], b: usize, e: usize) -> String {
    chars[b..e].iter().collect()
}

// ------------------------------------------------------------------------------------------------
// observation helpers

#[derive(Clone, Debug)]
struct Added {
    handle: AnnotationHandle,
    id: Option<String>,
    /// (text index, begin, end) in the order reported by textselections()
    tsels: Vec<(usize, usize, usize)>,
    texts: Vec<String>,
    joined: String,
    is_transposition: bool,
    is_resegmentation: bool,
    in_targets: Vec<AnnotationHandle>,
}

fn res_index(r: &ResultItem<TextResource>) -> usize {
    r.id()
        .and_then(|s| s.strip_prefix('r'))
        .and_then(|s| s.parse().ok())
        .unwrap_or(usize::MAX)
}

fn describe(store: &AnnotationStore, handle: AnnotationHandle) -> Option<Added> {
    let a = store.annotation(handle)?;
    let tsels: Vec<(usize, usize, usize)> = a
        .textselections()
        .map(|t| (res_index(&t.resource()), t.begin(), t.end()))
        .collect();
    let texts: Vec<String> = a.text().map(|s| s.to_string()).collect();
    let mut is_transposition = false;
    let mut is_resegmentation = false;
    for d in a.data() {
        if d.set().id() == Some(VOCAB) {
            match d.key().id() {
                Some("Transposition") => is_transposition = true,
                Some("Resegmentation") => is_resegmentation = true,
                _ => {}
            }
        }
    }
    Some(Added {
        handle,
        id: a.id().map(|s| s.to_string()),
        joined: a.text_join(""),
        tsels,
        texts,
        is_transposition,
        is_resegmentation,
        in_targets: a.annotations_in_targets(AnnotationDepth::One).map(|x| x.handle()).collect(),
    })
}

fn selector_for(res: usize, kind: SelKind, ranges: &[R]) -> SelectorBuilder<'static> {
    let one = |r: &R| SelectorBuilder::textselector(format!("r{}", res), Offset::simple(r.0, r.1));
    if ranges.len() == 1 && kind == SelKind::Text {
        return one(&ranges[0]);
    }
    match kind {
        SelKind::Multi => SelectorBuilder::multiselector(ranges.iter().map(one)),
        _ => SelectorBuilder::directionalselector(ranges.iter().map(one)),
    }
}

/// order in which the documentation says the selections of a selector are reported
fn reported_order(kind: SelKind, ranges: &[R]) -> Vec<R> {
    let mut v = ranges.to_vec();
    if kind == SelKind::Multi {
        v.sort();
    }
    v
}

// ------------------------------------------------------------------------------------------------
// generator

const FRAG_ALPHABET: [char; 16] = [
    'a', 'b', 'c', 'd', 'e', 'f', 'g', 'h', 'k', 'm', 'é', 'ß', '日', '😀', 'x', 'z',
];
const MAXPOOL: usize = 7;
const FILL_ALPHABET: [char; 6] = ['.', ' ', '_', '\n', '–', '#'];

#[derive(Clone, Debug)]
struct SrcSpec {
    mode: u8,
    first: u16,
    nfrag: u8,
    bi: u16,
    ei: u16,
    lo: u8,
    ro: u8,
}

fn frag_strategy() -> impl Strategy<Value = String> {
    proptest::collection::vec(0usize..FRAG_ALPHABET.len(), 1..=6)
        .prop_map(|v| v.into_iter().map(|i| FRAG_ALPHABET[i]).collect())
}

fn filler_strategy(empty_weight: u32) -> impl Strategy<Value = String> {
    prop_oneof![
        empty_weight => Just(String::new()),
        (100 - empty_weight) => proptest::collection::vec(0usize..FILL_ALPHABET.len(), 1..=3)
            .prop_map(|v| v.into_iter().map(|i| FILL_ALPHABET[i]).collect::<String>()),
    ]
}

fn srcspec_strategy() -> impl Strategy<Value = SrcSpec> {
    (
        prop_oneof![
            32 => Just(0u8),
            25 => Just(1u8),
            7 => Just(2u8),
            8 => Just(3u8),
            8 => Just(4u8),
            4 => Just(5u8),
            16 => Just(6u8),
        ],
        any::<u16>(),
        prop_oneof![35 => Just(1u8), 40 => Just(2u8), 25 => Just(3u8)],
        any::<u16>(),
        any::<u16>(),
        0u8..2,
        0u8..2,
    )
        .prop_map(|(mode, first, nfrag, bi, ei, lo, ro)| SrcSpec { mode, first, nfrag, bi, ei, lo, ro })
}

#[derive(Clone, Debug)]
struct TextRecipe {
    order_keys: Vec<u16>,
    lead: String,
    between: Vec<String>,
    trail: String,
}

fn textrecipe_strategy() -> impl Strategy<Value = TextRecipe> {
    (
        proptest::collection::vec(any::<u16>(), MAXPOOL),
        filler_strategy(40),
        proptest::collection::vec(filler_strategy(70), MAXPOOL),
        filler_strategy(40),
    )
        .prop_map(|(order_keys, lead, between, trail)| TextRecipe { order_keys, lead, between, trail })
}

/// returns (text, position of every pool fragment in this text)
fn build_text(pool: &[String], recipe: &TextRecipe, reorder: bool) -> (String, Vec<R>) {
    let n = pool.len();
    let mut order: Vec<usize> = (0..n).collect();
    if reorder {
        order.sort_by_key(|&i| (recipe.order_keys[i], i));
    }
    let mut text: Vec<char> = recipe.lead.chars().collect();
    let mut pos = vec![(0, 0); n];
    for (k, &i) in order.iter().enumerate() {
        let b = text.len();
        text.extend(pool[i].chars());
        pos[i] = (b, text.len());
        if k + 1 < n {
            text.extend(recipe.between[k].chars());
        }
    }
    text.extend(recipe.trail.chars());
    (text.into_iter().collect(), pos)
}

fn build_source(spec: &SrcSpec, textual: &[R], textlen: usize) -> R {
    let n = textual.len();
    let first = pick(spec.first, n);
    let last = (first + spec.nfrag as usize - 1).min(n - 1);
    let flen = textual[first].1 - textual[first].0;
    let llen = textual[last].1 - textual[last].0;
    let inner_b = textual[first].0 + pick(spec.bi, flen);
    let mut inner_e = textual[last].0 + 1 + pick(spec.ei, llen);
    if inner_e <= inner_b {
        inner_e = inner_b + 1;
    }
    match spec.mode {
        // begins and ends somewhere inside the first/last fragment
        0 => (inner_b, inner_e),
        // exactly the fragments
        1 => (textual[first].0, textual[last].1),
        // sticks out to the left
        2 => (textual[first].0.saturating_sub(1 + spec.lo as usize), inner_e),
        // sticks out to the right
        3 => (inner_b, (textual[last].1 + 1 + spec.ro as usize).min(textlen)),
        // anywhere
        4 => {
            let x = pick(spec.bi, textlen + 1);
            let y = pick(spec.ei, textlen + 1);
            (x.min(y), x.max(y))
        }
        // zero width
        5 => {
            let p = textual[first].0 + pick(spec.bi, flen + 1);
            (p, p)
        }
        // begins at the fragment start, ends inside the last / begins inside, ends at the fragment end
        _ => {
            if spec.lo == 0 {
                (textual[first].0, inner_e)
            } else {
                (inner_b, textual[last].1)
            }
        }
    }
}

fn case_strategy(tier: Tier) -> BoxedStrategy<Case> {
    let maxpool = tier.pick(5usize, MAXPOOL);
    let pool = prop_oneof![
        10 => proptest::collection::vec(frag_strategy(), 1..=1),
        20 => proptest::collection::vec(frag_strategy(), 2..=2),
        70 => proptest::collection::vec(frag_strategy(), 3..=maxpool),
    ];
    let shape = (
        prop_oneof![60 => Just(2usize), 40 => Just(3usize)], // number of texts
        prop_oneof![25 => Just(Via::Simple), 75 => Just(Via::Complex)],
        prop_oneof![45 => Just(true), 55 => Just(false)], // reorder
        any::<bool>(),                                    // third text is a side (else foreign)
        any::<bool>(),                                    // reverse side order
        proptest::collection::vec(prop_oneof![60 => Just(SelKind::Directional), 40 => Just(SelKind::Multi)], 3),
        any::<u16>(), // fragment used by a simple transposition
        any::<bool>(), // keep the first text in pool order when reordering
        0u8..4,        // representation noise
    );
    let source = (
        any::<u16>(), // source text
        prop_oneof![
            70 => proptest::collection::vec(srcspec_strategy(), 1..=1),
            20 => proptest::collection::vec(srcspec_strategy(), 2..=2),
            10 => proptest::collection::vec(srcspec_strategy(), 3..=tier.pick(3usize, 4usize)),
        ],
        prop_oneof![50 => Just(SelKind::Directional), 50 => Just(SelKind::Multi)],
        prop_oneof![
            40 => Just(Entry::AnnotationId),
            15 => Just(Entry::AnnotationNoId),
            20 => Just(Entry::TsetNew),
            15 => Just(Entry::TsetExisting),
            10 => Just(Entry::TsetNamed),
        ],
        any::<bool>(),
    );
    let cfg = (
        any::<bool>(),
        prop_oneof![75 => Just(false), 25 => Just(true)],
        prop_oneof![85 => Just(false), 15 => Just(true)],
        prop_oneof![80 => Just(false), 20 => Just(true)],
        prop_oneof![75 => Just(0u8), 20 => Just(1u8), 5 => Just(2u8)],
    )
        .prop_map(|(ids, allow_simple, no_transposition, no_resegmentation, side)| Cfg {
            ids,
            allow_simple,
            no_transposition,
            no_resegmentation,
            side,
        });
    (pool, proptest::collection::vec(textrecipe_strategy(), 3), shape, source, cfg)
        .prop_map(|(pool, recipes, shape, source, cfg)| {
            let (ntexts, via, reorder, third_is_side, reverse, kinds, simple_frag, keep_first, noise) = shape;
            let (src_text, specs, src_kind, entry, with_data) = source;
            let n = pool.len();
            // Multi side annotations report their selections in textual order, so a transposition with such a side
            // is only valid when the fragments come in the same order in every text: reordering needs Directional sides
            let reorder = reorder && n > 1 && via == Via::Complex;
            let mut texts = vec![];
            let mut positions = vec![];
            for t in 0..ntexts {
                let (text, pos) = build_text(&pool, &recipes[t], reorder && !(t == 0 && keep_first));
                texts.push(text);
                positions.push(pos);
            }
            let nsides = if ntexts == 3 && third_is_side { 3 } else { 2 };
            let mut side_texts: Vec<usize> = (0..nsides).collect();
            if reverse {
                side_texts.reverse();
            }
            let k = pick(simple_frag, n);
            let sides: Vec<Side> = side_texts
                .iter()
                .map(|&t| {
                    let frags: Vec<R> = match via {
                        Via::Simple => vec![positions[t][k]],
                        Via::Complex => positions[t].clone(),
                    };
                    let kind = if frags.len() == 1 {
                        SelKind::Text
                    } else if reorder {
                        SelKind::Directional
                    } else {
                        kinds[t]
                    };
                    Side {
                        res: t as u8,
                        kind,
                        frags: frags.iter().map(|f| (f.0 as u16, f.1 as u16)).collect(),
                    }
                })
                .collect();
            let src_res = pick(src_text, ntexts);
            let mut textual = positions[src_res].clone();
            textual.sort();
            let textlen = texts[src_res].chars().count();
            let mut src: Vec<(u16, u16)> = vec![];
            for spec in &specs {
                let r = build_source(spec, &textual, textlen);
                let r = (r.0 as u16, r.1 as u16);
                if !src.contains(&r) {
                    src.push(r);
                }
            }
            let src_kind = if src.len() == 1 { SelKind::Text } else { src_kind };
            if src_kind == SelKind::Multi {
                src.sort();
            }
            Case { texts, via, sides, src_res: src_res as u8, src_kind, src, entry, with_data, noise, cfg }
        })
        .boxed()
}

// ------------------------------------------------------------------------------------------------

impl Property for C16 {
    type Case = Case;
    fn id(&self) -> &'static str {
        "C16"
    }
    fn rule(&self) -> String {
        "case = 2-3 texts built from a shared pool of 1-5 (thorough: 1-7) fragments (1-6 codepoints, 1-4 byte characters) with independent fillers (empty in ~70% of the gaps, so fragments are often adjacent) and, for 45% of the complex transpositions, an independent fragment order per text; a transposition over 2 or 3 of the texts: simple (DirectionalSelector of TextSelectors, one fragment per side) or complex (DirectionalSelector of AnnotationSelectors on side annotations that select the fragments through a TextSelector, DirectionalSelector or MultiSelector) carrying the Transposition key of the stam-transpose vocabulary; a source of 1-3 (thorough: 1-4) ranges in any of the texts (inside a fragment, exactly the fragments, spanning 2-3 adjacent fragments, sticking out left/right, anywhere, zero-width) given as annotation (with/without id; Text/Directional/Multi selector) or as ResultTextSelectionSet; TransposeConfig: ids given or generated, allow_simple, no_transposition, no_resegmentation, source_side Auto/ByIndex, existing_source_side+source_side_id. Oracle: interval arithmetic over Vec<char> decides coverage (every codepoint of every source range inside a fragment of the side lying in the source's text, walking over touching fragments) and the expected target ranges (fragment-relative offsets re-applied to the corresponding fragment of every other side). Non-trivial = a source range spans a fragment boundary or the transposition has >= 3 fragments per side; distinct = distinct case JSON.".into()
    }
    fn assumptions(&self) -> Vec<String> {
        vec![
            "sides of one transposition lie in different texts (a transposition within one text makes the source side ambiguous; not generated)".into(),
            "Ok/Err is don't-care (counted) where the documentation is silent: zero-width source ranges, source ranges spanning touching fragments whose selector order differs from their textual order, and source_side=ByIndex naming a side the source does not lie in; every facet about the result still applies when the call succeeds".into(),
            "a source range with a codepoint outside every fragment of the source side counts as not covered (pinned tests transpose_over_*_invalid; error text 'Not all source fragments were found')".into(),
            "target offsets are compared after merging consecutive touching pieces (the documentation does not fix how a result is segmented)".into(),
            "TransposeConfig::debug is not generated (it only adds stderr output and an internal cross-check)".into(),
            "ids are generated by the library with its own randomness (nanoid); they do not influence any compared value".into(),
        ]
    }
    fn cases(&self, tier: Tier) -> u64 {
        tier.pick(1_200_000, 12_000_000)
    }
    fn strategy(&self, tier: Tier) -> BoxedStrategy<Case> {
        case_strategy(tier)
    }
    fn exhaustive_note(&self, _tier: Tier) -> Option<String> {
        Some("every single source range 0<=b<=e<=len in either text of 5 fixed transpositions (simple; complex in textual order with DirectionalSelector sides; complex with the second text re-ordered; complex with the first side listed out of textual order; complex with MultiSelector sides) x entry {annotation with id, ad-hoc selection set} x allow_simple {false,true}".into())
    }
    fn enumerate(&self, _tier: Tier) -> Vec<Case> {
        // r0: f0=[1,3) "ab", f1=[3,5) "cd" (touching), f2=[6,8) "ef"
        let r0 = ".abcd_ef.";
        // r1: same fragments in another order: f2=[0,2), f0=[2,4) (touching), f1=[5,7)
        let r1 = "efab#cd";
        // r2: same order as r0 with other fillers: f0=[1,3), f1=[4,6), f2=[6,8) (touching)
        let r2 = "xab.cdef";
        let side = |res: u8, kind: SelKind, frags: &[(u16, u16)]| Side { res, kind, frags: frags.to_vec() };
        let vias: Vec<(Vec<String>, Via, Vec<Side>)> = vec![
            (
                vec![r0.into(), r1.into()],
                Via::Simple,
                vec![side(0, SelKind::Text, &[(1, 3)]), side(1, SelKind::Text, &[(2, 4)])],
            ),
            (
                vec![r0.into(), r2.into()],
                Via::Complex,
                vec![
                    side(0, SelKind::Directional, &[(1, 3), (3, 5), (6, 8)]),
                    side(1, SelKind::Directional, &[(1, 3), (4, 6), (6, 8)]),
                ],
            ),
            (
                vec![r0.into(), r1.into()],
                Via::Complex,
                vec![
                    side(0, SelKind::Directional, &[(1, 3), (3, 5), (6, 8)]),
                    side(1, SelKind::Directional, &[(2, 4), (5, 7), (0, 2)]),
                ],
            ),
            (
                vec![r0.into(), r1.into()],
                Via::Complex,
                vec![
                    side(0, SelKind::Directional, &[(6, 8), (1, 3), (3, 5)]),
                    side(1, SelKind::Directional, &[(0, 2), (2, 4), (5, 7)]),
                ],
            ),
            (
                vec![r0.into(), r2.into()],
                Via::Complex,
                vec![
                    side(0, SelKind::Multi, &[(1, 3), (3, 5), (6, 8)]),
                    side(1, SelKind::Multi, &[(1, 3), (4, 6), (6, 8)]),
                ],
            ),
        ];
        let mut v = vec![];
        for (texts, via, sides) in &vias {
            for src_res in 0..2u8 {
                let len = texts[src_res as usize].chars().count() as u16;
                for b in 0..=len {
                    for e in b..=len {
                        for entry in [Entry::AnnotationId, Entry::TsetNew] {
                            for allow_simple in [false, true] {
                                v.push(Case {
                                    texts: texts.clone(),
                                    via: *via,
                                    sides: sides.clone(),
                                    src_res,
                                    src_kind: SelKind::Text,
                                    src: vec![(b, e)],
                                    entry,
                                    with_data: true,
                                    noise: 0,
                                    cfg: Cfg { ids: true, allow_simple, no_transposition: false, no_resegmentation: false, side: 0 },
                                });
                            }
                        }
                    }
                }
            }
        }
        v
    }

    fn health(&self, labels: &BTreeMap<String, u64>, evals: u64) -> Vec<String> {
        let mut v = vec![];
        if evals < 2000 {
            return v;
        }
        let frac = |l: &str| *labels.get(l).unwrap_or(&0) as f64 / evals as f64;
        for (label, min) in [
            ("src:boundary-spanning", 0.15),
            ("frags>=3", 0.30),
            ("reordered", 0.10),
            ("via:complex", 0.40),
            ("expect:err", 0.15),
            ("expect:ok", 0.35),
            ("sides=3", 0.08),
            ("result:ok", 0.25),
            ("result:err", 0.15),
        ] {
            if frac(label) < min {
                v.push(format!("label {} only {:.1}% of cases (< {:.0}%)", label, frac(label) * 100.0, min * 100.0));
            }
        }
        v
    }

    fn run(&self, case: &Case) -> Outcome {
        let mut out = Outcome::new();
        // ---------------------------------------------------------------- validate the case
        let chars: Vec<Vec<char>> = case.texts.iter().map(|t| t.chars().collect()).collect();
        let ntexts = chars.len();
        if ntexts < 2 || case.sides.len() < 2 || case.src.is_empty() || case.src_res as usize >= ntexts {
            out.skip("invalid case: shape");
            return out;
        }
        // fragments of every side in the order the side reports them
        let mut side_frags: Vec<Vec<R>> = vec![];
        for (j, side) in case.sides.iter().enumerate() {
            let t = side.res as usize;
            if t >= ntexts || case.sides.iter().take(j).any(|s| s.res == side.res) {
                out.skip("invalid case: side resources");
                return out;
            }
            let fr: Vec<R> = side.frags.iter().map(|f| (f.0 as usize, f.1 as usize)).collect();
            if fr.is_empty()
                || fr.iter().any(|f| f.0 >= f.1 || f.1 > chars[t].len())
                || (case.via == Via::Simple && fr.len() != 1)
                || (fr.len() > 1 && side.kind == SelKind::Text)
            {
                out.skip("invalid case: fragments");
                return out;
            }
            for (x, a) in fr.iter().enumerate() {
                for b in fr.iter().skip(x + 1) {
                    if a.0 < b.1 && b.0 < a.1 {
                        out.skip("invalid case: overlapping fragments");
                        return out;
                    }
                }
            }
            side_frags.push(reported_order(side.kind, &fr));
        }
        let nfrags = side_frags[0].len();
        for (j, fr) in side_frags.iter().enumerate() {
            if fr.len() != nfrags {
                out.skip("invalid case: fragment counts differ");
                return out;
            }
            for (i, f) in fr.iter().enumerate() {
                let t = case.sides[j].res as usize;
                let t0 = case.sides[0].res as usize;
                if chars[t][f.0..f.1] != chars[t0][side_frags[0][i].0..side_frags[0][i].1] {
                    out.skip("invalid case: sides do not select identical text");
                    return out;
                }
            }
        }
        let src_res = case.src_res as usize;
        let src_given: Vec<R> = case.src.iter().map(|r| (r.0 as usize, r.1 as usize)).collect();
        if src_given.iter().any(|r| r.0 > r.1 || r.1 > chars[src_res].len())
            || (src_given.len() > 1 && case.src_kind == SelKind::Text)
            || src_given.iter().enumerate().any(|(i, r)| src_given[..i].contains(r))
        {
            out.skip("invalid case: source");
            return out;
        }
        let src: Vec<R> = reported_order(case.src_kind, &src_given);
        let src_side: Option<usize> = case.sides.iter().position(|s| s.res as usize == src_res);

        // ---------------------------------------------------------------- oracle: coverage and expected targets
        let mut classes: Vec<Class> = vec![];
        let mut pieces: Vec<Piece> = vec![];
        match src_side {
            Some(s) => {
                for r in &src {
                    let (c, p) = walk(&side_frags[s], r.0, r.1);
                    classes.push(c);
                    pieces.extend(p);
                }
            }
            None => classes.push(Class::Outside),
        }
        let mut classnames: Vec<&'static str> = {
            let mut c = classes.clone();
            c.sort();
            c.dedup();
            c.iter().map(|c| c.name()).collect()
        };
        if src_side.is_none() {
            classnames = vec!["foreign-text"];
        }
        let srcclass = classnames.join("+");
        let any_zero = classes.contains(&Class::Zero);
        let wrong_side = case.cfg.side == 2 && src_side.is_some();
        // Some(true) = must succeed, Some(false) = must fail, None = documentation silent
        let expect: Option<bool> = if classes.iter().any(|c| c.uncovered()) {
            Some(false)
        } else if any_zero || classes.contains(&Class::SpanReordered) || wrong_side {
            None
        } else {
            Some(true)
        };
        let dc_reason = if any_zero {
            "zero-width"
        } else if classes.contains(&Class::SpanReordered) {
            "span-reordered"
        } else {
            "byindex-other-side"
        };
        let viatok = match case.via {
            Via::Simple => "simple",
            Via::Complex => "complex",
        };
        let multitok = if src.len() > 1 { "multi" } else { "single" };
        let reordered = side_frags.iter().any(|fr| fr.windows(2).any(|w| w[0].0 > w[1].0));
        let spanning = classes.iter().any(|c| matches!(c, Class::Span | Class::SpanReordered));

        // ---------------------------------------------------------------- labels
        out.label(&format!("via:{}", viatok));
        out.label(&format!("sides={}", case.sides.len()));
        out.label(&format!("texts={}", ntexts));
        out.label(match nfrags {
            1 => "frags=1",
            2 => "frags=2",
            _ => "frags>=3",
        });
        if reordered {
            out.label("reordered");
        }
        for c in &classnames {
            out.label(&format!("src:{}", c));
        }
        if spanning {
            out.label("src:boundary-spanning");
        }
        out.label(&format!("src:{}", multitok));
        out.label(&format!("srckind:{:?}", case.src_kind));
        out.label(&format!("entry:{:?}", case.entry));
        out.label(match expect {
            Some(true) => "expect:ok",
            Some(false) => "expect:err",
            None => "expect:dontcare",
        });
        if case.cfg.ids {
            out.label("cfg:ids");
        }
        if case.cfg.allow_simple {
            out.label("cfg:allow_simple");
        }
        if case.cfg.no_transposition {
            out.label("cfg:no_transposition");
        }
        if case.cfg.no_resegmentation {
            out.label("cfg:no_resegmentation");
        }
        out.label(match case.cfg.side {
            0 => "cfg:side-auto",
            1 => "cfg:side-byindex",
            _ => "cfg:side-byindex-wrong",
        });
        if case.sides.iter().any(|s| s.kind == SelKind::Multi) {
            out.label("sidekind:multi");
        }
        if case.texts.iter().any(|t| !t.is_ascii()) {
            out.label("multibyte");
        }
        out.nontrivial = spanning || nfrags >= 3;

        // ---------------------------------------------------------------- build the store
        let mut store = AnnotationStore::default();
        for (i, t) in case.texts.iter().enumerate() {
            if store
                .add_resource(TextResourceBuilder::new().with_id(format!("r{}", i)).with_text(t.clone()))
                .is_err()
            {
                out.skip("setup: add_resource failed");
                return out;
            }
        }
        if case.noise & 2 != 0 {
            for (j, fr) in side_frags.iter().enumerate() {
                let mut textual = fr.clone();
                textual.sort();
                for f in textual {
                    let _ = store.annotate(
                        AnnotationBuilder::new()
                            .with_target(SelectorBuilder::textselector(format!("r{}", case.sides[j].res), Offset::simple(f.0, f.1)))
                            .with_data("testdataset", "type", "fragment"),
                    );
                }
            }
            out.label("noise:prebound-fragments");
        }
        let via_target = match case.via {
            Via::Simple => SelectorBuilder::directionalselector(case.sides.iter().map(|s| {
                SelectorBuilder::textselector(
                    format!("r{}", s.res),
                    Offset::simple(s.frags[0].0 as usize, s.frags[0].1 as usize),
                )
            })),
            Via::Complex => {
                for (j, s) in case.sides.iter().enumerate() {
                    let fr: Vec<R> = s.frags.iter().map(|f| (f.0 as usize, f.1 as usize)).collect();
                    let r = store.annotate(
                        AnnotationBuilder::new()
                            .with_id(format!("S{}", j))
                            .with_target(selector_for(s.res as usize, s.kind, &fr))
                            .with_data("testdataset", "type", "phrase"),
                    );
                    if r.is_err() {
                        out.skip("setup: side annotation rejected");
                        return out;
                    }
                    if case.noise & 1 != 0 {
                        let _ = store.annotate(
                            AnnotationBuilder::new()
                                .with_target(SelectorBuilder::resourceselector(format!("r{}", s.res)))
                                .with_data("testdataset", "type", "noise"),
                        );
                    }
                }
                SelectorBuilder::directionalselector(
                    (0..case.sides.len()).map(|j| SelectorBuilder::annotationselector(format!("S{}", j), None)),
                )
            }
        };
        if store
            .annotate(
                AnnotationBuilder::new()
                    .with_id("VIA")
                    .with_target(via_target)
                    .with_data(VOCAB, "Transposition", DataValue::Null),
            )
            .is_err()
        {
            out.skip("setup: transposition rejected");
            return out;
        }
        // the transposition must read back as built (sanity of the setup, not part of the property)
        {
            let via = store.annotation("VIA").expect("via");
            let got: Vec<Vec<(usize, usize, usize)>> = match case.via {
                Via::Simple => via
                    .textselections()
                    .map(|t| vec![(res_index(&t.resource()), t.begin(), t.end())])
                    .collect(),
                Via::Complex => via
                    .annotations_in_targets(AnnotationDepth::One)
                    .map(|a| {
                        a.textselections()
                            .map(|t| (res_index(&t.resource()), t.begin(), t.end()))
                            .collect()
                    })
                    .collect(),
            };
            let want: Vec<Vec<(usize, usize, usize)>> = side_frags
                .iter()
                .enumerate()
                .map(|(j, fr)| fr.iter().map(|f| (case.sides[j].res as usize, f.0, f.1)).collect())
                .collect();
            if got != want {
                out.skip("setup: transposition does not read back as built");
                return out;
            }
        }
        let needs_annotation = !matches!(case.entry, Entry::TsetNew | Entry::TsetNamed);
        let mut src_handle: Option<AnnotationHandle> = None;
        if needs_annotation {
            let mut b = AnnotationBuilder::new().with_target(selector_for(src_res, case.src_kind, &src_given));
            if case.entry != Entry::AnnotationNoId {
                b = b.with_id("SRC");
            }
            if case.with_data {
                b = b.with_data("mydataset", "species", "homo sapiens");
            }
            match store.annotate(b) {
                Ok(h) => src_handle = Some(h),
                Err(_) => {
                    out.skip("setup: source annotation rejected");
                    return out;
                }
            }
            let a = store.annotation(src_handle.unwrap()).expect("source");
            let got: Vec<(usize, usize, usize)> = a
                .textselections()
                .map(|t| (res_index(&t.resource()), t.begin(), t.end()))
                .collect();
            let want: Vec<(usize, usize, usize)> = src.iter().map(|r| (src_res, r.0, r.1)).collect();
            if got != want {
                out.skip("setup: source annotation does not read back as built");
                return out;
            }
        }
        let src_offsets: Vec<(usize, usize, usize)> = src.iter().map(|r| (src_res, r.0, r.1)).collect();
        let src_texts: Vec<String> = src.iter().map(|r| slice(&chars[src_res], r.0, r.1)).collect();
        let src_joined: String = src_texts.concat();

        // ---------------------------------------------------------------- the call
        let mut config = TransposeConfig::default();
        config.allow_simple = case.cfg.allow_simple;
        config.no_transposition = case.cfg.no_transposition;
        config.no_resegmentation = case.cfg.no_resegmentation;
        let ntargets = case.sides.len() - if src_side.is_some() { 1 } else { 0 };
        if case.cfg.ids {
            config.transposition_id = Some("NT".to_string());
            config.resegmentation_id = Some("RS".to_string());
            config.target_side_ids = (0..ntargets).map(|k| format!("T{}", k)).collect();
        }
        match (case.cfg.side, src_side) {
            (1, Some(s)) => config.source_side = TranspositionSide::ByIndex(s),
            (2, Some(s)) => config.source_side = TranspositionSide::ByIndex((s + 1) % case.sides.len()),
            _ => {}
        }
        match case.entry {
            Entry::TsetExisting => {
                config.source_side_id = Some("SRC".to_string());
                config.existing_source_side = true;
            }
            Entry::TsetNamed => {
                config.source_side_id = Some("SRCNEW".to_string());
            }
            _ => {}
        }
        let before = observe(&store);
        let called = {
            let via = store.annotation("VIA").expect("via");
            match case.entry {
                Entry::AnnotationId | Entry::AnnotationNoId => {
                    let a = store.annotation(src_handle.unwrap()).expect("source");
                    catch(|| a.transpose(&via, config).map_err(|e| e.to_string()))
                }
                Entry::TsetExisting => {
                    let a = store.annotation(src_handle.unwrap()).expect("source");
                    match a.textselectionset() {
                        Some(tset) => catch(|| tset.transpose(&via, config).map_err(|e| e.to_string())),
                        None => {
                            out.skip("setup: source annotation has no text selection set");
                            return out;
                        }
                    }
                }
                Entry::TsetNew | Entry::TsetNamed => {
                    let res = store.resource(format!("r{}", src_res)).expect("resource");
                    let mut sels = vec![];
                    for r in &src {
                        match res.textselection(&Offset::simple(r.0, r.1)) {
                            Ok(t) => sels.push(t),
                            Err(_) => {
                                out.skip("setup: source selection rejected");
                                return out;
                            }
                        }
                    }
                    let tset: ResultTextSelectionSet = sels.into_iter().collect();
                    catch(|| tset.transpose(&via, config).map_err(|e| e.to_string()))
                }
            }
        };
        let sigbase = format!("{}|{}|{}", viatok, srcclass, multitok);
        let result = match called {
            Ok(r) => r,
            Err(p) => {
                out.label("result:panic");
                out.fail(
                    "panic",
                    format!("{}|{}", p.signature(), viatok),
                    format!("transpose panicked at {}:{}: {} (source {:?} class {})", p.file, p.line, p.msg, src, srcclass),
                );
                return out;
            }
        };
        out.checks += 1;
        let builders = match result {
            Err(msg) => {
                out.label("result:err");
                match expect {
                    Some(true) => out.fail(
                        "covered",
                        format!("covered-err|{}", sigbase),
                        format!(
                            "source {:?} in r{} is covered by side {:?} of the transposition (fragments {:?}) but transpose failed: {}",
                            src, src_res, src_side, src_side.map(|s| side_frags[s].clone()), msg
                        ),
                    ),
                    Some(false) => {}
                    None => {
                        out.dontcare += 1;
                        out.label(&format!("dontcare:{}:err", dc_reason));
                    }
                }
                out.checks += 1;
                if observe(&store) != before {
                    out.fail("uncovered.unchanged", format!("changed|{}", sigbase), "the store differs observably after a failed transpose");
                }
                return out;
            }
            Ok(b) => b,
        };
        out.label("result:ok");
        match expect {
            Some(false) => {
                out.fail(
                    "uncovered",
                    format!("uncovered-ok|{}", sigbase),
                    format!(
                        "source {:?} in r{} is not covered by the transposition (source side {:?}, fragments {:?}; class {}) but transpose returned Ok with {} annotations",
                        src, src_res, src_side, src_side.map(|s| side_frags[s].clone()), srcclass, builders.len()
                    ),
                );
                return out;
            }
            None => {
                out.dontcare += 1;
                out.label(&format!("dontcare:{}:ok", dc_reason));
            }
            Some(true) => {}
        }
        let Some(src_side) = src_side else {
            return out;
        };

        // ---------------------------------------------------------------- adding the result
        let nbuilders = builders.len();
        let handles = match catch(|| store.annotate_from_iter(builders.into_iter()).map_err(|e| e.to_string())) {
            Ok(Ok(h)) => h,
            Ok(Err(msg)) => {
                out.fail(
                    "annotate_ok",
                    format!("annotate-err|{}|{:?}", sigbase, case.entry),
                    format!("annotate_from_iter on the {} returned annotations failed: {}", nbuilders, msg),
                );
                return out;
            }
            Err(p) => {
                out.fail("panic", format!("{}|annotate", p.signature()), format!("annotate_from_iter panicked: {}", p.msg));
                return out;
            }
        };
        out.checks += 1;
        let added: Vec<Added> = handles.iter().filter_map(|h| describe(&store, *h)).collect();
        let nts: Vec<&Added> = added.iter().filter(|a| a.is_transposition).collect();
        let plain: Vec<&Added> = added.iter().filter(|a| !a.is_transposition && !a.is_resegmentation).collect();
        let cfgtok = format!(
            "{}{}{}",
            if case.cfg.allow_simple { "S" } else { "-" },
            if case.cfg.no_transposition { "N" } else { "-" },
            if case.cfg.ids { "I" } else { "-" }
        );

        // the new transposition
        let nt: Option<&Added> = if case.cfg.no_transposition {
            out.checks += 1;
            if !nts.is_empty() {
                out.fail(
                    "config",
                    format!("transposition-despite-no_transposition|{}", viatok),
                    "no_transposition was set but a transposition annotation was returned",
                );
            }
            None
        } else {
            out.checks += 1;
            if nts.len() != 1 {
                out.fail(
                    "new_transposition",
                    format!("count|{}|{}", sigbase, cfgtok),
                    format!("expected exactly one returned annotation carrying the Transposition key, got {} (of {} returned)", nts.len(), added.len()),
                );
                return out;
            }
            Some(nts[0])
        };
        let simple_output = nt.map(|n| n.in_targets.is_empty()).unwrap_or(false);
        if simple_output {
            out.label("output:simple");
            out.checks += 1;
            if !case.cfg.allow_simple {
                out.fail("config", format!("simple-output-not-allowed|{}", viatok), "a simple transposition was returned although allow_simple is false");
            }
        } else if nt.is_some() {
            out.label("output:complex");
        }
        if let (Some(n), true) = (nt, case.cfg.ids) {
            out.checks += 1;
            if n.id.as_deref() != Some("NT") {
                out.fail("ids", format!("transposition_id|{}", viatok), format!("new transposition has id {:?}, requested NT", n.id));
            }
        }

        // sides of the new transposition: (text index, pieces, texts, annotation handle)
        struct SideObs {
            tsels: Vec<(usize, usize, usize)>,
            texts: Vec<String>,
            handle: Option<AnnotationHandle>,
        }
        let nt_sides: Vec<SideObs> = match nt {
            None => vec![],
            Some(n) if simple_output => n
                .tsels
                .iter()
                .zip(n.texts.iter())
                .map(|(t, s)| SideObs { tsels: vec![*t], texts: vec![s.clone()], handle: None })
                .collect(),
            Some(n) => n
                .in_targets
                .iter()
                .map(|h| {
                    let d = describe(&store, *h);
                    SideObs {
                        tsels: d.as_ref().map(|d| d.tsels.clone()).unwrap_or_default(),
                        texts: d.as_ref().map(|d| d.texts.clone()).unwrap_or_default(),
                        handle: Some(*h),
                    }
                })
                .collect(),
        };

        // ---------------------------------------------------------------- the transposed annotation per target side
        let mut transposed: Vec<(usize, Vec<(usize, usize, usize)>, Option<AnnotationHandle>)> = vec![]; // (text, pieces, annotation)
        let mut k = 0;
        for (j, side) in case.sides.iter().enumerate() {
            if j == src_side {
                continue;
            }
            let t = side.res as usize;
            let (tsels, texts, joined, handle): (Vec<(usize, usize, usize)>, Vec<String>, String, Option<AnnotationHandle>) = if simple_output {
                let found: Vec<&SideObs> = nt_sides.iter().filter(|s| s.tsels.iter().all(|x| x.0 == t)).collect();
                out.checks += 1;
                if found.len() != 1 {
                    out.fail(
                        "side",
                        format!("target-count|{}|{}", sigbase, cfgtok),
                        format!("expected one selection of the returned simple transposition in r{}, got {}", t, found.len()),
                    );
                    k += 1;
                    continue;
                }
                (found[0].tsels.clone(), found[0].texts.clone(), found[0].texts.concat(), None)
            } else {
                let found: Vec<&&Added> = plain
                    .iter()
                    .filter(|a| !a.tsels.is_empty() && a.tsels.iter().all(|x| x.0 == t))
                    .collect();
                out.checks += 1;
                if found.len() != 1 {
                    out.fail(
                        "side",
                        format!("target-count|{}|{}", sigbase, cfgtok),
                        format!(
                            "expected exactly one returned annotation lying in r{} (side {} of the transposition), got {}; returned: {:?}",
                            t,
                            j,
                            found.len(),
                            added.iter().map(|a| (a.id.clone(), a.tsels.clone())).collect::<Vec<_>>()
                        ),
                    );
                    k += 1;
                    continue;
                }
                let a = found[0];
                if case.cfg.ids {
                    out.checks += 1;
                    let want = format!("T{}", k);
                    if a.id.as_deref() != Some(want.as_str()) {
                        out.fail(
                            "ids",
                            format!("target_side_ids|{}", viatok),
                            format!("transposed annotation for side {} has id {:?}, requested {}", j, a.id, want),
                        );
                    }
                }
                (a.tsels.clone(), a.texts.clone(), a.joined.clone(), Some(a.handle))
            };
            k += 1;
            // text: piece by piece in order when the segmentation is kept, joined otherwise
            out.checks += 2;
            if joined != src_joined {
                out.fail(
                    "text",
                    format!("joined|{}|{}", sigbase, if reordered { "reordered" } else { "inorder" }),
                    format!(
                        "source {:?} in r{} selects {:?} but the transposed annotation in r{} selects {:?} (pieces {:?} at {:?})",
                        src, src_res, src_joined, t, joined, texts, tsels
                    ),
                );
            } else if texts.len() == src_texts.len() && texts != src_texts {
                out.fail(
                    "text",
                    format!("pieces|{}|{}", sigbase, if reordered { "reordered" } else { "inorder" }),
                    format!("source pieces {:?} but transposed pieces {:?} in r{}", src_texts, texts, t),
                );
            }
            // what stam reports as text is what the offsets select
            for (x, s) in tsels.iter().zip(texts.iter()) {
                out.checks += 1;
                if x.0 < ntexts && x.2 <= chars[x.0].len() && x.1 <= x.2 && slice(&chars[x.0], x.1, x.2) != *s {
                    out.fail("text", format!("offsets-vs-text|{}", viatok), format!("selection {:?} reports text {:?}", x, s));
                }
            }
            // expected target ranges
            if any_zero {
                out.dontcare += 1;
            } else {
                let want: Vec<(usize, usize, usize)> = pieces
                    .iter()
                    .map(|p| (t, side_frags[j][p.frag].0 + p.rb, side_frags[j][p.frag].0 + p.re))
                    .collect();
                out.checks += 1;
                if coalesce(&want) != coalesce(&tsels) {
                    out.fail(
                        "target.offsets",
                        format!("offsets|{}|{}", sigbase, if reordered { "reordered" } else { "inorder" }),
                        format!(
                            "source {:?} in r{} over fragments {:?} -> {:?}: expected target {:?} in r{}, got {:?}",
                            src, src_res, side_frags[src_side], side_frags[j], want, t, tsels
                        ),
                    );
                }
            }
            transposed.push((t, tsels, handle));
        }

        // ---------------------------------------------------------------- the new transposition links sides with identical text
        if let Some(n) = nt {
            out.checks += 1;
            if nt_sides.len() != case.sides.len() {
                out.fail(
                    "new_transposition",
                    format!("sides-count|{}|{}", sigbase, cfgtok),
                    format!("new transposition {:?} has {} sides, the transposition used has {}", n.id, nt_sides.len(), case.sides.len()),
                );
            }
            if let Some(first) = nt_sides.first() {
                for s in nt_sides.iter().skip(1) {
                    out.checks += 1;
                    if s.texts.concat() != first.texts.concat() {
                        out.fail(
                            "new_transposition",
                            format!("text-joined|{}|{}", sigbase, cfgtok),
                            format!("sides of the new transposition select different text: {:?} vs {:?}", first.texts, s.texts),
                        );
                    } else if s.texts != first.texts {
                        out.fail(
                            "new_transposition",
                            format!("text-pieces|{}|{}", sigbase, cfgtok),
                            format!("sides of the new transposition are segmented differently: {:?} vs {:?}", first.texts, s.texts),
                        );
                    }
                }
            }
            // one side is the source ...
            out.checks += 1;
            let src_sides: Vec<&SideObs> = nt_sides.iter().filter(|s| !s.tsels.is_empty() && s.tsels.iter().all(|x| x.0 == src_res)).collect();
            if src_sides.len() != 1 {
                out.fail(
                    "new_transposition",
                    format!("source-side-count|{}|{}", sigbase, cfgtok),
                    format!("expected one side of the new transposition in the source text r{}, got {}", src_res, src_sides.len()),
                );
            } else if any_zero {
                out.dontcare += 1;
            } else if coalesce(&src_sides[0].tsels) != coalesce(&src_offsets) {
                out.fail(
                    "new_transposition",
                    format!("source-side-offsets|{}|{}", sigbase, cfgtok),
                    format!("source {:?} but the source side of the new transposition selects {:?}", src_offsets, src_sides[0].tsels),
                );
            }
            // ... and the others are the transposed annotations
            if !simple_output {
                for (t, _, h) in &transposed {
                    out.checks += 1;
                    if !nt_sides.iter().any(|s| s.handle.is_some() && s.handle == *h) {
                        out.fail(
                            "new_transposition",
                            format!("not-linked|{}|{}", sigbase, cfgtok),
                            format!("the transposed annotation in r{} is not a side of the new transposition", t),
                        );
                    }
                }
            }
        }

        // ---------------------------------------------------------------- transposing back
        if let Some(n) = nt {
            if !out.failures.is_empty() {
                return out; // the round trip is only meaningful on a correct forward result
            }
            let nt_handle = n.handle;
            for (t, tsels, h) in &transposed {
                if any_zero {
                    out.dontcare += 1;
                    continue;
                }
                let back = {
                    let via2 = store.annotation(nt_handle).expect("new transposition");
                    match h {
                        Some(h) => {
                            let a = store.annotation(*h).expect("transposed annotation");
                            catch(|| a.transpose(&via2, TransposeConfig::default()).map_err(|e| e.to_string()))
                        }
                        None => {
                            let res = store.resource(format!("r{}", t)).expect("resource");
                            let sels: Vec<ResultTextSelection> = tsels
                                .iter()
                                .filter_map(|x| res.textselection(&Offset::simple(x.1, x.2)).ok())
                                .collect();
                            if sels.is_empty() {
                                continue;
                            }
                            let tset: ResultTextSelectionSet = sels.into_iter().collect();
                            catch(|| tset.transpose(&via2, TransposeConfig::default()).map_err(|e| e.to_string()))
                        }
                    }
                };
                out.checks += 1;
                let rsig = format!("{}|{}", sigbase, if simple_output { "simple-output" } else { "complex-output" });
                let builders = match back {
                    Err(p) => {
                        out.fail("panic", format!("{}|roundtrip", p.signature()), format!("transposing back panicked at {}:{}: {}", p.file, p.line, p.msg));
                        continue;
                    }
                    Ok(Err(msg)) => {
                        out.fail(
                            "roundtrip",
                            format!("back-err|{}", rsig),
                            format!("transposing {:?} back over the new transposition failed: {}", tsels, msg),
                        );
                        continue;
                    }
                    Ok(Ok(b)) => b,
                };
                let handles2 = match catch(|| store.annotate_from_iter(builders.into_iter()).map_err(|e| e.to_string())) {
                    Ok(Ok(h)) => h,
                    Ok(Err(msg)) => {
                        out.fail("roundtrip", format!("annotate-err|{}", rsig), format!("adding the result of transposing back failed: {}", msg));
                        continue;
                    }
                    Err(p) => {
                        out.fail("panic", format!("{}|roundtrip-annotate", p.signature()), format!("annotate_from_iter panicked: {}", p.msg));
                        continue;
                    }
                };
                let added2: Vec<Added> = handles2.iter().filter_map(|h| describe(&store, *h)).collect();
                let backs: Vec<&Added> = added2
                    .iter()
                    .filter(|a| !a.is_transposition && !a.is_resegmentation && !a.tsels.is_empty() && a.tsels.iter().all(|x| x.0 == src_res))
                    .collect();
                out.checks += 1;
                if backs.len() != 1 {
                    out.fail(
                        "roundtrip",
                        format!("back-count|{}", rsig),
                        format!("expected one annotation in r{} from transposing back, got {}", src_res, backs.len()),
                    );
                } else if coalesce(&backs[0].tsels) != coalesce(&src_offsets) {
                    out.fail(
                        "roundtrip",
                        format!("back-offsets|{}", rsig),
                        format!(
                            "source {:?} -> transposed {:?} in r{} -> back {:?} (original offsets expected)",
                            src_offsets, tsels, t, backs[0].tsels
                        ),
                    );
                }
            }
        }
        out
    }
}
