//! C08 helper: the filter-method facet (`F` cases).
//!
//! Every public `filter_*` method of the six iterator traits (AnnotationIterator, DataIterator, KeyIterator,
//! DataSetIterator, ResourcesIterator, TextSelectionIterator) is applied to a source iterator over the generated
//! store (all items of the type in store order / reversed / a subset / a reversed subset) with arguments drawn from
//! the store. The surviving items are compared, as a sequence, with the source items that satisfy a predicate
//! computed from the *item-level* API of each item (`annotation.keys()`, `data.value()`, `textselection.text()`,
//! ...) and plain Rust; value operators are evaluated with C10's three-valued reference. `.test()` on the filtered
//! iterator must agree with non-emptiness. A panic (unreachable!/todo! for a filter the iterator does not handle) is a
//! failure under facet `panic`.
//!
//! Three-valued: a predicate returns None where the rustdoc does not decide (empty argument collections, FilterMode::All
//! on filters that go through the annotations of an item, case-insensitive comparison of characters whose case
//! mapping is not one-to-one, regular expressions that match a part of the text only, cross-type value operators,
//! text-less annotations against patterns that match the empty string); such items are taken out of both sides.

use super::spec::*;
use crate::engine::*;
use crate::model::Val;
use crate::props::c10::OpSpec as DOp;
use serde::{Deserialize, Serialize};
use stam::*;
use std::collections::BTreeSet;
use std::fmt::Debug;

type RA<'s> = ResultItem<'s, Annotation>;
type RD<'s> = ResultItem<'s, AnnotationData>;
type RK<'s> = ResultItem<'s, DataKey>;
type RS<'s> = ResultItem<'s, AnnotationDataSet>;
type RR<'s> = ResultItem<'s, TextResource>;
type RT<'s> = ResultTextSelection<'s>;
type BI<'s, T> = Box<dyn Iterator<Item = T> + 's>;

#[derive(Clone, Debug, Serialize, Deserialize, PartialEq)]
pub struct FArgs {
    /// index seeds (cycled): which store items the arguments are
    pub picks: Vec<u16>,
    /// 2 bits per trait: 0 all items in store order, 1 all reversed, 2 subset, 3 subset reversed
    pub source: u16,
    pub mask: u32,
    pub ops: Vec<OpS>,
    /// where the text argument comes from: 0 the (joined) text of an annotation, 1 a text selection, 2 a pool of
    /// literals, 3 a slice of a resource
    pub text_kind: u8,
    pub flip: bool,
    /// 0 escaped literal (matches the whole text), 1 pool pattern, 2 escaped literal anchored at the begin only
    pub re_kind: u8,
    pub delim: u8,
    pub relop: u8,
    /// 2 bits per argument collection: its size (0-3)
    pub sizes: u16,
    pub depth_max: bool,
}

/// every public filter method, per trait (transcribed from the `pub trait *Iterator` blocks of src/api/*.rs); the
/// health check demands that each one was seen with matching and with non-matching items
pub const METHODS: &[(&str, &[&str])] = &[
    (
        "Annotation",
        &[
            "filter_one", "filter_any", "filter_all", "filter_any_byref", "filter_handle", "filter_annotation", "filter_annotations",
            "filter_annotations_byref", "filter_annotation_in_targets", "filter_annotations_in_targets", "filter_annotations_in_targets_byref",
            "filter_data", "filter_data_byref", "filter_resource", "filter_resource_as_metadata", "filter_annotationdata", "filter_key_value",
            "filter_key", "filter_key_handle", "filter_value", "filter_key_handle_value", "filter_set", "filter_set_handle", "filter_substore",
            "filter_text", "filter_text_byref", "filter_text_regex", "filter_related_text",
        ],
    ),
    (
        "Data",
        &[
            "filter_handle", "filter_key", "filter_key_handle", "filter_set", "filter_set_handle", "filter_key_handle_value", "filter_value",
            "filter_any", "filter_any_byref", "filter_all", "filter_one", "filter_data_handle", "filter_annotation", "filter_annotation_handle",
        ],
    ),
    (
        "Key",
        &[
            "filter_handle", "filter_key", "filter_set", "filter_set_handle", "filter_any", "filter_any_byref", "filter_all", "filter_one",
            "filter_annotation", "filter_annotation_handle",
        ],
    ),
    ("DataSet", &["filter_handle", "filter_any", "filter_any_byref", "filter_all", "filter_one", "filter_substore"]),
    (
        "Resources",
        &[
            "filter_handle", "filter_one", "filter_any", "filter_any_byref", "filter_all", "filter_metadata", "filter_data_on_text",
            "filter_annotations_on_text", "filter_annotations_byref", "filter_annotation_on_text", "filter_annotations_as_metadata",
            "filter_annotation_as_metadata", "filter_annotationdata_on_text", "filter_annotationdata_in_metadata", "filter_key_value_in_metadata",
            "filter_key_value_on_text", "filter_key_on_text", "filter_key_in_metadata", "filter_key_handle_on_text", "filter_key_handle_in_metadata",
            "filter_value_on_text", "filter_value_in_metadata", "filter_key_handle_value_in_metadata", "filter_key_handle_value_on_text",
            "filter_set_in_metadata", "filter_set_on_text", "filter_set_handle_in_metadata", "filter_set_handle", "filter_substore",
        ],
    ),
    (
        "TextSelection",
        &[
            "filter_annotations", "filter_annotations_byref", "filter_annotation", "filter_text", "filter_text_byref", "filter_text_regex",
            "filter_data", "filter_data_byref", "filter_data_all_byref", "filter_annotationdata", "filter_key_value", "filter_key",
            "filter_key_handle", "filter_value", "filter_key_handle_value", "filter_set", "filter_set_handle", "filter_resource", "filter_one",
            "filter_any", "filter_handle",
        ],
    ),
];

// ------------------------------------------------------------------------------------------
// three-valued helpers

fn or3(it: impl Iterator<Item = Option<bool>>) -> Option<bool> {
    let mut unknown = false;
    for x in it {
        match x {
            Some(true) => return Some(true),
            None => unknown = true,
            _ => {}
        }
    }
    if unknown {
        None
    } else {
        Some(false)
    }
}

/// does `have` contain at least one member of `want`? (an empty `want` is not documented)
fn any_of<K: PartialEq>(have: &[K], want: &[K]) -> Option<bool> {
    if want.is_empty() {
        return None;
    }
    Some(want.iter().any(|w| have.contains(w)))
}

/// does `have` contain every member of `want`? (an empty `want` is not documented)
fn all_of<K: PartialEq>(have: &[K], want: &[K]) -> Option<bool> {
    if want.is_empty() {
        return None;
    }
    Some(want.iter().all(|w| have.contains(w)))
}

fn mode_of<K: PartialEq>(have: &[K], want: &[K], all: bool) -> Option<bool> {
    if all {
        all_of(have, want)
    } else {
        any_of(have, want)
    }
}

/// a collection filter that goes through the annotations of an item ("items with annotations that have data that
/// corresponds with any of the items in the passed data"): `per_ann` lists, per annotation of the item, what that
/// annotation has. FilterMode::Any: some annotation has some member. FilterMode::All is only documented as "all
/// reference instances are matched": certainly true when one annotation has them all, certainly false when the
/// annotations together do not have them all, undecided in between.
fn via_annotations<K: PartialEq + Clone>(per_ann: &[Vec<K>], want: &[K], all: bool) -> Option<bool> {
    if want.is_empty() {
        return None;
    }
    if !all {
        return Some(per_ann.iter().any(|have| want.iter().any(|w| have.contains(w))));
    }
    if per_ann.iter().any(|have| want.iter().all(|w| have.contains(w))) {
        return Some(true);
    }
    let together: Vec<K> = per_ann.iter().flat_map(|v| v.iter().cloned()).collect();
    if !want.iter().all(|w| together.contains(w)) {
        return Some(false);
    }
    None
}

/// text equality as documented for filter_text: exact, or case-insensitive (compared in lower case); characters
/// whose case mapping is not one-to-one make the comparison undecided
fn text_eq(text: &str, arg: &str, case_sensitive: bool) -> Option<bool> {
    if case_sensitive {
        return Some(text == arg);
    }
    let l = text.to_lowercase() == arg.to_lowercase();
    let u = text.to_uppercase() == arg.to_uppercase();
    if l == u {
        Some(l)
    } else {
        None
    }
}

/// "text matching the regular expression": certainly yes when the expression matches the whole text, certainly no
/// when it matches nowhere, undecided when it matches a part only
fn regex_match(re: &Regex, text: &str) -> Option<bool> {
    match re.find(text) {
        None => Some(false),
        Some(m) if m.start() == 0 && m.end() == text.len() => Some(true),
        Some(_) => None,
    }
}

// ------------------------------------------------------------------------------------------
// item-level views (handles as plain numbers)

fn ak(a: &RA) -> usize {
    a.handle().as_usize()
}
fn dk(d: &RD) -> (usize, usize) {
    (d.set().handle().as_usize(), d.handle().as_usize())
}
fn kk(k: &RK) -> (usize, usize) {
    (k.set().handle().as_usize(), k.handle().as_usize())
}
fn sk(s: &RS) -> usize {
    s.handle().as_usize()
}
fn rk(r: &RR) -> usize {
    r.handle().as_usize()
}
fn tk(t: &RT) -> (usize, usize, usize) {
    (t.resource().handle().as_usize(), t.begin(), t.end())
}
fn vtest(op: &DOp, d: &RD) -> Option<bool> {
    op.reference(&Val::from_stam(d.value()))
}
fn a_data_keys(a: &RA) -> Vec<(usize, usize)> {
    a.data().map(|d| dk(&d)).collect()
}
/// (set, key) of every key the annotation uses
fn a_keys(a: &RA) -> Vec<(usize, usize)> {
    a.keys().map(|k| kk(&k)).collect()
}
/// the text of an annotation as filter_text documents it: the single text, or the pieces joined by the delimiter.
/// None: the annotation has no text. The flag is false when several pieces are joined and one of them is empty
/// (whether a delimiter surrounds an empty piece is not documented; text_join() leaves it out at the begin).
fn a_text(a: &RA, delim: &str) -> Option<(String, bool)> {
    let pieces: Vec<&str> = a.textselections().map(|t| t.text()).collect();
    if pieces.is_empty() {
        None
    } else {
        Some((pieces.join(delim), pieces.len() == 1 || pieces.iter().all(|p| !p.is_empty())))
    }
}

// ------------------------------------------------------------------------------------------
// the comparison engine

/// root-cause class of a panic inside a filter: the file and what kind of "cannot happen" it is (the message itself
/// carries the concrete arguments)
fn psig(p: &PanicInfo) -> String {
    let kind = if p.msg.contains("not implemented for") {
        "filter-not-implemented".to_string()
    } else if p.msg.contains("not handled by this iterator") {
        "mode-all-not-handled".to_string()
    } else if p.msg.contains("not implemented") {
        "not-implemented".to_string()
    } else {
        normalise_msg(&p.msg).chars().take(40).collect()
    };
    format!("{}:{}", p.file, kind)
}

struct Fx<'o> {
    out: &'o mut Outcome,
    tr: &'static str,
    /// labels of this trait's methods (each once; moved into the outcome at the end: Outcome::label() searches linearly)
    seen: BTreeSet<String>,
}

impl<'o> Drop for Fx<'o> {
    fn drop(&mut self) {
        for l in std::mem::take(&mut self.seen) {
            self.out.labels.push(l);
        }
    }
}

impl<'o> Fx<'o> {
    fn name(&self, method: &str) -> String {
        debug_assert!(
            METHODS.iter().any(|(t, ms)| *t == self.tr && ms.contains(&method)),
            "method {}.{} is not registered",
            self.tr,
            method
        );
        format!("{}.{}", self.tr, method)
    }
    fn noarg(&mut self, method: &str) {
        let n = self.name(method);
        self.seen.insert(format!("f:{}:noarg", n));
    }
}

fn seq_class<K: Ord + Clone>(got: &[K], exp: &[K], source: &BTreeSet<K>) -> &'static str {
    if got.iter().any(|g| !source.contains(g)) {
        return "not-in-source";
    }
    let gs: BTreeSet<K> = got.iter().cloned().collect();
    let es: BTreeSet<K> = exp.iter().cloned().collect();
    if gs == es {
        let mut a = got.to_vec();
        let mut b = exp.to_vec();
        a.sort();
        b.sort();
        if a == b {
            "order"
        } else {
            "multiplicity"
        }
    } else if gs.is_subset(&es) {
        "missing"
    } else if es.is_subset(&gs) {
        "extra"
    } else {
        "missing+extra"
    }
}

/// One filter method with one argument: the filtered sequence against the predicate, and `.test()` against
/// non-emptiness.
fn check<'t, T: 't, K: Ord + Clone + Debug>(
    fx: &mut Fx,
    method: &'static str,
    arg: &str,
    src: &dyn Fn() -> BI<'t, T>,
    key: &dyn Fn(&T) -> K,
    apply: &dyn Fn(BI<'t, T>) -> BI<'t, T>,
    pred: &dyn Fn(&T) -> Option<bool>,
) {
    let name = fx.name(method);
    let items: Vec<T> = src().collect();
    // a panic inside the item-level API is another property's business: the item is undecided here
    let verdicts: Vec<(K, Option<bool>)> = items
        .iter()
        .map(|x| {
            (
                key(x),
                match catch(|| pred(x)) {
                    Ok(v) => v,
                    Err(_) => {
                        fx.out.label("f:item_level_panic");
                        None
                    }
                },
            )
        })
        .collect();
    let source: BTreeSet<K> = verdicts.iter().map(|v| v.0.clone()).collect();
    let undecided: BTreeSet<K> = verdicts.iter().filter(|v| v.1.is_none()).map(|v| v.0.clone()).collect();
    // an item may occur only once in a source; an undecided key takes all its occurrences out
    let exp: Vec<K> = verdicts.iter().filter(|v| v.1 == Some(true) && !undecided.contains(&v.0)).map(|v| v.0.clone()).collect();
    let rejected = verdicts.iter().filter(|v| v.1 == Some(false)).count();
    fx.out.checks += verdicts.len() as u64 + 1;
    fx.out.dontcare += undecided.len() as u64;
    let got = match catch(|| apply(src()).map(|x| key(&x)).collect::<Vec<K>>()) {
        Ok(g) => g,
        Err(p) => {
            fx.seen.insert(format!("f:{}:panic", name));
            fx.out.fail(
                "panic",
                format!("filter-panic|{}|{}", name, psig(&p)),
                format!("{}Iterator::{}({}) over {} item(s) panicked at {}:{}: {}", fx.tr, method, arg, items.len(), p.file, p.line, p.msg),
            );
            return;
        }
    };
    let got_decided: Vec<K> = got.iter().filter(|g| !undecided.contains(g)).cloned().collect();
    if got_decided != exp {
        let what = seq_class(&got_decided, &exp, &source);
        fx.out.fail(
            "filter",
            format!("filter|{}|{}", name, what),
            format!(
                "{}Iterator::{}({}) over {:?} yields {:?}; the item-level API says {:?}{}",
                fx.tr,
                method,
                arg,
                verdicts.iter().map(|v| &v.0).collect::<Vec<_>>(),
                got,
                exp,
                if undecided.is_empty() { String::new() } else { format!(" (undecided: {:?})", undecided) }
            ),
        );
    }
    // .test()
    match catch(|| apply(src()).test()) {
        Ok(t) => {
            let expected = if !exp.is_empty() {
                Some(true)
            } else if undecided.is_empty() {
                Some(false)
            } else {
                None
            };
            match expected {
                Some(e) if e != t => fx.out.fail(
                    "filter",
                    format!("test|{}", name),
                    format!("{}Iterator::{}({}).test() = {} although the filtered iterator yields {:?} (expected {:?})", fx.tr, method, arg, t, got, exp),
                ),
                None => fx.out.dontcare += 1,
                _ => {}
            }
        }
        Err(p) => fx.out.fail(
            "panic",
            format!("filter-panic|{}|{}", name, psig(&p)),
            format!("{}Iterator::{}({}).test() panicked at {}:{}: {}", fx.tr, method, arg, p.file, p.line, p.msg),
        ),
    }
    if !exp.is_empty() {
        fx.seen.insert(format!("f:{}:m", name));
    }
    if rejected > 0 {
        fx.seen.insert(format!("f:{}:n", name));
    }
    if !undecided.is_empty() {
        fx.seen.insert(format!("f:{}:u", name));
    }
}

/// `filter_all(collection, store)`: "If not all of the items in the parameter exist in the iterator, the iterator
/// returns nothing"; otherwise it yields items of the iterator, among them all the mentioned ones (whether it also
/// yields the others is not documented).
fn check_all<'t, T: 't, K: Ord + Clone + Debug>(
    fx: &mut Fx,
    arg: &str,
    src: &dyn Fn() -> BI<'t, T>,
    key: &dyn Fn(&T) -> K,
    apply: &dyn Fn(BI<'t, T>) -> BI<'t, T>,
    want: &[K],
) {
    let method = "filter_all";
    let name = fx.name(method);
    let source: Vec<K> = src().map(|x| key(&x)).collect();
    let sset: BTreeSet<K> = source.iter().cloned().collect();
    fx.out.checks += 2;
    let got = match catch(|| apply(src()).map(|x| key(&x)).collect::<Vec<K>>()) {
        Ok(g) => g,
        Err(p) => {
            fx.seen.insert(format!("f:{}:panic", name));
            fx.out.fail(
                "panic",
                format!("filter-panic|{}|{}", name, psig(&p)),
                format!("{}Iterator::filter_all({}) over {} item(s) panicked at {}:{}: {}", fx.tr, arg, source.len(), p.file, p.line, p.msg),
            );
            return;
        }
    };
    let test = catch(|| apply(src()).test());
    if let Err(p) = &test {
        fx.out.fail("panic", format!("filter-panic|{}|{}", name, psig(p)), format!("{}Iterator::filter_all({}).test() panicked: {}", fx.tr, arg, p.msg));
        return;
    }
    let test = test.unwrap();
    if want.is_empty() {
        fx.out.dontcare += 1;
        fx.seen.insert(format!("f:{}:u", name));
        return;
    }
    let all_present = want.iter().all(|w| sset.contains(w));
    let describe = |what: &str| format!("{}Iterator::filter_all({}) over {:?} yields {:?} (.test() = {}): {}", fx.tr, arg, source, got, test, what);
    if !all_present {
        fx.seen.insert(format!("f:{}:n", name));
        if !got.is_empty() || test {
            let d = describe("not all of the mentioned items are in the iterator, so it must return nothing");
            fx.out.fail("filter", format!("filter|{}|not-empty", name), d);
        }
    } else {
        fx.seen.insert(format!("f:{}:m", name));
        if got.iter().any(|g| !sset.contains(g)) {
            let d = describe("it yields items that are not in the iterator");
            fx.out.fail("filter", format!("filter|{}|not-in-source", name), d);
        } else if !want.iter().all(|w| got.contains(w)) || !test {
            let d = describe("all the mentioned items are in the iterator, so it must yield (at least) them");
            fx.out.fail("filter", format!("filter|{}|missing", name), d);
        }
    }
}

// ------------------------------------------------------------------------------------------
// arguments

struct Args<'s> {
    anns: Vec<RA<'s>>,
    data: Vec<RD<'s>>,
    keys: Vec<RK<'s>>,
    sets: Vec<RS<'s>>,
    ress: Vec<RR<'s>>,
    texts: Vec<RT<'s>>,
    x_ann: Option<RA<'s>>,
    x_ann2: Option<RA<'s>>,
    x_data: Option<RD<'s>>,
    x_key: Option<RK<'s>>,
    x_set: Option<RS<'s>>,
    x_res: Option<RR<'s>>,
    /// a known text selection (with handle)
    x_ts: Option<RT<'s>>,
    x_sub: Option<ResultItem<'s, AnnotationSubStore>>,
    c_ann: Annotations<'s>,
    c_ann_k: Vec<usize>,
    c_data: Data<'s>,
    c_data_k: Vec<(usize, usize)>,
    c_keys: Keys<'s>,
    c_keys_k: Vec<(usize, usize)>,
    c_res: Resources<'s>,
    c_res_k: Vec<usize>,
    c_sets: AnnotationDataSets<'s>,
    c_sets_k: Vec<usize>,
    c_ts: Handles<'s, TextSelection>,
    c_ts_k: Vec<(usize, usize, usize)>,
    ops: Vec<OpC>,
    text: String,
    text_lower: String,
    regex: Regex,
    delim: &'static str,
    relop: u8,
    depth: AnnotationDepth,
    all: bool,
}

struct Picker<'a> {
    picks: &'a [u16],
    i: usize,
}

impl<'a> Picker<'a> {
    fn seed(&mut self) -> u16 {
        if self.picks.is_empty() {
            return 0;
        }
        let v = self.picks[self.i % self.picks.len()];
        self.i += 1;
        v
    }
    fn one<T: Clone>(&mut self, v: &[T]) -> Option<T> {
        let s = self.seed();
        if v.is_empty() {
            None
        } else {
            Some(v[pick(s, v.len())].clone())
        }
    }
    /// n distinct members in the order they were drawn
    fn some<T: Clone>(&mut self, v: &[T], n: usize) -> Vec<T> {
        let mut idx: Vec<usize> = vec![];
        for _ in 0..n {
            let s = self.seed();
            if v.is_empty() {
                break;
            }
            let mut i = pick(s, v.len());
            let mut tries = 0;
            while idx.contains(&i) && tries < v.len() {
                i = (i + 1) % v.len();
                tries += 1;
            }
            if !idx.contains(&i) {
                idx.push(i);
            }
        }
        idx.into_iter().map(|i| v[i].clone()).collect()
    }
}

const DELIMS: [&str; 3] = [" ", "", "-"];

fn build_args<'s>(store: &'s AnnotationStore, a: &FArgs) -> Args<'s> {
    let anns: Vec<RA<'s>> = store.annotations().collect();
    let data: Vec<RD<'s>> = store.data().collect();
    let keys: Vec<RK<'s>> = store.keys().collect();
    let sets: Vec<RS<'s>> = store.datasets().collect();
    let ress: Vec<RR<'s>> = store.resources().collect();
    let mut texts: Vec<RT<'s>> = vec![];
    for r in &ress {
        texts.extend(r.textselections());
    }
    let mut p = Picker { picks: &a.picks, i: 0 };
    let size = |k: u32| ((a.sizes >> (2 * k)) & 3) as usize;
    let x_ann = p.one(&anns);
    let x_ann2 = p.one(&anns);
    // data and keys that are in use match more often than arbitrary ones
    let used: Vec<RD<'s>> = data.iter().filter(|d| d.annotations().next().is_some()).cloned().collect();
    let x_data = if p.seed() % 4 != 0 && !used.is_empty() { p.one(&used) } else { p.one(&data) };
    let x_key = match (&x_data, p.seed() % 4 != 0) {
        (Some(d), true) => Some(d.key()),
        _ => p.one(&keys),
    };
    let x_set = p.one(&sets);
    let x_res = p.one(&ress);
    let bound: Vec<RT<'s>> = texts.iter().filter(|t| t.handle().is_some()).cloned().collect();
    let x_ts = p.one(&bound);
    let subs: Vec<ResultItem<'s, AnnotationSubStore>> = store.substores_flatten().collect();
    let x_sub = p.one(&subs);
    let c_ann_v = p.some(&anns, size(0));
    let c_data_v = if p.seed() % 2 == 0 && !used.is_empty() { p.some(&used, size(1)) } else { p.some(&data, size(1)) };
    let c_keys_v = p.some(&keys, size(2));
    let c_res_v = p.some(&ress, size(3));
    let c_sets_v = p.some(&sets, size(4));
    let c_ts_v = p.some(&bound, size(5));
    // value operators: derived from a datum of the store (so that something matches) or free
    let mut ops = vec![];
    for o in &a.ops {
        let from = p.one(&data).map(|d| Val::from_stam(d.value())).unwrap_or(Val::Null);
        ops.push(resolve_op(o, &from));
    }
    while ops.len() < 2 {
        ops.push(OpC { cmp: 0, v: Val::Null });
    }
    let delim = DELIMS[a.delim as usize % 3];
    let mut text: String = match a.text_kind % 4 {
        0 => {
            let with_text: Vec<RA<'s>> = anns.iter().filter(|x| x.textselections().next().is_some()).cloned().collect();
            p.one(&with_text).and_then(|x| a_text(&x, delim)).map(|t| t.0).unwrap_or_default()
        }
        1 => p.one(&texts).map(|t| t.text().to_string()).unwrap_or_default(),
        2 => POOL_LIT[pick(p.seed(), POOL_LIT.len())].to_string(),
        _ => match p.one(&ress) {
            Some(r) => {
                let chars: Vec<char> = r.text().chars().collect();
                let lo = pick(p.seed(), chars.len() + 1);
                let hi = (lo + 1 + pick(p.seed(), 4)).min(chars.len());
                chars[lo.min(hi)..hi].iter().collect()
            }
            None => String::new(),
        },
    };
    if text.is_empty() {
        text = "a".into();
    }
    if a.flip {
        text = flip_case(&text);
    }
    let escaped = regex::escape(&text);
    let pattern = match a.re_kind % 3 {
        0 => escaped.clone(),
        1 => POOL_RE[pick(p.seed(), POOL_RE.len())].to_string(),
        _ => format!("^{}", escaped),
    };
    let regex = Regex::new(&pattern).unwrap_or_else(|_| Regex::new("a").unwrap());
    Args {
        c_ann: Handles::from_iter(c_ann_v.iter().map(|x| x.handle()), store),
        c_ann_k: c_ann_v.iter().map(ak).collect(),
        c_data: Handles::from_iter(c_data_v.iter().map(|d| (d.set().handle(), d.handle())), store),
        c_data_k: c_data_v.iter().map(dk).collect(),
        c_keys: Handles::from_iter(c_keys_v.iter().map(|k| (k.set().handle(), k.handle())), store),
        c_keys_k: c_keys_v.iter().map(kk).collect(),
        c_res: Handles::from_iter(c_res_v.iter().map(|r| r.handle()), store),
        c_res_k: c_res_v.iter().map(rk).collect(),
        c_sets: Handles::from_iter(c_sets_v.iter().map(|s| s.handle()), store),
        c_sets_k: c_sets_v.iter().map(sk).collect(),
        c_ts: Handles::from_iter(c_ts_v.iter().map(|t| (t.resource().handle(), t.handle().expect("bound"))), store),
        c_ts_k: c_ts_v.iter().map(tk).collect(),
        anns,
        data,
        keys,
        sets,
        ress,
        texts,
        x_ann,
        x_ann2,
        x_data,
        x_key,
        x_set,
        x_res,
        x_ts,
        x_sub,
        ops,
        text_lower: text.to_lowercase(),
        text,
        regex,
        delim,
        relop: a.relop % 10,
        depth: if a.depth_max { AnnotationDepth::Max } else { AnnotationDepth::One },
        all: a.source & 0x8000 != 0,
    }
}

/// the source sequence for one trait
fn variant<T: Clone>(all: &[T], a: &FArgs, trait_idx: u32) -> Vec<T> {
    let v = (a.source >> (2 * trait_idx)) & 3;
    let mut items: Vec<T> = if v >= 2 {
        all.iter().enumerate().filter(|(i, _)| (a.mask >> (i % 32)) & 1 == 1).map(|(_, x)| x.clone()).collect()
    } else {
        all.to_vec()
    };
    if v % 2 == 1 {
        items.reverse();
    }
    items
}

pub fn run_filters(store: &AnnotationStore, a: &FArgs, out: &mut Outcome) {
    let args = build_args(store, a);
    go(store, &args, a, out);
}

fn go<'t>(store: &'t AnnotationStore, g: &'t Args<'t>, a: &FArgs, out: &mut Outcome) {
    out.label(&format!("f:source:{}", ["all", "reversed", "subset", "subset-reversed"][(a.source & 3) as usize]));
    out.label(if g.all { "f:mode:all" } else { "f:mode:any" });
    let mode = || if g.all { FilterMode::All } else { FilterMode::Any };
    let modename = if g.all { "All" } else { "Any" };
    let op0 = g.ops[0].dop();
    let op1 = g.ops[1].dop();
    let depthname = if g.depth == AnnotationDepth::Max { "Max" } else { "One" };

    // ================================================================== AnnotationIterator
    {
        let mut fx = Fx { out: &mut *out, tr: "Annotation", seen: BTreeSet::new() };
        let items = variant(&g.anns, a, 0);
        let whole = (a.source & 3) == 0;
        let src = || -> BI<'t, RA<'t>> {
            if whole {
                Box::new(store.annotations())
            } else {
                Box::new(items.clone().into_iter())
            }
        };
        let key = |x: &RA<'t>| ak(x);
        if let Some(x) = &g.x_ann {
            let xk = ak(x);
            let d = format!("A{}", xk);
            check(&mut fx, "filter_one", &d, &src, &key, &|it| Box::new(it.filter_one(x)), &|i| Some(ak(i) == xk));
            check(&mut fx, "filter_handle", &d, &src, &key, &|it| Box::new(it.filter_handle(x.handle())), &|i| Some(ak(i) == xk));
            // annotations that are annotated by x: x is among the annotations that reference the item
            check(&mut fx, "filter_annotation", &d, &src, &key, &|it| Box::new(it.filter_annotation(x)), &|i| Some(i.annotations().any(|y| ak(&y) == xk)));
            // annotations that annotate x: x is among the annotations the item targets
            let depth = g.depth;
            check(
                &mut fx,
                "filter_annotation_in_targets",
                &format!("{}, {}", d, depthname),
                &src,
                &key,
                &|it| Box::new(it.filter_annotation_in_targets(x, depth)),
                &|i| Some(i.annotations_in_targets(depth).any(|y| ak(&y) == xk)),
            );
        } else {
            for m in ["filter_one", "filter_handle", "filter_annotation", "filter_annotation_in_targets"] {
                fx.noarg(m);
            }
        }
        {
            let want = &g.c_ann_k;
            let d = format!("{:?}", want);
            check(&mut fx, "filter_any", &d, &src, &key, &|it| Box::new(it.filter_any(g.c_ann.clone())), &|i| any_of(&[ak(i)], want));
            check(&mut fx, "filter_any_byref", &d, &src, &key, &|it| Box::new(it.filter_any_byref(&g.c_ann)), &|i| any_of(&[ak(i)], want));
            check_all(&mut fx, &d, &src, &key, &|it| Box::new(it.filter_all(g.c_ann.clone(), store)), want);
            let dm = format!("{:?}, {}", want, modename);
            let by = |i: &RA<'t>| -> Vec<usize> { i.annotations().map(|y| ak(&y)).collect() };
            check(&mut fx, "filter_annotations", &dm, &src, &key, &|it| Box::new(it.filter_annotations(g.c_ann.clone(), mode())), &|i| mode_of(&by(i), want, g.all));
            check(&mut fx, "filter_annotations_byref", &dm, &src, &key, &|it| Box::new(it.filter_annotations_byref(&g.c_ann, mode())), &|i| mode_of(&by(i), want, g.all));
            let depth = g.depth;
            let dmd = format!("{:?}, {}, {}", want, depthname, modename);
            let targets = |i: &RA<'t>| -> Vec<usize> { i.annotations_in_targets(depth).map(|y| ak(&y)).collect() };
            check(
                &mut fx,
                "filter_annotations_in_targets",
                &dmd,
                &src,
                &key,
                &|it| Box::new(it.filter_annotations_in_targets(g.c_ann.clone(), depth, mode())),
                &|i| mode_of(&targets(i), want, g.all),
            );
            check(
                &mut fx,
                "filter_annotations_in_targets_byref",
                &dmd,
                &src,
                &key,
                &|it| Box::new(it.filter_annotations_in_targets_byref(&g.c_ann, depth, mode())),
                &|i| mode_of(&targets(i), want, g.all),
            );
        }
        {
            let want = &g.c_data_k;
            let dm = format!("{:?}, {}", want, modename);
            check(&mut fx, "filter_data", &dm, &src, &key, &|it| Box::new(it.filter_data(g.c_data.clone(), mode())), &|i| mode_of(&a_data_keys(i), want, g.all));
            check(&mut fx, "filter_data_byref", &dm, &src, &key, &|it| Box::new(it.filter_data_byref(&g.c_data, mode())), &|i| mode_of(&a_data_keys(i), want, g.all));
        }
        if let Some(r) = &g.x_res {
            let rk_ = rk(r);
            let d = format!("R{}", rk_);
            check(&mut fx, "filter_resource", &d, &src, &key, &|it| Box::new(it.filter_resource(r)), &|i| Some(i.resources().any(|y| rk(&y) == rk_)));
            check(
                &mut fx,
                "filter_resource_as_metadata",
                &d,
                &src,
                &key,
                &|it| Box::new(it.filter_resource_as_metadata(r)),
                &|i| Some(i.resources_as_metadata().any(|y| rk(&y) == rk_)),
            );
        } else {
            fx.noarg("filter_resource");
            fx.noarg("filter_resource_as_metadata");
        }
        if let Some(x) = &g.x_data {
            let xk = dk(x);
            check(&mut fx, "filter_annotationdata", &format!("D{:?}", xk), &src, &key, &|it| Box::new(it.filter_annotationdata(x)), &|i| Some(a_data_keys(i).contains(&xk)));
        } else {
            fx.noarg("filter_annotationdata");
        }
        if let Some(k) = &g.x_key {
            let k_ = kk(k);
            let d = format!("K{:?}", k_);
            check(&mut fx, "filter_key", &d, &src, &key, &|it| Box::new(it.filter_key(k)), &|i| Some(a_keys(i).contains(&k_)));
            check(&mut fx, "filter_key_handle", &d, &src, &key, &|it| Box::new(it.filter_key_handle(k.set().handle(), k.handle())), &|i| Some(a_keys(i).contains(&k_)));
            let dv = format!("K{:?}, {}", k_, g.ops[0].text());
            let p = |i: &RA<'t>| or3(i.data().map(|x| if kk(&x.key()) == k_ { vtest(&op0, &x) } else { Some(false) }));
            check(&mut fx, "filter_key_value", &dv, &src, &key, &|it| Box::new(it.filter_key_value(k, op0.to_stam())), &p);
            check(
                &mut fx,
                "filter_key_handle_value",
                &dv,
                &src,
                &key,
                &|it| Box::new(it.filter_key_handle_value(k.set().handle(), k.handle(), op0.to_stam())),
                &p,
            );
        } else {
            for m in ["filter_key", "filter_key_handle", "filter_key_value", "filter_key_handle_value"] {
                fx.noarg(m);
            }
        }
        check(&mut fx, "filter_value", &g.ops[1].text(), &src, &key, &|it| Box::new(it.filter_value(op1.to_stam())), &|i| or3(i.data().map(|x| vtest(&op1, &x))));
        if let Some(s) = &g.x_set {
            let s_ = sk(s);
            let d = format!("S{}", s_);
            let p = |i: &RA<'t>| Some(i.data().any(|x| sk(&x.set()) == s_));
            check(&mut fx, "filter_set", &d, &src, &key, &|it| Box::new(it.filter_set(s)), &p);
            check(&mut fx, "filter_set_handle", &d, &src, &key, &|it| Box::new(it.filter_set_handle(s.handle())), &p);
        } else {
            fx.noarg("filter_set");
            fx.noarg("filter_set_handle");
        }
        // "the substore this annotation is a part of (if any)"
        check(&mut fx, "filter_substore", "None", &src, &key, &|it| Box::new(it.filter_substore(None)), &|i| Some(i.substore().is_none()));
        if let Some(sub) = &g.x_sub {
            let sh = sub.handle();
            check(
                &mut fx,
                "filter_substore",
                &format!("Some(substore {})", sh.as_usize()),
                &src,
                &key,
                &|it| Box::new(it.filter_substore(Some(sub.clone()))),
                &|i| Some(i.substore().map(|x| x.handle()) == Some(sh)),
            );
        }
        // text
        {
            let delim = g.delim;
            for cs in [true, false] {
                let d = format!("{:?}, {}, {:?}", g.text, cs, delim);
                let p = |i: &RA<'t>| match a_text(i, delim) {
                    Some((t, true)) => text_eq(&t, &g.text, cs),
                    Some((_, false)) => None,
                    None => Some(false), // no text at all; the argument is never empty
                };
                check(&mut fx, "filter_text", &d, &src, &key, &|it| Box::new(it.filter_text(g.text.clone(), cs, delim)), &p);
                // the borrowed form wants a lower-cased argument for the case-insensitive comparison
                let arg: &'t str = if cs { g.text.as_str() } else { g.text_lower.as_str() };
                let d = format!("{:?}, {}, {:?}", arg, cs, delim);
                let p = |i: &RA<'t>| match a_text(i, delim) {
                    Some((t, true)) => text_eq(&t, arg, cs),
                    Some((_, false)) => None,
                    None => Some(false),
                };
                check(&mut fx, "filter_text_byref", &d, &src, &key, &|it| Box::new(it.filter_text_byref(arg, cs, delim)), &p);
            }
            let p = |i: &RA<'t>| match a_text(i, delim) {
                Some((t, true)) => regex_match(&g.regex, &t),
                Some((_, false)) => None,
                None => {
                    if g.regex.is_match("") {
                        None
                    } else {
                        Some(false)
                    }
                }
            };
            check(
                &mut fx,
                "filter_text_regex",
                &format!("/{}/, {:?}", g.regex.as_str(), delim),
                &src,
                &key,
                &|it| Box::new(it.filter_text_regex(g.regex.clone(), delim)),
                &p,
            );
        }
        {
            let op = relop(g.relop);
            check(
                &mut fx,
                "filter_related_text",
                RELOPS[g.relop as usize % 10],
                &src,
                &key,
                &|it| Box::new(it.filter_related_text(op)),
                &|i| Some(i.related_text(op).next().is_some()),
            );
        }
    }

    // ================================================================== DataIterator
    {
        let mut fx = Fx { out: &mut *out, tr: "Data", seen: BTreeSet::new() };
        let items = variant(&g.data, a, 1);
        let whole = ((a.source >> 2) & 3) == 0;
        let src = || -> BI<'t, RD<'t>> {
            if whole {
                Box::new(store.data())
            } else {
                Box::new(items.clone().into_iter())
            }
        };
        let key = |x: &RD<'t>| dk(x);
        if let Some(x) = &g.x_data {
            let xk = dk(x);
            let d = format!("D{:?}", xk);
            let (sh, dh) = (x.set().handle(), x.handle());
            check(&mut fx, "filter_one", &d, &src, &key, &|it| Box::new(it.filter_one(x)), &|i| Some(dk(i) == xk));
            check(&mut fx, "filter_handle", &d, &src, &key, &|it| Box::new(it.filter_handle(sh, dh)), &|i| Some(dk(i) == xk));
            check(&mut fx, "filter_data_handle", &d, &src, &key, &|it| Box::new(it.filter_data_handle(sh, dh)), &|i| Some(dk(i) == xk));
        } else {
            for m in ["filter_one", "filter_handle", "filter_data_handle"] {
                fx.noarg(m);
            }
        }
        if let Some(k) = &g.x_key {
            let k_ = kk(k);
            let d = format!("K{:?}", k_);
            check(&mut fx, "filter_key", &d, &src, &key, &|it| Box::new(it.filter_key(k)), &|i| Some(kk(&i.key()) == k_));
            check(&mut fx, "filter_key_handle", &d, &src, &key, &|it| Box::new(it.filter_key_handle(k.set().handle(), k.handle())), &|i| Some(kk(&i.key()) == k_));
            check(
                &mut fx,
                "filter_key_handle_value",
                &format!("K{:?}, {}", k_, g.ops[0].text()),
                &src,
                &key,
                &|it| Box::new(it.filter_key_handle_value(k.set().handle(), k.handle(), op0.to_stam())),
                &|i| if kk(&i.key()) == k_ { vtest(&op0, i) } else { Some(false) },
            );
        } else {
            for m in ["filter_key", "filter_key_handle", "filter_key_handle_value"] {
                fx.noarg(m);
            }
        }
        if let Some(s) = &g.x_set {
            let s_ = sk(s);
            let d = format!("S{}", s_);
            check(&mut fx, "filter_set", &d, &src, &key, &|it| Box::new(it.filter_set(s)), &|i| Some(sk(&i.set()) == s_));
            check(&mut fx, "filter_set_handle", &d, &src, &key, &|it| Box::new(it.filter_set_handle(s.handle())), &|i| Some(sk(&i.set()) == s_));
        } else {
            fx.noarg("filter_set");
            fx.noarg("filter_set_handle");
        }
        check(&mut fx, "filter_value", &g.ops[1].text(), &src, &key, &|it| Box::new(it.filter_value(op1.to_stam())), &|i| vtest(&op1, i));
        {
            let want = &g.c_data_k;
            let d = format!("{:?}", want);
            check(&mut fx, "filter_any", &d, &src, &key, &|it| Box::new(it.filter_any(g.c_data.clone())), &|i| any_of(&[dk(i)], want));
            check(&mut fx, "filter_any_byref", &d, &src, &key, &|it| Box::new(it.filter_any_byref(&g.c_data)), &|i| any_of(&[dk(i)], want));
            check_all(&mut fx, &d, &src, &key, &|it| Box::new(it.filter_all(g.c_data.clone(), store)), want);
        }
        // data used by annotation x (seen from the annotation)
        let x = if a.sizes & 0x4000 != 0 { &g.x_ann2 } else { &g.x_ann };
        if let Some(x) = x {
            let has = a_data_keys(x);
            let d = format!("A{}", ak(x));
            check(&mut fx, "filter_annotation", &d, &src, &key, &|it| Box::new(it.filter_annotation(x)), &|i| Some(has.contains(&dk(i))));
            check(&mut fx, "filter_annotation_handle", &d, &src, &key, &|it| Box::new(it.filter_annotation_handle(x.handle())), &|i| Some(has.contains(&dk(i))));
        } else {
            fx.noarg("filter_annotation");
            fx.noarg("filter_annotation_handle");
        }
    }

    // ================================================================== KeyIterator
    {
        let mut fx = Fx { out: &mut *out, tr: "Key", seen: BTreeSet::new() };
        let items = variant(&g.keys, a, 2);
        let whole = ((a.source >> 4) & 3) == 0;
        let src = || -> BI<'t, RK<'t>> {
            if whole {
                Box::new(store.keys())
            } else {
                Box::new(items.clone().into_iter())
            }
        };
        let key = |x: &RK<'t>| kk(x);
        if let Some(k) = &g.x_key {
            let k_ = kk(k);
            let d = format!("K{:?}", k_);
            check(&mut fx, "filter_key", &d, &src, &key, &|it| Box::new(it.filter_key(k)), &|i| Some(kk(i) == k_));
            check(&mut fx, "filter_handle", &d, &src, &key, &|it| Box::new(it.filter_handle(k.set().handle(), k.handle())), &|i| Some(kk(i) == k_));
        } else {
            fx.noarg("filter_key");
            fx.noarg("filter_handle");
        }
        if let Some(s) = &g.x_set {
            let s_ = sk(s);
            let d = format!("S{}", s_);
            check(&mut fx, "filter_set", &d, &src, &key, &|it| Box::new(it.filter_set(s)), &|i| Some(sk(&i.set()) == s_));
            check(&mut fx, "filter_set_handle", &d, &src, &key, &|it| Box::new(it.filter_set_handle(s.handle())), &|i| Some(sk(&i.set()) == s_));
        } else {
            fx.noarg("filter_set");
            fx.noarg("filter_set_handle");
        }
        {
            let want = &g.c_keys_k;
            let d = format!("{:?}", want);
            check(&mut fx, "filter_any", &d, &src, &key, &|it| Box::new(it.filter_any(g.c_keys.clone())), &|i| any_of(&[kk(i)], want));
            check(&mut fx, "filter_any_byref", &d, &src, &key, &|it| Box::new(it.filter_any_byref(&g.c_keys)), &|i| any_of(&[kk(i)], want));
            check_all(&mut fx, &d, &src, &key, &|it| Box::new(it.filter_all(g.c_keys.clone(), store)), want);
        }
        // the key of a datum (seen from the datum)
        if let Some(x) = &g.x_data {
            let its = kk(&x.key());
            check(&mut fx, "filter_one", &format!("D{:?}", dk(x)), &src, &key, &|it| Box::new(it.filter_one(x)), &|i| Some(kk(i) == its));
        } else {
            fx.noarg("filter_one");
        }
        // keys used by annotation x (seen from the annotation)
        let x = if a.sizes & 0x4000 != 0 { &g.x_ann2 } else { &g.x_ann };
        if let Some(x) = x {
            let has = a_keys(x);
            let d = format!("A{}", ak(x));
            check(&mut fx, "filter_annotation", &d, &src, &key, &|it| Box::new(it.filter_annotation(x)), &|i| Some(has.contains(&kk(i))));
            check(&mut fx, "filter_annotation_handle", &d, &src, &key, &|it| Box::new(it.filter_annotation_handle(x.handle())), &|i| Some(has.contains(&kk(i))));
        } else {
            fx.noarg("filter_annotation");
            fx.noarg("filter_annotation_handle");
        }
    }

    // ================================================================== DataSetIterator
    {
        let mut fx = Fx { out: &mut *out, tr: "DataSet", seen: BTreeSet::new() };
        let items = variant(&g.sets, a, 3);
        let whole = ((a.source >> 6) & 3) == 0;
        let src = || -> BI<'t, RS<'t>> {
            if whole {
                Box::new(store.datasets())
            } else {
                Box::new(items.clone().into_iter())
            }
        };
        let key = |x: &RS<'t>| sk(x);
        if let Some(s) = &g.x_set {
            let s_ = sk(s);
            check(&mut fx, "filter_handle", &format!("S{}", s_), &src, &key, &|it| Box::new(it.filter_handle(s.handle())), &|i| Some(sk(i) == s_));
        } else {
            fx.noarg("filter_handle");
        }
        {
            let want = &g.c_sets_k;
            let d = format!("{:?}", want);
            check(&mut fx, "filter_any", &d, &src, &key, &|it| Box::new(it.filter_any(g.c_sets.clone())), &|i| any_of(&[sk(i)], want));
            check(&mut fx, "filter_any_byref", &d, &src, &key, &|it| Box::new(it.filter_any_byref(&g.c_sets)), &|i| any_of(&[sk(i)], want));
            check_all(&mut fx, &d, &src, &key, &|it| Box::new(it.filter_all(g.c_sets.clone(), store)), want);
        }
        // the data set of a datum
        if let Some(x) = &g.x_data {
            let its = sk(&x.set());
            check(&mut fx, "filter_one", &format!("D{:?}", dk(x)), &src, &key, &|it| Box::new(it.filter_one(x)), &|i| Some(sk(i) == its));
        } else {
            fx.noarg("filter_one");
        }
        // "all substores this item is a part of"
        check(&mut fx, "filter_substore", "None", &src, &key, &|it| Box::new(it.filter_substore(None)), &|i| Some(i.substores().next().is_none()));
        if let Some(sub) = &g.x_sub {
            let sh = sub.handle();
            check(
                &mut fx,
                "filter_substore",
                &format!("Some(substore {})", sh.as_usize()),
                &src,
                &key,
                &|it| Box::new(it.filter_substore(Some(sub.clone()))),
                &|i| Some(i.substores().any(|x| x.handle() == sh)),
            );
        }
    }

    // ================================================================== ResourcesIterator
    {
        let mut fx = Fx { out: &mut *out, tr: "Resources", seen: BTreeSet::new() };
        let items = variant(&g.ress, a, 4);
        let whole = ((a.source >> 8) & 3) == 0;
        let src = || -> BI<'t, RR<'t>> {
            if whole {
                Box::new(store.resources())
            } else {
                Box::new(items.clone().into_iter())
            }
        };
        let key = |x: &RR<'t>| rk(x);
        // the annotations of a resource on its text / about the resource as a whole
        let anns_of = |r: &RR<'t>, meta: bool| -> Vec<RA<'t>> {
            if meta {
                r.annotations_as_metadata().collect()
            } else {
                r.annotations().collect()
            }
        };
        let data_test = |r: &RR<'t>, meta: bool, f: &dyn Fn(&RD<'t>) -> Option<bool>| -> Option<bool> {
            or3(anns_of(r, meta).iter().flat_map(|x| x.data().collect::<Vec<_>>()).map(|x| f(&x)))
        };
        if let Some(r) = &g.x_res {
            let r_ = rk(r);
            let d = format!("R{}", r_);
            check(&mut fx, "filter_handle", &d, &src, &key, &|it| Box::new(it.filter_handle(r.handle())), &|i| Some(rk(i) == r_));
            check(&mut fx, "filter_one", &d, &src, &key, &|it| Box::new(it.filter_one(r)), &|i| Some(rk(i) == r_));
        } else {
            fx.noarg("filter_handle");
            fx.noarg("filter_one");
        }
        {
            let want = &g.c_res_k;
            let d = format!("{:?}", want);
            check(&mut fx, "filter_any", &d, &src, &key, &|it| Box::new(it.filter_any(g.c_res.clone())), &|i| any_of(&[rk(i)], want));
            check(&mut fx, "filter_any_byref", &d, &src, &key, &|it| Box::new(it.filter_any_byref(&g.c_res)), &|i| any_of(&[rk(i)], want));
            check_all(&mut fx, &d, &src, &key, &|it| Box::new(it.filter_all(g.c_res.clone(), store)), want);
        }
        {
            let want = &g.c_data_k;
            let dm = format!("{:?}, {}", want, modename);
            let per_ann = |r: &RR<'t>, meta: bool| -> Vec<Vec<(usize, usize)>> { anns_of(r, meta).iter().map(a_data_keys).collect() };
            check(&mut fx, "filter_metadata", &dm, &src, &key, &|it| Box::new(it.filter_metadata(g.c_data.clone(), mode())), &|i| via_annotations(&per_ann(i, true), want, g.all));
            check(&mut fx, "filter_data_on_text", &dm, &src, &key, &|it| Box::new(it.filter_data_on_text(g.c_data.clone(), mode())), &|i| via_annotations(&per_ann(i, false), want, g.all));
        }
        {
            // "resources with annotations that match the ones passed"
            let want = &g.c_ann_k;
            let dm = format!("{:?}, {}", want, modename);
            let have = |r: &RR<'t>, meta: bool| -> Vec<usize> { anns_of(r, meta).iter().map(ak).collect() };
            check(&mut fx, "filter_annotations_on_text", &dm, &src, &key, &|it| Box::new(it.filter_annotations_on_text(g.c_ann.clone(), mode())), &|i| mode_of(&have(i, false), want, g.all));
            check(&mut fx, "filter_annotations_byref", &dm, &src, &key, &|it| Box::new(it.filter_annotations_byref(&g.c_ann, mode())), &|i| mode_of(&have(i, false), want, g.all));
            check(
                &mut fx,
                "filter_annotations_as_metadata",
                &dm,
                &src,
                &key,
                &|it| Box::new(it.filter_annotations_as_metadata(g.c_ann.clone(), mode())),
                &|i| mode_of(&have(i, true), want, g.all),
            );
        }
        for x in [&g.x_ann, &g.x_ann2] {
            if let Some(x) = x {
                let xk = ak(x);
                let d = format!("A{}", xk);
                check(&mut fx, "filter_annotation_on_text", &d, &src, &key, &|it| Box::new(it.filter_annotation_on_text(x)), &|i| Some(anns_of(i, false).iter().any(|y| ak(y) == xk)));
                check(
                    &mut fx,
                    "filter_annotation_as_metadata",
                    &d,
                    &src,
                    &key,
                    &|it| Box::new(it.filter_annotation_as_metadata(x)),
                    &|i| Some(anns_of(i, true).iter().any(|y| ak(y) == xk)),
                );
            } else {
                fx.noarg("filter_annotation_on_text");
                fx.noarg("filter_annotation_as_metadata");
            }
        }
        if let Some(x) = &g.x_data {
            let xk = dk(x);
            let d = format!("D{:?}", xk);
            check(&mut fx, "filter_annotationdata_on_text", &d, &src, &key, &|it| Box::new(it.filter_annotationdata_on_text(x)), &|i| data_test(i, false, &|y| Some(dk(y) == xk)));
            check(
                &mut fx,
                "filter_annotationdata_in_metadata",
                &d,
                &src,
                &key,
                &|it| Box::new(it.filter_annotationdata_in_metadata(x)),
                &|i| data_test(i, true, &|y| Some(dk(y) == xk)),
            );
        } else {
            fx.noarg("filter_annotationdata_on_text");
            fx.noarg("filter_annotationdata_in_metadata");
        }
        if let Some(k) = &g.x_key {
            let k_ = kk(k);
            let d = format!("K{:?}", k_);
            let (sh, kh) = (k.set().handle(), k.handle());
            let has_key = |y: &RD<'t>| Some(kk(&y.key()) == k_);
            check(&mut fx, "filter_key_on_text", &d, &src, &key, &|it| Box::new(it.filter_key_on_text(k)), &|i| data_test(i, false, &has_key));
            check(&mut fx, "filter_key_in_metadata", &d, &src, &key, &|it| Box::new(it.filter_key_in_metadata(k)), &|i| data_test(i, true, &has_key));
            check(&mut fx, "filter_key_handle_on_text", &d, &src, &key, &|it| Box::new(it.filter_key_handle_on_text(sh, kh)), &|i| data_test(i, false, &has_key));
            check(&mut fx, "filter_key_handle_in_metadata", &d, &src, &key, &|it| Box::new(it.filter_key_handle_in_metadata(sh, kh)), &|i| data_test(i, true, &has_key));
            let dv = format!("K{:?}, {}", k_, g.ops[0].text());
            let kv = |y: &RD<'t>| if kk(&y.key()) == k_ { vtest(&op0, y) } else { Some(false) };
            check(&mut fx, "filter_key_value_on_text", &dv, &src, &key, &|it| Box::new(it.filter_key_value_on_text(k, op0.to_stam())), &|i| data_test(i, false, &kv));
            check(&mut fx, "filter_key_value_in_metadata", &dv, &src, &key, &|it| Box::new(it.filter_key_value_in_metadata(k, op0.to_stam())), &|i| data_test(i, true, &kv));
            check(
                &mut fx,
                "filter_key_handle_value_on_text",
                &dv,
                &src,
                &key,
                &|it| Box::new(it.filter_key_handle_value_on_text(sh, kh, op0.to_stam())),
                &|i| data_test(i, false, &kv),
            );
            check(
                &mut fx,
                "filter_key_handle_value_in_metadata",
                &dv,
                &src,
                &key,
                &|it| Box::new(it.filter_key_handle_value_in_metadata(sh, kh, op0.to_stam())),
                &|i| data_test(i, true, &kv),
            );
        } else {
            for m in [
                "filter_key_on_text", "filter_key_in_metadata", "filter_key_handle_on_text", "filter_key_handle_in_metadata", "filter_key_value_on_text",
                "filter_key_value_in_metadata", "filter_key_handle_value_on_text", "filter_key_handle_value_in_metadata",
            ] {
                fx.noarg(m);
            }
        }
        {
            let d = g.ops[1].text();
            let v = |y: &RD<'t>| vtest(&op1, y);
            check(&mut fx, "filter_value_on_text", &d, &src, &key, &|it| Box::new(it.filter_value_on_text(op1.to_stam())), &|i| data_test(i, false, &v));
            check(&mut fx, "filter_value_in_metadata", &d, &src, &key, &|it| Box::new(it.filter_value_in_metadata(op1.to_stam())), &|i| data_test(i, true, &v));
        }
        if let Some(s) = &g.x_set {
            let s_ = sk(s);
            let d = format!("S{}", s_);
            let in_set = |y: &RD<'t>| Some(sk(&y.set()) == s_);
            check(&mut fx, "filter_set_on_text", &d, &src, &key, &|it| Box::new(it.filter_set_on_text(s)), &|i| data_test(i, false, &in_set));
            check(&mut fx, "filter_set_in_metadata", &d, &src, &key, &|it| Box::new(it.filter_set_in_metadata(s)), &|i| data_test(i, true, &in_set));
            check(&mut fx, "filter_set_handle", &d, &src, &key, &|it| Box::new(it.filter_set_handle(s.handle())), &|i| data_test(i, false, &in_set));
            check(&mut fx, "filter_set_handle_in_metadata", &d, &src, &key, &|it| Box::new(it.filter_set_handle_in_metadata(s.handle())), &|i| data_test(i, true, &in_set));
        } else {
            for m in ["filter_set_on_text", "filter_set_in_metadata", "filter_set_handle", "filter_set_handle_in_metadata"] {
                fx.noarg(m);
            }
        }
        // "all substores this item is a part of"
        check(&mut fx, "filter_substore", "None", &src, &key, &|it| Box::new(it.filter_substore(None)), &|i| Some(i.substores().next().is_none()));
        if let Some(sub) = &g.x_sub {
            let sh = sub.handle();
            check(
                &mut fx,
                "filter_substore",
                &format!("Some(substore {})", sh.as_usize()),
                &src,
                &key,
                &|it| Box::new(it.filter_substore(Some(sub.clone()))),
                &|i| Some(i.substores().any(|x| x.handle() == sh)),
            );
        }
    }

    // ================================================================== TextSelectionIterator
    {
        let mut fx = Fx { out: &mut *out, tr: "TextSelection", seen: BTreeSet::new() };
        let v = (a.source >> 10) & 3;
        let mut items = variant(&g.texts, a, 5);
        if v >= 2 {
            // a selection that need not be known to the store (no handle, no annotations)
            if let Some(r) = g.ress.first() {
                let len = r.textlen();
                if let Ok(t) = r.textselection(&Offset::simple(0, len.min(2))) {
                    if !items.iter().any(|x| tk(x) == tk(&t)) {
                        if t.handle().is_none() {
                            fx.out.label("f:unbound_textselection");
                        }
                        items.push(t);
                    }
                }
            }
        }
        let src = || -> BI<'t, RT<'t>> { Box::new(items.clone().into_iter()) };
        let key = |x: &RT<'t>| tk(x);
        let anns_of = |t: &RT<'t>| -> Vec<RA<'t>> { t.annotations().collect() };
        let data_test = |t: &RT<'t>, f: &dyn Fn(&RD<'t>) -> Option<bool>| -> Option<bool> { or3(anns_of(t).iter().flat_map(|x| x.data().collect::<Vec<_>>()).map(|x| f(&x))) };
        {
            // "text selections with annotations that match the ones passed"
            let want = &g.c_ann_k;
            let dm = format!("{:?}, {}", want, modename);
            let have = |t: &RT<'t>| -> Vec<usize> { anns_of(t).iter().map(ak).collect() };
            check(&mut fx, "filter_annotations", &dm, &src, &key, &|it| Box::new(it.filter_annotations(g.c_ann.clone(), mode())), &|i| mode_of(&have(i), want, g.all));
            check(&mut fx, "filter_annotations_byref", &dm, &src, &key, &|it| Box::new(it.filter_annotations_byref(&g.c_ann, mode())), &|i| mode_of(&have(i), want, g.all));
        }
        if let Some(x) = &g.x_ann {
            let xk = ak(x);
            check(&mut fx, "filter_annotation", &format!("A{}", xk), &src, &key, &|it| Box::new(it.filter_annotation(x)), &|i| Some(anns_of(i).iter().any(|y| ak(y) == xk)));
        } else {
            fx.noarg("filter_annotation");
        }
        for cs in [true, false] {
            let d = format!("{:?}, {}", g.text, cs);
            check(&mut fx, "filter_text", &d, &src, &key, &|it| Box::new(it.filter_text(g.text.clone(), cs)), &|i| text_eq(i.text(), &g.text, cs));
            let arg: &'t str = if cs { g.text.as_str() } else { g.text_lower.as_str() };
            let d = format!("{:?}, {}", arg, cs);
            check(&mut fx, "filter_text_byref", &d, &src, &key, &|it| Box::new(it.filter_text_byref(arg, cs)), &|i| text_eq(i.text(), arg, cs));
        }
        check(
            &mut fx,
            "filter_text_regex",
            &format!("/{}/", g.regex.as_str()),
            &src,
            &key,
            &|it| Box::new(it.filter_text_regex(g.regex.clone())),
            &|i| regex_match(&g.regex, i.text()),
        );
        {
            let want = &g.c_data_k;
            let dm = format!("{:?}, {}", want, modename);
            let per_ann = |t: &RT<'t>| -> Vec<Vec<(usize, usize)>> { anns_of(t).iter().map(a_data_keys).collect() };
            check(&mut fx, "filter_data", &dm, &src, &key, &|it| Box::new(it.filter_data(g.c_data.clone(), mode())), &|i| via_annotations(&per_ann(i), want, g.all));
            check(&mut fx, "filter_data_byref", &dm, &src, &key, &|it| Box::new(it.filter_data_byref(&g.c_data, mode())), &|i| via_annotations(&per_ann(i), want, g.all));
            // no rustdoc; the name and the FilterMode agree on "all"
            check(
                &mut fx,
                "filter_data_all_byref",
                &format!("{:?}, All", want),
                &src,
                &key,
                &|it| Box::new(it.filter_data_all_byref(&g.c_data, FilterMode::All)),
                &|i| via_annotations(&per_ann(i), want, true),
            );
        }
        if let Some(x) = &g.x_data {
            let xk = dk(x);
            check(&mut fx, "filter_annotationdata", &format!("D{:?}", xk), &src, &key, &|it| Box::new(it.filter_annotationdata(x)), &|i| data_test(i, &|y| Some(dk(y) == xk)));
        } else {
            fx.noarg("filter_annotationdata");
        }
        if let Some(k) = &g.x_key {
            let k_ = kk(k);
            let d = format!("K{:?}", k_);
            let (sh, kh) = (k.set().handle(), k.handle());
            let has_key = |y: &RD<'t>| Some(kk(&y.key()) == k_);
            check(&mut fx, "filter_key", &d, &src, &key, &|it| Box::new(it.filter_key(k)), &|i| data_test(i, &has_key));
            check(&mut fx, "filter_key_handle", &d, &src, &key, &|it| Box::new(it.filter_key_handle(sh, kh)), &|i| data_test(i, &has_key));
            let dv = format!("K{:?}, {}", k_, g.ops[0].text());
            let kv = |y: &RD<'t>| if kk(&y.key()) == k_ { vtest(&op0, y) } else { Some(false) };
            check(&mut fx, "filter_key_value", &dv, &src, &key, &|it| Box::new(it.filter_key_value(k, op0.to_stam())), &|i| data_test(i, &kv));
            check(&mut fx, "filter_key_handle_value", &dv, &src, &key, &|it| Box::new(it.filter_key_handle_value(sh, kh, op0.to_stam())), &|i| data_test(i, &kv));
        } else {
            for m in ["filter_key", "filter_key_handle", "filter_key_value", "filter_key_handle_value"] {
                fx.noarg(m);
            }
        }
        check(&mut fx, "filter_value", &g.ops[1].text(), &src, &key, &|it| Box::new(it.filter_value(op1.to_stam())), &|i| data_test(i, &|y| vtest(&op1, y)));
        if let Some(s) = &g.x_set {
            let s_ = sk(s);
            let d = format!("S{}", s_);
            let in_set = |y: &RD<'t>| Some(sk(&y.set()) == s_);
            check(&mut fx, "filter_set", &d, &src, &key, &|it| Box::new(it.filter_set(s)), &|i| data_test(i, &in_set));
            check(&mut fx, "filter_set_handle", &d, &src, &key, &|it| Box::new(it.filter_set_handle(s.handle())), &|i| data_test(i, &in_set));
        } else {
            fx.noarg("filter_set");
            fx.noarg("filter_set_handle");
        }
        if let Some(r) = &g.x_res {
            let r_ = rk(r);
            check(&mut fx, "filter_resource", &format!("R{}", r_), &src, &key, &|it| Box::new(it.filter_resource(r)), &|i| Some(rk(&i.resource()) == r_));
        } else {
            fx.noarg("filter_resource");
        }
        match g.x_ts.as_ref().and_then(|t| t.as_resultitem().map(|ri| (t, ri))) {
            Some((t, ri)) => {
                let t_ = tk(t);
                let d = format!("T{:?}", t_);
                let (rh, th) = (t.resource().handle(), t.handle().expect("bound"));
                // the one known text selection: same resource, same handle
                let p = |i: &RT<'t>| Some(i.handle().is_some() && tk(i) == t_);
                check(&mut fx, "filter_one", &d, &src, &key, &|it| Box::new(it.filter_one(ri)), &p);
                check(&mut fx, "filter_handle", &d, &src, &key, &|it| Box::new(it.filter_handle(rh, th)), &p);
            }
            None => {
                fx.noarg("filter_one");
                fx.noarg("filter_handle");
            }
        }
        {
            let want = &g.c_ts_k;
            check(
                &mut fx,
                "filter_any",
                &format!("{:?}", want),
                &src,
                &key,
                &|it| Box::new(it.filter_any(g.c_ts.clone())),
                &|i| if want.is_empty() { None } else { Some(i.handle().is_some() && want.contains(&tk(i))) },
            );
        }
    }
}
