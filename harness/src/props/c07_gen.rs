//! C07 case generator. All randomness lives here; `resolve` maps raw index material onto concrete,
//! self-contained strings and offsets (so replay files are readable and shrinking keeps cases valid).

use super::{Case, Op};
use crate::engine::{pick, Tier};
use proptest::prelude::*;

/// (weight, char): 1-4 byte characters, whitespace, punctuation and case-folding oddities.
/// U+0130 (2 bytes) lower-cases to "i\u{307}" (3 bytes, 2 chars); U+1E9E (3 bytes) to U+00DF (2 bytes); the
/// Kelvin sign U+212A (3 bytes) to "k" (1 byte); U+023A (2 bytes) to U+2C65 (3 bytes); U+10400 is cased outside the BMP.
/// No Greek capital sigma (context-dependent lower-casing).
const ALPHABET: &[(u32, char)] = &[
    (6, 'a'),
    (5, 'A'),
    (4, 'b'),
    (3, 'B'),
    (3, 'k'),
    (3, 'i'),
    (2, 's'),
    (6, ' '),
    (2, ','),
    (1, '.'),
    (1, '\n'),
    (5, 'é'),
    (4, 'É'),
    (3, 'ß'),
    (3, 'ö'),
    (2, 'Ö'),
    (4, '\u{130}'),
    (2, '\u{307}'),
    (2, '\u{1C5}'),
    (3, '\u{1E9E}'),
    (3, '\u{212A}'),
    (2, '\u{23A}'),
    (2, '\u{2C65}'),
    (4, '€'),
    (2, '日'),
    (4, '😀'),
    (2, '\u{10400}'),
    (1, '\u{10428}'),
    (1, '\u{3000}'),
];

fn alphabet_char(idx: u16) -> char {
    let total: u32 = ALPHABET.iter().map(|x| x.0).sum();
    let mut x = ((idx as u32) * total) >> 16;
    for (w, c) in ALPHABET {
        if x < *w {
            return *c;
        }
        x -= *w;
    }
    'a'
}

#[derive(Clone, Debug)]
struct RawNeedle {
    from_text: bool,
    start: u16,
    len: u8,
    rand: Vec<u16>,
    /// 0 as is, 1 upper, 2 lower, 3 toggle (only used by case-insensitive operations)
    casemode: u8,
}

fn raw_needle() -> impl Strategy<Value = RawNeedle> {
    (
        prop::bool::weighted(0.75),
        any::<u16>(),
        prop_oneof![4 => Just(1u8), 4 => Just(2u8), 2 => Just(3u8), 1 => Just(4u8)],
        prop::collection::vec(any::<u16>(), 1..=3),
        0u8..4,
    )
        .prop_map(|(from_text, start, len, rand, casemode)| RawNeedle { from_text, start, len, rand, casemode })
}

#[derive(Clone, Debug)]
enum RawAtom {
    Lit(u16),
    Lit2(u16),
    Class(Vec<u16>),
    Dot,
    Word,
    Space,
    NotSpace,
}

#[derive(Clone, Debug)]
struct RawPiece {
    atom: RawAtom,
    /// 0 none, 1 '+', 2 '*', 3 '?'
    quant: u8,
    /// 0 none, 1 capture around atom+quantifier "(a+)", 2 capture inside quantifier "(a)?"
    group: u8,
}

#[derive(Clone, Debug)]
struct RawExpr {
    pieces: Vec<RawPiece>,
    alt: Option<Vec<RawPiece>>,
    nocase: bool,
    /// wrap the whole first branch into one capture group
    wrap: bool,
}

fn raw_piece() -> impl Strategy<Value = RawPiece> {
    let atom = prop_oneof![
        6 => any::<u16>().prop_map(RawAtom::Lit),
        2 => any::<u16>().prop_map(RawAtom::Lit2),
        2 => prop::collection::vec(any::<u16>(), 1..=3).prop_map(RawAtom::Class),
        1 => Just(RawAtom::Dot),
        1 => Just(RawAtom::Word),
        1 => Just(RawAtom::Space),
        1 => Just(RawAtom::NotSpace),
    ];
    (
        atom,
        prop_oneof![6 => Just(0u8), 2 => Just(1u8), 1 => Just(2u8), 1 => Just(3u8)],
        prop_oneof![6 => Just(0u8), 3 => Just(1u8), 1 => Just(2u8)],
    )
        .prop_map(|(atom, quant, group)| RawPiece { atom, quant, group })
}

fn raw_expr() -> impl Strategy<Value = RawExpr> {
    (
        prop::collection::vec(raw_piece(), 1..=3),
        prop::option::weighted(0.25, prop::collection::vec(raw_piece(), 1..=2)),
        prop::bool::weighted(0.1),
        prop::bool::weighted(0.1),
    )
        .prop_map(|(pieces, alt, nocase, wrap)| RawExpr { pieces, alt, nocase, wrap })
}

#[derive(Clone, Debug)]
enum RawOp {
    Find(RawNeedle),
    NoCase(RawNeedle),
    Seq { frags: Vec<RawNeedle>, ordered: bool, skip: u8, cs: bool },
    Regex { exprs: Vec<RawExpr>, pre: bool, overlap: bool },
    Split(RawNeedle),
    Trim { idxs: Vec<u16>, from_edges: bool, with_fn: bool },
    Seg,
}

fn raw_op() -> impl Strategy<Value = RawOp> {
    prop_oneof![
        3 => raw_needle().prop_map(RawOp::Find),
        3 => raw_needle().prop_map(RawOp::NoCase),
        2 => (prop::collection::vec(raw_needle(), 1..=3), prop::bool::weighted(0.8), prop_oneof![3 => Just(0u8), 2 => Just(1u8), 2 => Just(2u8), 1 => Just(3u8)], any::<bool>())
            .prop_map(|(frags, ordered, skip, cs)| RawOp::Seq { frags, ordered, skip, cs }),
        5 => (prop_oneof![4 => prop::collection::vec(raw_expr(), 1..=1), 3 => prop::collection::vec(raw_expr(), 2..=2), 3 => prop::collection::vec(raw_expr(), 3..=4)], any::<bool>(), any::<bool>())
            .prop_map(|(exprs, pre, overlap)| RawOp::Regex { exprs, pre, overlap }),
        3 => raw_needle().prop_map(RawOp::Split),
        2 => (prop::collection::vec(any::<u16>(), 0..=3), prop::bool::weighted(0.7), any::<bool>())
            .prop_map(|(idxs, from_edges, with_fn)| RawOp::Trim { idxs, from_edges, with_fn }),
        3 => Just(RawOp::Seg),
    ]
}

#[derive(Clone, Debug)]
struct Raw {
    symbols: Vec<u16>,
    texts: Vec<Vec<u16>>,
    sub: Option<(u16, u16)>,
    bound: bool,
    known: Vec<(u16, u16, bool)>,
    op: RawOp,
    milestone: Option<usize>,
}

fn change_case(s: &str, mode: u8) -> String {
    match mode {
        1 => s.to_uppercase(),
        2 => s.chars().flat_map(|c| c.to_lowercase()).collect(),
        3 => s
            .chars()
            .flat_map(|c| {
                if c.is_uppercase() {
                    c.to_lowercase().collect::<Vec<char>>()
                } else {
                    c.to_uppercase().collect::<Vec<char>>()
                }
            })
            .collect(),
        _ => s.to_string(),
    }
}

fn resolve_needle(n: &RawNeedle, source: &[char], symbols: &[char], nocase: bool) -> String {
    let s: String = if n.from_text && !source.is_empty() {
        let start = pick(n.start, source.len());
        let end = (start + n.len as usize).min(source.len());
        source[start..end].iter().collect()
    } else {
        n.rand.iter().map(|i| symbols[pick(*i, symbols.len())]).collect()
    };
    let s = if nocase { change_case(&s, n.casemode) } else { s };
    // sigma has context-dependent lower-casing; upper-casing never produces it from this alphabet, but be safe
    if s.is_empty() || s.contains('Σ') {
        "a".to_string()
    } else {
        s
    }
}

fn esc(c: char) -> String {
    regex::escape(&c.to_string())
}

fn resolve_atom(a: &RawAtom, source: &[char], symbols: &[char]) -> String {
    let pool: &[char] = if source.is_empty() { symbols } else { source };
    match a {
        RawAtom::Lit(i) => esc(pool[pick(*i, pool.len())]),
        RawAtom::Lit2(i) => {
            let s = pick(*i, pool.len());
            let e = (s + 2).min(pool.len());
            pool[s..e].iter().map(|c| esc(*c)).collect()
        }
        RawAtom::Class(v) => {
            let mut s = String::from("[");
            for i in v {
                s.push_str(&esc(symbols[pick(*i, symbols.len())]));
            }
            s.push(']');
            s
        }
        RawAtom::Dot => ".".into(),
        RawAtom::Word => r"\w".into(),
        RawAtom::Space => r"\s".into(),
        RawAtom::NotSpace => r"\S".into(),
    }
}

fn resolve_pieces(pieces: &[RawPiece], source: &[char], symbols: &[char], groups_left: &mut usize) -> String {
    let mut s = String::new();
    for p in pieces {
        let atom = resolve_atom(&p.atom, source, symbols);
        let q = match p.quant {
            1 => "+",
            2 => "*",
            3 => "?",
            _ => "",
        };
        let multi = atom.chars().count() > 1 && !atom.starts_with('[') && !(atom.starts_with('\\') && atom.chars().count() == 2);
        let grouped = |inner: &str| format!("(?:{})", inner);
        match (p.group, *groups_left > 0) {
            (1, true) => {
                *groups_left -= 1;
                let inner = if multi && !q.is_empty() { format!("{}{}", grouped(&atom), q) } else { format!("{}{}", atom, q) };
                s.push_str(&format!("({})", inner));
            }
            (2, true) => {
                *groups_left -= 1;
                s.push_str(&format!("({}){}", atom, q));
            }
            _ => {
                if multi && !q.is_empty() {
                    s.push_str(&format!("{}{}", grouped(&atom), q));
                } else {
                    s.push_str(&format!("{}{}", atom, q));
                }
            }
        }
    }
    s
}

fn resolve_expr(x: &RawExpr, source: &[char], symbols: &[char]) -> String {
    let mut groups_left = 2usize;
    let mut s = String::new();
    if x.nocase {
        s.push_str("(?i)");
    }
    let first = if x.wrap {
        groups_left -= 1;
        let inner = resolve_pieces(&x.pieces, source, symbols, &mut groups_left);
        format!("({})", inner)
    } else {
        resolve_pieces(&x.pieces, source, symbols, &mut groups_left)
    };
    s.push_str(&first);
    if let Some(alt) = &x.alt {
        s.push('|');
        s.push_str(&resolve_pieces(alt, source, symbols, &mut groups_left));
    }
    s
}

fn resolve(raw: Raw) -> Case {
    let symbols: Vec<char> = {
        let mut v: Vec<char> = vec![];
        for i in &raw.symbols {
            let c = alphabet_char(*i);
            if !v.contains(&c) {
                v.push(c);
            }
        }
        v
    };
    let texts: Vec<String> = raw
        .texts
        .iter()
        .map(|t| t.iter().map(|i| symbols[pick(*i, symbols.len())]).collect())
        .collect();
    let chars0: Vec<char> = texts[0].chars().collect();
    let len = chars0.len();
    let range = |x: u16, y: u16| -> (usize, usize) {
        let a = pick(x, len + 1);
        let b = pick(y, len + 1);
        (a.min(b), a.max(b))
    };
    let sub = raw.sub.map(|(x, y)| range(x, y));
    let known: Vec<(usize, usize)> = raw
        .known
        .iter()
        .map(|(x, y, zw)| {
            let (a, b) = range(*x, *y);
            if *zw {
                (a, a)
            } else {
                (a, b)
            }
        })
        .collect();
    let (sb, se) = sub.unwrap_or((0, len));
    let source: &[char] = &chars0[sb..se];
    let op = match &raw.op {
        RawOp::Find(n) => Op::Find { needle: resolve_needle(n, source, &symbols, false) },
        RawOp::NoCase(n) => Op::FindNoCase { needle: resolve_needle(n, source, &symbols, true) },
        RawOp::Seq { frags, ordered, skip, cs } => {
            let fragments: Vec<String> = if *ordered && !source.is_empty() {
                // consecutive fragments of the searched text with small gaps, so that complete sequences are common
                let mut cursor = 0usize;
                let mut v = vec![];
                for f in frags {
                    if cursor >= source.len() {
                        break;
                    }
                    let start = cursor + pick(f.start, 3.min(source.len() - cursor));
                    let end = (start + f.len as usize).min(source.len());
                    let s: String = source[start..end].iter().collect();
                    v.push(if *cs { s } else { change_case(&s, f.casemode) });
                    cursor = end;
                }
                v.retain(|s| !s.is_empty() && !s.contains('Σ'));
                if v.is_empty() {
                    v.push("a".to_string());
                }
                v
            } else {
                frags.iter().map(|f| resolve_needle(f, source, &symbols, !*cs)).collect()
            };
            Op::Sequence {
                fragments,
                skip: *skip,
                case_sensitive: *cs,
            }
        }
        RawOp::Regex { exprs, pre, overlap } => Op::Regex {
            exprs: exprs.iter().map(|x| resolve_expr(x, source, &symbols)).collect(),
            precompiled: *pre,
            allow_overlap: *overlap,
        },
        RawOp::Split(n) => Op::Split { delimiter: resolve_needle(n, source, &symbols, false) },
        RawOp::Trim { idxs, from_edges, with_fn } => {
            let mut chars: Vec<char> = vec![];
            for (k, i) in idxs.iter().enumerate() {
                let c = if *from_edges && !source.is_empty() {
                    // characters near the edges of the searched text, so that trimming does something
                    let near = pick(*i, 2.min(source.len()));
                    if k % 2 == 0 {
                        source[near]
                    } else {
                        source[source.len() - 1 - near]
                    }
                } else {
                    symbols[pick(*i, symbols.len())]
                };
                if !chars.contains(&c) {
                    chars.push(c);
                }
            }
            Op::Trim { chars, with_fn: *with_fn }
        }
        RawOp::Seg => Op::Segmentation,
    };
    Case { texts, sub, bound: raw.bound, known, op, milestone: raw.milestone }
}

pub fn case_strategy(tier: Tier) -> BoxedStrategy<Case> {
    let maxlen = tier.pick(28usize, 48usize);
    let text = move || prop::collection::vec(any::<u16>(), 0..=maxlen);
    let texts = prop_oneof![
        6 => prop::collection::vec(text(), 1..=1),
        3 => prop::collection::vec(text(), 2..=3),
    ];
    let sub = prop_oneof![
        3 => Just(None),
        // begin > 0 boosted: independent uniform picks, sorted
        6 => (any::<u16>(), any::<u16>()).prop_map(Some),
        1 => any::<u16>().prop_map(|x| Some((0u16, x))),
    ];
    let known = prop_oneof![
        3 => prop::collection::vec((any::<u16>(), any::<u16>(), prop::bool::weighted(0.08)), 0..=1),
        5 => prop::collection::vec((any::<u16>(), any::<u16>(), prop::bool::weighted(0.08)), 2..=6),
    ];
    (
        prop::collection::vec(any::<u16>(), 2..=6),
        texts,
        sub,
        any::<bool>(),
        known,
        raw_op(),
        // milestone interval of the position index: default configuration mostly, small intervals (milestones inside short texts) otherwise
        prop_oneof![5 => Just(None), 1 => Just(Some(1usize)), 1 => Just(Some(2usize)), 1 => Just(Some(3usize)), 1 => Just(Some(7usize)), 1 => Just(Some(0usize))],
    )
        .prop_map(|(symbols, texts, sub, bound, known, op, milestone)| resolve(Raw { symbols, texts, sub, bound, known, op, milestone }))
        .boxed()
}
