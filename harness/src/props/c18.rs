//! C18 Text validation accepts unchanged text and flags changed text.

use crate::engine::*;
use crate::hist::*;
use crate::props::c05::{ordered_doc, TempDir};
use proptest::prelude::*;
use serde::{Deserialize, Serialize};
use stam::*;

pub struct C18;

#[derive(Clone, Debug, Serialize, Deserialize)]
pub enum Edit {
    /// replace the codepoint at the position by another one
    Substitute { res: u16, pos: u16, with: char },
    Insert { res: u16, pos: u16, what: String },
    Delete { res: u16, pos: u16, len: u8 },
}

#[derive(Clone, Debug, Serialize, Deserialize)]
pub struct Case {
    pub hist: History,
    /// aim the edit at the text of the k-th annotation that selects text (position = offset inside its first selection)
    #[serde(default)]
    pub aim: Option<u16>,
    /// 0 checksum, 1 text, 2 both, 3 auto
    pub mode: u8,
    pub edit: Edit,
    /// reload through CBOR (instead of JSON) for the unchanged-text half
    pub cbor: bool,
    /// additionally reload through STAM CSV (the validation information travels as ordinary data)
    #[serde(default)]
    pub csv: bool,
}

fn mode_of(m: u8) -> TextValidationMode {
    match m % 4 {
        0 => TextValidationMode::Checksum,
        1 => TextValidationMode::Text,
        2 => TextValidationMode::Both,
        _ => TextValidationMode::Auto,
    }
}

/// (annotation ordinal, joined text, selects text?) for every annotation
fn texts(store: &AnnotationStore) -> Vec<(usize, String, Option<bool>)> {
    store
        .annotations()
        .enumerate()
        .map(|(i, a)| (i, a.text_join(""), a.validate_text()))
        .collect()
}

impl Property for C18 {
    type Case = Case;
    fn id(&self) -> &'static str {
        "C18"
    }
    fn rule(&self) -> String {
        "case = final store of a C01 history (texts up to 70 codepoints so that both sides of the 40-codepoint 'auto' threshold occur; all selector kinds incl. relative and complex ones) x protection mode {checksum, text, both, auto} x one edit of one resource text (substitute / insert / delete at any position). Oracle: after protect_text, validate_text() reports invalid = 0, valid = number of annotations selecting non-empty text, every such annotation validates to Some(true); the same after a save and reload (STAM JSON or CBOR, and for 30% of the cases additionally STAM CSV); after reloading the JSON with the edited text (a reload error because an offset no longer fits is an accepted outcome) an annotation validates to Some(false) exactly when the text it now selects differs from the text it selected when it was protected, and to Some(true) otherwise. Non-trivial = the edit changes the selected text of at least one annotation and leaves at least one other protected annotation untouched; distinct = distinct case JSON.".into()
    }
    fn assumptions(&self) -> Vec<String> {
        vec![
            "the text an annotation selects after the edit is taken from the library's own offset resolution (decided by C04), the validation verdict is what is checked here".into(),
            "no delimiter key is used (the validation delimiter is the empty string)".into(),
        ]
    }
    fn cases(&self, tier: Tier) -> u64 {
        tier.pick(600_000, 5_000_000)
    }
    fn strategy(&self, tier: Tier) -> BoxedStrategy<Case> {
        let cfg = HistCfg {
            max_ops: tier.pick(12, 30),
            text_max: 70,
            removal_weight: 1,
            protect_weight: 0,
            complex_weight: 2,
            ..HistCfg::default()
        };
        let edit = prop_oneof![
            4 => (any::<u16>(), any::<u16>(), proptest::sample::select(vec!['z', 'é', '日', '😀', ' ', 'a'])).prop_map(|(res, pos, with)| Edit::Substitute { res, pos, with }),
            2 => (any::<u16>(), any::<u16>(), text_strategy(3)).prop_map(|(res, pos, what)| Edit::Insert { res, pos, what }),
            2 => (any::<u16>(), any::<u16>(), 1u8..4).prop_map(|(res, pos, len)| Edit::Delete { res, pos, len }),
        ];
        // make sure several annotations select non-empty text: a few plain text annotations are appended
        let extra = proptest::collection::vec((any::<u16>(), 0u16..40000, 8000u16..=u16::MAX, any::<bool>(), any::<bool>()), 1..=4);
        (history_strategy(cfg), 0u8..4, edit, proptest::bool::weighted(0.3), proptest::option::weighted(0.75, any::<u16>()), extra, proptest::bool::weighted(0.3))
            .prop_map(|(mut hist, mode, edit, cbor, aim, extra, csv)| {
                for (res, b, e, b_end, e_end) in extra {
                    hist.ops.push(Op::Annotate {
                        with_id: false,
                        sfx: 0,
                        by_handle: false,
                        target: SelSpec::Text { res, off: OffSpec { b, e, b_end, e_end } },
                        data: vec![],
                    });
                }
                Case { hist, aim, mode, edit, cbor, csv }
            })
            .boxed()
    }

    fn run(&self, case: &Case) -> Outcome {
        let mut out = Outcome::new();
        let mut m = Machine::new(false);
        for op in &case.hist.ops {
            let s = m.apply(op);
            if s.skipped.is_some() {
                continue;
            }
            if s.panic.is_some() || s.result.is_err() || s.mismatch.is_some() {
                out.label("stopped_at_foreign_divergence");
                return out;
            }
        }
        let mut store = m.store;
        out.label(["checksum", "text", "both", "auto"][(case.mode % 4) as usize]);
        match catch(|| store.protect_text(mode_of(case.mode))) {
            Ok(Ok(())) => {}
            Ok(Err(e)) => {
                out.fail("protect", "err", format!("protect_text failed: {}", e));
                return out;
            }
            Err(p) => {
                out.fail("protect", p.signature(), format!("protect_text panicked at {}:{}: {}", p.file, p.line, p.msg));
                return out;
            }
        }
        // ---- (A) unchanged text
        let check_valid = |store: &AnnotationStore, stage: &str, out: &mut Outcome| -> Option<Vec<(usize, String, Option<bool>)>> {
            let t = match catch(|| (texts(store), {
                let r = store.validate_text(true);
                (r.valid(), r.invalid(), r.missing())
            })) {
                Ok(x) => x,
                Err(p) => {
                    out.fail("validate", format!("{}|{}", p.signature(), stage), format!("[{}] validation panicked at {}:{}: {}", stage, p.file, p.line, p.msg));
                    return None;
                }
            };
            let (ts, (valid, invalid, _missing)) = t;
            let with_text = ts.iter().filter(|x| !x.1.is_empty()).count();
            out.checks += 2 + ts.len() as u64;
            if invalid != 0 {
                out.fail("unchanged.invalid", stage, format!("[{}] validate_text reports {} invalid annotations although no text changed", stage, invalid));
            }
            if valid != with_text {
                out.fail("unchanged.valid", stage, format!("[{}] validate_text reports {} valid annotations, {} annotations select text", stage, valid, with_text));
            }
            for (i, text, v) in &ts {
                if !text.is_empty() && *v != Some(true) {
                    out.fail("unchanged.annotation", format!("{}|{:?}", stage, v), format!("[{}] annotation #{} (text {:?}) validates to {:?}", stage, i, text, v));
                }
            }
            Some(ts)
        };
        let Some(protected) = check_valid(&store, "protected", &mut out) else { return out };
        if !out.failures.is_empty() {
            return out;
        }
        if protected.iter().any(|x| x.1.chars().count() >= 40) {
            out.label("long_text");
        }
        if protected.iter().all(|x| x.1.is_empty()) {
            out.label("no_text_annotation");
        }
        // ---- (B) save and reload
        let json = match catch(|| store.to_json_string(store.config())) {
            Ok(Ok(s)) => s,
            _ => {
                out.label("stopped_at_foreign_divergence");
                return out;
            }
        };
        if case.cbor {
            out.label("reload_cbor");
            let dir = TempDir::new("c18");
            let f = dir.path("p.store.stam.cbor");
            match catch(|| store.to_file(&f).and_then(|_| AnnotationStore::from_file(&f, Config::default()))) {
                Ok(Ok(s2)) => {
                    check_valid(&s2, "reloaded-cbor", &mut out);
                }
                _ => {
                    out.label("stopped_at_foreign_divergence");
                    return out;
                }
            }
        } else {
            out.label("reload_json");
            match catch(|| AnnotationStore::from_str(&json, Config::default())) {
                Ok(Ok(s2)) => {
                    check_valid(&s2, "reloaded-json", &mut out);
                }
                _ => {
                    out.label("stopped_at_foreign_divergence");
                    return out;
                }
            }
        }
        if case.csv {
            let dir = TempDir::new("c18csv");
            let f = dir.path("p.store.stam.csv");
            // on a copy (saving as CSV changes the store's file names and data format)
            match catch(|| AnnotationStore::from_str(&json, Config::default()).and_then(|mut copy| copy.to_file(&f)).and_then(|_| AnnotationStore::from_file(&f, Config::default()))) {
                Ok(Ok(s2)) => {
                    out.label("reload_csv");
                    check_valid(&s2, "reloaded-csv", &mut out);
                }
                _ => {
                    // whether every store survives a CSV round trip is C15's business
                    out.label("csv_roundtrip_failed");
                }
            }
        }
        if !out.failures.is_empty() {
            return out;
        }
        // ---- (C) edited text
        let Ok(mut doc) = serde_json::from_str::<serde_json::Value>(&json) else {
            out.label("stopped_at_foreign_divergence");
            return out;
        };
        let nres = doc.get("resources").and_then(|r| r.as_array()).map(|a| a.len()).unwrap_or(0);
        if nres == 0 {
            return out;
        }
        let (mut ri, kind) = match &case.edit {
            Edit::Substitute { res, .. } => (pick(*res, nres), "substitute"),
            Edit::Insert { res, .. } => (pick(*res, nres), "insert"),
            Edit::Delete { res, .. } => (pick(*res, nres), "delete"),
        };
        out.label(kind);
        // aimed edits: inside the first selection of a text-selecting annotation
        let mut aimed: Option<(usize, usize)> = None;
        if let Some(k) = case.aim {
            let cands: Vec<(usize, usize, usize)> = store
                .annotations()
                .filter_map(|a| a.textselections().next().map(|t| (t.resource().handle().as_usize(), t.begin(), t.end())))
                .filter(|(_, b, e)| e > b)
                .collect();
            if !cands.is_empty() {
                let (rh, b, e) = cands[pick(k, cands.len())];
                if let Some(ord) = store.resources().position(|r| r.handle().as_usize() == rh) {
                    ri = ord;
                    aimed = Some((b, e));
                    out.label("aimed_edit");
                }
            }
        }
        let old: Vec<char> = doc["resources"][ri]["text"].as_str().unwrap_or("").chars().collect();
        let mut new = old.clone();
        match &case.edit {
            Edit::Substitute { pos, with, .. } => {
                if old.is_empty() {
                    return out;
                }
                let p = match aimed {
                    Some((b, e)) => b + pick(*pos, e - b),
                    None => pick(*pos, old.len()),
                };
                new[p] = if old[p] == *with { '#' } else { *with };
            }
            Edit::Insert { pos, what, .. } => {
                let p = match aimed {
                    Some((b, e)) => b + pick(*pos, e - b + 1),
                    None => pick(*pos, old.len() + 1),
                };
                let w: Vec<char> = if what.is_empty() { vec!['+'] } else { what.chars().collect() };
                for (k, c) in w.into_iter().enumerate() {
                    new.insert(p + k, c);
                }
            }
            Edit::Delete { pos, len, .. } => {
                if old.is_empty() {
                    return out;
                }
                let p = match aimed {
                    Some((b, e)) => b + pick(*pos, e - b),
                    None => pick(*pos, old.len()),
                };
                let l = (*len as usize).min(old.len() - p);
                new.drain(p..p + l);
            }
        }
        doc["resources"][ri]["text"] = serde_json::Value::String(new.iter().collect());
        let edited = ordered_doc(&doc);
        let store3 = match catch(|| AnnotationStore::from_str(&edited, Config::default())) {
            Ok(Ok(s)) => s,
            Ok(Err(_)) => {
                out.label("reload_rejected_after_edit");
                return out;
            }
            Err(p) => {
                out.fail("edited.load", p.signature(), format!("loading the store with the edited text panicked at {}:{}: {}", p.file, p.line, p.msg));
                return out;
            }
        };
        let after = match catch(|| texts(&store3)) {
            Ok(t) => t,
            Err(p) => {
                out.fail("edited.validate", p.signature(), format!("validating after the edit panicked at {}:{}: {}", p.file, p.line, p.msg));
                return out;
            }
        };
        if after.len() != protected.len() {
            out.label("stopped_at_foreign_divergence");
            return out;
        }
        let mut changed = 0;
        let mut untouched = 0;
        for ((i, before_text, before_v), (_, now_text, v)) in protected.iter().zip(after.iter()) {
            if before_text.is_empty() || *before_v != Some(true) {
                continue; // was not protected (selects no text)
            }
            out.checks += 1;
            let differs = before_text != now_text;
            if differs {
                changed += 1;
            } else {
                untouched += 1;
            }
            match (differs, v) {
                (true, Some(false)) | (false, Some(true)) => {}
                (true, other) => out.fail(
                    "edited.missed",
                    format!("{}|{}|{:?}", ["checksum", "text", "both", "auto"][(case.mode % 4) as usize], kind, other),
                    format!("annotation #{}: protected text {:?}, now selects {:?}, but validates to {:?}", i, before_text, now_text, other),
                ),
                (false, other) => out.fail(
                    "edited.false-alarm",
                    format!("{}|{}|{:?}", ["checksum", "text", "both", "auto"][(case.mode % 4) as usize], kind, other),
                    format!("annotation #{}: text {:?} is unchanged, but validates to {:?}", i, before_text, other),
                ),
            }
        }
        if changed > 0 {
            out.label("edit_hits_annotation");
        }
        out.nontrivial = changed > 0 && untouched > 0;
        // aggregate must agree with the per-annotation verdicts
        if out.failures.is_empty() {
            if let Ok(r) = catch(|| {
                let r = store3.validate_text(true);
                (r.valid(), r.invalid())
            }) {
                out.checks += 1;
                let exp_invalid = after.iter().filter(|x| x.2 == Some(false)).count();
                let exp_valid = after.iter().filter(|x| x.2 == Some(true)).count();
                if r != (exp_valid, exp_invalid) {
                    out.fail("edited.aggregate", kind, format!("validate_text reports (valid, invalid) = {:?}, the per-annotation verdicts give ({}, {})", r, exp_valid, exp_invalid));
                }
            }
        }
        out
    }
}
