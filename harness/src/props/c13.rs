//! C13 Text-selection relations have their documented algebraic meaning.
//! Exhaustive small scope + random sets; oracle = interval arithmetic (crate::rel).

use crate::engine::*;
use crate::rel::{self, Op, Rel, R};
use proptest::prelude::*;
use serde::{Deserialize, Serialize};
use stam::*;

pub struct C13;

#[derive(Clone, Debug, Serialize, Deserialize)]
pub struct Case {
    /// whitespace-rich text?
    pub ws: bool,
    /// are the selections known to the store (bound) or ad-hoc (unbound)?
    pub bound: bool,
    pub a: Vec<(u8, u8)>,
    pub b: Vec<(u8, u8)>,
    /// bound only: annotation A is a DirectionalSelector whose members are interleaved with a selection in a second
    /// resource (Annotation::test groups the selections per resource, so this must not change any answer)
    #[serde(default)]
    pub noise: bool,
}

pub const TEXT_PLAIN: &str = "abcdefghijklmnop";
/// 16 codepoints; the whitespace is a mix of ASCII and multi-byte Unicode whitespace (no-break space, ideographic
/// space, thin space) so that byte-wise or ASCII-only whitespace tests show
pub const TEXT_WS: &str = "a\u{a0}b \u{3000}cd\t \u{2009}e fg \n";
pub const LIMITS: [Option<usize>; 4] = [None, Some(0), Some(1), Some(3)];

fn ranges(n: u8) -> Vec<(u8, u8)> {
    let mut v = vec![];
    for b in 0..=n {
        for e in b..=n {
            v.push((b, e));
        }
    }
    v
}

fn small_sets(n: u8, maxsize: usize) -> Vec<Vec<(u8, u8)>> {
    let rs = ranges(n);
    let mut out: Vec<Vec<(u8, u8)>> = vec![];
    for i in 0..rs.len() {
        out.push(vec![rs[i]]);
    }
    if maxsize >= 2 {
        for i in 0..rs.len() {
            for j in i + 1..rs.len() {
                out.push(vec![rs[i], rs[j]]);
                if maxsize >= 3 {
                    for k in j + 1..rs.len() {
                        out.push(vec![rs[i], rs[j], rs[k]]);
                    }
                }
            }
        }
    }
    out
}

fn shape(a: &[R], b: &[R]) -> &'static str {
    let zw = a.iter().chain(b.iter()).any(|r| r.0 == r.1);
    let single = a.len() == 1 && b.len() == 1;
    match (single, zw) {
        (true, false) => "pair",
        (true, true) => "pair-zw",
        (false, false) => "sets",
        (false, true) => "sets-zw",
    }
}

impl Property for C13 {
    type Case = Case;
    fn id(&self) -> &'static str {
        "C13"
    }
    fn rule(&self) -> String {
        "case = (text kind, bound/unbound, set A, set B) of ranges over a 16-codepoint text; every case is evaluated under all 92 operator/modifier combinations (12 relations x all x negate x limit{None,0,1,3} / whitespace) through every entry point (TextSelection::test/test_set, TextSelectionSet::test/test_set, ResultTextSelection::test/test_set, ResultTextSelectionSet::test/test_set, ResultItem<Annotation>::test/test_textselectionset/test_textselection) against interval-arithmetic definitions, plus converse/symmetry/implication/complement/singleton laws on the implementation's own answers. Enumerated part: all pairs of ranges 0<=b<=e<=N and all pairs of duplicate-free sets up to the stated size; random part: sets of size<=4 over N<=14. Non-trivial = the case is in the relation for at least one positive operator and out for another; distinct = distinct case JSON.".into()
    }
    fn assumptions(&self) -> Vec<String> {
        vec![
            "Overlaps with a zero-width operand is treated as a documented fuzzy zone (don't care), counted in dont_care".into(),
            "empty sets are not generated (the high-level set type cannot be built from an empty iterator)".into(),
            "set-level definitions follow the rustdoc of TextSelectionOperator; Equals/InSet with `all` on non-singleton sets and the limit modifier combined with `all` on multi-element sets are don't care where the documentation is silent".into(),
        ]
    }
    fn cases(&self, tier: Tier) -> u64 {
        tier.pick(600_000, 10_000_000)
    }
    fn exhaustive_note(&self, tier: Tier) -> Option<String> {
        Some(match tier {
            Tier::Quick => "all pairs of ranges over N=6 x 2 texts x bound/unbound; all pairs of duplicate-free sets of size<=2 over N=4 x 2 texts (unbound), x all 92 operator/modifier combinations".into(),
            Tier::Thorough => "all pairs of ranges over N=9 x 2 texts x bound/unbound; all pairs of duplicate-free sets of size<=3 over N=4 and size<=2 over N=5 x 2 texts, x all 92 operator/modifier combinations".into(),
        })
    }
    fn enumerate(&self, tier: Tier) -> Vec<Case> {
        let mut v = vec![];
        let n = tier.pick(6, 9);
        let rs = ranges(n);
        for ws in [false, true] {
            for bound in [false, true] {
                for a in &rs {
                    for b in &rs {
                        v.push(Case {
                            ws,
                            bound,
                            a: vec![*a],
                            b: vec![*b],
                            noise: false,
                        });
                    }
                }
            }
        }
        let setspecs: Vec<(u8, usize)> = match tier {
            Tier::Quick => vec![(4, 2)],
            Tier::Thorough => vec![(4, 3), (5, 2)],
        };
        for (n, maxsize) in setspecs {
            let ss = small_sets(n, maxsize);
            for ws in [false, true] {
                for a in &ss {
                    for b in &ss {
                        if a.len() == 1 && b.len() == 1 {
                            continue;
                        }
                        v.push(Case {
                            ws,
                            bound: (a.len() + b.len()) % 2 == 0,
                            a: a.clone(),
                            b: b.clone(),
                            noise: (a.len() * 3 + b.len()) % 3 == 0,
                        });
                    }
                }
            }
        }
        v
    }
    fn strategy(&self, _tier: Tier) -> BoxedStrategy<Case> {
        let range = (0u8..=14, 0u8..=14).prop_map(|(x, y)| if x <= y { (x, y) } else { (y, x) });
        let set = proptest::collection::vec(range, 1..=4).prop_map(|mut v| {
            let mut out: Vec<(u8, u8)> = vec![];
            for r in v.drain(..) {
                if !out.contains(&r) {
                    out.push(r);
                }
            }
            out
        });
        (any::<bool>(), any::<bool>(), set.clone(), set, proptest::bool::weighted(0.3))
            .prop_map(|(ws, bound, a, b, noise)| Case { ws, bound, a, b, noise })
            .boxed()
    }

    fn run(&self, case: &Case) -> Outcome {
        let mut out = Outcome::new();
        let textstr = if case.ws { TEXT_WS } else { TEXT_PLAIN };
        let text: Vec<char> = textstr.chars().collect();
        let a: Vec<R> = case.a.iter().map(|r| (r.0 as usize, r.1 as usize)).collect();
        let b: Vec<R> = case.b.iter().map(|r| (r.0 as usize, r.1 as usize)).collect();
        if a.is_empty() || b.is_empty() || a.iter().chain(b.iter()).any(|r| r.0 > r.1 || r.1 > text.len()) {
            out.skip("invalid case");
            return out;
        }
        let mut store = AnnotationStore::default();
        store
            .add_resource(TextResourceBuilder::new().with_id("r").with_text(textstr))
            .expect("add_resource");
        store
            .add_resource(TextResourceBuilder::new().with_id("q").with_text(textstr))
            .expect("add_resource");
        let mut ann_a = None;
        let mut ann_b = None;
        if case.bound {
            for (which, set) in [(0, &a), (1, &b)] {
                let target = if case.noise && which == 0 {
                    out.label("annotation_with_other_resource_interleaved");
                    let mut members = vec![];
                    for (i, r) in set.iter().enumerate() {
                        members.push(SelectorBuilder::textselector("r", Offset::simple(r.0, r.1)));
                        if i == 0 || i + 1 < set.len() {
                            members.push(SelectorBuilder::textselector("q", Offset::simple(i.min(text.len()), (i + 1).min(text.len()))));
                        }
                    }
                    SelectorBuilder::directionalselector(members)
                } else if set.len() == 1 {
                    SelectorBuilder::textselector("r", Offset::simple(set[0].0, set[0].1))
                } else {
                    SelectorBuilder::multiselector(
                        set.iter()
                            .map(|r| SelectorBuilder::textselector("r", Offset::simple(r.0, r.1))),
                    )
                };
                let h = store
                    .annotate(AnnotationBuilder::new().with_target(target).with_data("s", "k", which as isize))
                    .expect("annotate");
                if which == 0 {
                    ann_a = Some(h);
                } else {
                    ann_b = Some(h);
                }
            }
        }
        let store = &store;
        let resource = store.resource("r").expect("resource");
        let res_low: &TextResource = resource.as_ref();
        let mk = |r: &R| -> ResultTextSelection {
            resource
                .textselection(&Offset::simple(r.0, r.1))
                .expect("textselection in range")
        };
        let ra: Vec<ResultTextSelection> = a.iter().map(mk).collect();
        let rb: Vec<ResultTextSelection> = b.iter().map(mk).collect();
        if case.bound {
            let allbound = ra
                .iter()
                .chain(rb.iter())
                .all(|t| matches!(t, ResultTextSelection::Bound(_)));
            if !allbound {
                out.fail("setup", "bound-selection-not-found", "a selection that was annotated is not returned as a bound selection by textselection()");
            }
            out.label("bound");
        } else {
            out.label("unbound");
        }
        let seta: ResultTextSelectionSet = ra.iter().cloned().collect();
        let setb: ResultTextSelectionSet = rb.iter().cloned().collect();
        // the set as a container: every way of walking it yields exactly the selections it was built from, in that order
        {
            out.checks += 1;
            let want: Vec<(usize, usize)> = a.clone();
            let by_ref: Vec<(usize, usize)> = seta.inner().iter().map(|t| (t.begin(), t.end())).collect();
            let owned = catch(|| seta.inner().clone().into_iter().map(|t| (t.begin(), t.end())).collect::<Vec<_>>());
            let high: Vec<(usize, usize)> = seta.iter().map(|t| (t.begin(), t.end())).collect();
            if by_ref != want || high != want || seta.inner().len() != want.len() {
                out.fail("container", "iter", format!("set built from {:?}: iter() gives {:?}, ResultTextSelectionSet::iter() gives {:?}, len() = {}", want, by_ref, high, seta.inner().len()));
            }
            match owned {
                Ok(v) if v == want => {}
                Ok(v) => out.fail("container", "into_iter", format!("set built from {:?}: into_iter() gives {:?}", want, v)),
                Err(p) => out.fail("panic", format!("container|{}", p.signature()), format!("TextSelectionSet::into_iter panicked: {}", p.msg)),
            }
        }
        let single = a.len() == 1 && b.len() == 1;
        let shp = shape(&a, &b);
        out.label(shp);
        if a.len() > 1 || b.len() > 1 {
            out.label("multi");
        }

        let ops = rel::all_ops(&LIMITS);
        let mut any_true = false;
        let mut any_false = false;
        // implementation answers for the laws (pairwise only): key = op
        let mut answers: Vec<(Op, Option<bool>, Option<bool>)> = vec![]; // (op, a.test(b), b.test(a))

        for op in &ops {
            let sop = op.to_stam();
            let expect_doc = rel::sets(op, &a, &b, &text, true);
            let expect_impl_shape = rel::sets(op, &a, &b, &text, false);
            let opsig = op.sig();
            // member-level entry points (one selection against a set) implement the inner quantifier:
            // "a relates to some b" (with `all`: to every b) - for Equals that is membership, not set equality
            let expect_member = if op.rel == Rel::Equals && !op.all && a.len() == 1 {
                Some(b.contains(&a[0]) != op.negate)
            } else if op.rel == Rel::Embeds && !op.all && a.len() == 1 {
                expect_impl_shape
            } else {
                expect_doc
            };
            let mut results: Vec<(&'static str, bool)> = vec![];
            let mut member_results: Vec<(&'static str, bool)> = vec![];
            // --- set-level entry points
            if let Ok(v) = catch(|| seta.test_set(&sop, &setb)) {
                results.push(("ResultTextSelectionSet::test_set", v));
            } else {
                out.fail("panic", format!("{}|{}|set.test_set", opsig, shp), format!("ResultTextSelectionSet::test_set panicked for {:?} A={:?} B={:?}", sop, a, b));
            }
            match catch(|| seta.inner().test_set(&sop, setb.inner(), res_low)) {
                Ok(v) => results.push(("TextSelectionSet::test_set", v)),
                Err(_) => {}
            }
            if b.len() == 1 {
                match catch(|| seta.test(&sop, &rb[0])) {
                    Ok(v) => results.push(("ResultTextSelectionSet::test", v)),
                    Err(_) => out.fail("panic", format!("{}|{}|set.test", opsig, shp), format!("ResultTextSelectionSet::test panicked for {:?} A={:?} b={:?}", sop, a, b)),
                }
                match catch(|| seta.inner().test(&sop, rb[0].inner(), res_low)) {
                    Ok(v) => results.push(("TextSelectionSet::test", v)),
                    Err(_) => {}
                }
            }
            if a.len() == 1 {
                match catch(|| ra[0].test_set(&sop, &setb)) {
                    Ok(v) => member_results.push(("ResultTextSelection::test_set", v)),
                    Err(_) => out.fail("panic", format!("{}|{}|sel.test_set", opsig, shp), format!("ResultTextSelection::test_set panicked for {:?} a={:?} B={:?}", sop, a, b)),
                }
                match catch(|| ra[0].inner().test_set(&sop, setb.inner(), res_low)) {
                    Ok(v) => member_results.push(("TextSelection::test_set", v)),
                    Err(_) => {}
                }
            }
            if single {
                match catch(|| ra[0].test(&sop, &rb[0])) {
                    Ok(v) => {
                        results.push(("ResultTextSelection::test", v));
                    }
                    Err(_) => out.fail("panic", format!("{}|{}|sel.test", opsig, shp), format!("ResultTextSelection::test panicked for {:?} a={:?} b={:?}", sop, a, b)),
                }
                match catch(|| ra[0].inner().test(&sop, rb[0].inner(), res_low)) {
                    Ok(v) => results.push(("TextSelection::test", v)),
                    Err(_) => {}
                }
                let fwd = catch(|| ra[0].test(&sop, &rb[0])).ok();
                let back = catch(|| rb[0].test(&sop, &ra[0])).ok();
                answers.push((*op, fwd, back));
            }
            if let (Some(ha), Some(hb)) = (ann_a, ann_b) {
                let aa = store.annotation(ha).expect("annotation a");
                let ab = store.annotation(hb).expect("annotation b");
                match catch(|| aa.test(&sop, &ab)) {
                    Ok(v) => results.push(("ResultItem<Annotation>::test", v)),
                    Err(_) => out.fail("panic", format!("{}|{}|annotation.test", opsig, shp), format!("ResultItem<Annotation>::test panicked for {:?} A={:?} B={:?}", sop, a, b)),
                }
                // the same question with the right-hand side given as a set / as a single selection
                match catch(|| aa.test_textselectionset(&sop, &setb)) {
                    Ok(v) => results.push(("ResultItem<Annotation>::test_textselectionset", v)),
                    Err(_) => out.fail("panic", format!("{}|{}|annotation.test_textselectionset", opsig, shp), format!("ResultItem<Annotation>::test_textselectionset panicked for {:?} A={:?} B={:?}", sop, a, b)),
                }
                if b.len() == 1 {
                    match catch(|| aa.test_textselection(&sop, &rb[0])) {
                        Ok(v) => results.push(("ResultItem<Annotation>::test_textselection", v)),
                        Err(_) => out.fail("panic", format!("{}|{}|annotation.test_textselection", opsig, shp), format!("ResultItem<Annotation>::test_textselection panicked for {:?} A={:?} b={:?}", sop, a, b)),
                    }
                }
            }
            // --- compare with the definition
            let tagged: Vec<(&'static str, bool, Option<bool>)> = results
                .iter()
                .map(|(e, v)| (*e, *v, expect_doc))
                .chain(member_results.iter().map(|(e, v)| (*e, *v, expect_member)))
                .collect();
            for (entry, got, expected) in &tagged {
                out.checks += 1;
                match *expected {
                    None => out.dontcare += 1,
                    Some(exp) => {
                        if !op.negate {
                            if exp {
                                any_true = true
                            } else {
                                any_false = true
                            }
                        }
                        if *got != exp {
                            // distinguish the documented-vs-implemented quantifier shape of Embeds
                            let class = if expect_impl_shape == Some(*got) && expect_impl_shape != expect_doc {
                                "quantifier-side"
                            } else {
                                "wrong"
                            };
                            out.fail(
                                "definition",
                                format!("{}|{}|{}", class, opsig, shp),
                                format!("{} with {:?}: A={:?} B={:?} text={:?} expected {} got {}", entry, sop, a, b, textstr, exp, got),
                            );
                        }
                    }
                }
            }
            // all entry points agree with each other (singleton law: sets of one behave as members)
            if b.len() == 1 {
                results.extend(member_results.iter().cloned());
                member_results.clear();
            }
            for results in [&results, &member_results] {
                let Some((e0, v0)) = results.first() else { continue };
                for (e, v) in results.iter().skip(1) {
                    if v != v0 {
                        out.fail(
                            "entrypoints",
                            format!("{}|{}", opsig, shp),
                            format!("{}={} but {}={} for {:?} A={:?} B={:?}", e0, v0, e, v, sop, a, b),
                        );
                    }
                }
            }
        }

        // --- algebraic laws on the implementation's own pairwise answers
        if single {
            let find = |o: &Op| answers.iter().find(|(x, _, _)| x == o);
            let (ra_, rb_) = (a[0], b[0]);
            for (op, fwd, back) in &answers {
                let Some(fwd) = *fwd else { continue };
                // converse / symmetry: a OP b == b OP' a
                if let Some(conv) = op.converse() {
                    if let Some((_, _, Some(cback))) = find(&conv) {
                        out.checks += 1;
                        // Overlaps with zero-width: symmetry still expected (it is a law, not a definition)
                        if fwd != *cback {
                            out.fail(
                                "law.converse",
                                format!("{}|{}", op.sig(), shp),
                                format!("a={:?} b={:?}: a {:?} b = {} but b {:?} a = {}", ra_, rb_, op, fwd, conv, cback),
                            );
                        }
                    }
                }
                // complement
                let neg = Op { negate: !op.negate, ..*op };
                if let Some((_, Some(nf), _)) = find(&neg) {
                    out.checks += 1;
                    if *nf == fwd {
                        out.fail(
                            "law.complement",
                            format!("{}|{}", op.sig(), shp),
                            format!("a={:?} b={:?}: {:?} and its negation both give {}", ra_, rb_, op, fwd),
                        );
                    }
                }
                let _ = back;
                // equals implies embeds, embedded, samebegin, sameend
                if op.rel == Rel::Equals && !op.negate && fwd {
                    for r in [Rel::Embeds, Rel::Embedded, Rel::SameBegin, Rel::SameEnd] {
                        let o = Op { rel: r, all: op.all, negate: false, limit: None, ws: false };
                        if let Some((_, Some(v), _)) = find(&o) {
                            out.checks += 1;
                            if !*v {
                                out.fail("law.equals-implies", format!("{:?}|{}", r, shp), format!("a={:?} b={:?}: equals but not {:?}", ra_, rb_, r));
                            }
                        }
                    }
                }
            }
        }
        out.nontrivial = any_true && any_false;
        out
    }
}
