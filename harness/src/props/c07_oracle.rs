//! C07 oracles: plain string operations on the slice of the searched range.

use super::{obs, obs_match, collect_capped, compile, Case, Ctx, Op, RMatch, Sel};
use crate::engine::*;
use regex::Regex;
use stam::*;

// ------------------------------------------------------------------------------------------
// shared

/// every observed selection must be in the right resource, well-formed, and carry the text that really is at its offsets
fn consistent(out: &mut Outcome, ctx: &Ctx, facet: &str, op: &str, class: &str, sels: &[Sel]) -> bool {
    let mut ok = true;
    for s in sels {
        out.checks += 1;
        if s.res != ctx.resid {
            out.fail(facet, ctx.sig(op, class, "wrong-resource"), format!("result {:?} is not in resource {} [{}]", s, ctx.resid, ctx.describe()));
            ok = false;
        } else if s.b > s.e || s.e > ctx.chars.len() {
            out.fail(facet, ctx.sig(op, class, "malformed-offsets"), format!("result {:?} has malformed offsets [{}]", s, ctx.describe()));
            ok = false;
        } else if s.text != ctx.substr(s.b, s.e) {
            out.fail(facet, ctx.sig(op, class, "text-at-offsets"), format!("result {:?}: text() differs from the text at its offsets {:?} [{}]", s, ctx.substr(s.b, s.e), ctx.describe()));
            ok = false;
        }
    }
    ok
}

fn confined(ctx: &Ctx, sels: &[Sel]) -> Option<Sel> {
    sels.iter().find(|s| s.b < ctx.b || s.e > ctx.e).cloned()
}

fn pairs(sels: &[Sel]) -> Vec<(usize, usize)> {
    sels.iter().map(|s| (s.b, s.e)).collect()
}

fn diff_kind(got: &[(usize, usize)], exp: &[(usize, usize)]) -> &'static str {
    if got.iter().all(|g| exp.contains(g)) && got.len() < exp.len() {
        "missing"
    } else if exp.iter().all(|x| got.contains(x)) && got.len() > exp.len() {
        "extra"
    } else if got.len() == exp.len() && {
        let mut a = got.to_vec();
        let mut b = exp.to_vec();
        a.sort();
        b.sort();
        a == b
    } {
        "order"
    } else {
        "wrong-offset"
    }
}

// ------------------------------------------------------------------------------------------
// exact search

pub fn check_find(out: &mut Outcome, ctx: &Ctx, needle: &str, got: &[Sel], runaway: bool) {
    let exp: Vec<(usize, usize)> = ctx
        .slice
        .match_indices(needle)
        .map(|(i, m)| (ctx.abs(i), ctx.abs(i + m.len())))
        .collect();
    if exp.len() >= 2 {
        out.label("results>=2");
    }
    if !exp.is_empty() {
        out.label("find.hit");
    }
    out.checks += 1;
    if runaway {
        out.fail("find.offsets", ctx.sig("find", "-", "runaway"), format!("find_text({:?}) did not end after {} results [{}]", needle, got.len(), ctx.describe()));
        return;
    }
    if !consistent(out, ctx, "find.offsets", "find", "-", got) {
        return;
    }
    if let Some(s) = confined(ctx, got) {
        out.fail("find.confined", ctx.sig("find", "-", "unconfined"), format!("find_text({:?}) returned {:?} outside the searched range; expected {:?} [{}]", needle, s, exp, ctx.describe()));
        return;
    }
    let g = pairs(got);
    if g != exp {
        out.fail("find.offsets", ctx.sig("find", "-", diff_kind(&g, &exp)), format!("find_text({:?}) returned {:?}, str::match_indices on the slice gives {:?} [{}]", needle, g, exp, ctx.describe()));
    }
}

// ------------------------------------------------------------------------------------------
// case-insensitive search

fn lower_char(c: char) -> String {
    c.to_lowercase().collect()
}

fn lower_chars(s: &[char]) -> String {
    s.iter().map(|c| lower_char(*c)).collect()
}

fn lower_str(s: &str) -> String {
    s.chars().map(lower_char).collect()
}

fn len_changing(c: char) -> bool {
    let l = lower_char(c);
    l.len() != c.len_utf8() || l.chars().count() != 1
}

pub fn nocase_class(ctx: &Ctx, needle: &str) -> &'static str {
    if ctx.chars[ctx.b..ctx.e].iter().any(|c| len_changing(*c)) || needle.chars().any(len_changing) {
        "lenchange"
    } else {
        "simple"
    }
}

/// first occurrence (whole characters) of lower-cased needle `ln` beginning at or after `from`, inside [from, e)
fn nocase_first(chars: &[char], from: usize, e: usize, ln: &str) -> Option<(usize, usize)> {
    let mut p = from;
    while p < e {
        let mut acc = String::new();
        let mut q = p;
        while q < e && acc.len() < ln.len() {
            acc.push_str(&lower_char(chars[q]));
            q += 1;
        }
        if acc == ln {
            return Some((p, q));
        }
        p += 1;
    }
    None
}

fn nocase_reference(chars: &[char], b: usize, e: usize, needle: &str) -> Vec<(usize, usize)> {
    let ln = lower_str(needle);
    let mut res = vec![];
    let mut p = b;
    while let Some((mb, me)) = nocase_first(chars, p, e, &ln) {
        res.push((mb, me));
        p = me;
    }
    res
}

pub fn check_nocase(out: &mut Outcome, ctx: &Ctx, needle: &str, got: &[Sel], runaway: bool) {
    let class = nocase_class(ctx, needle);
    if class == "lenchange" {
        out.label("nocase.lenchange");
    }
    let ln = lower_str(needle);
    let exp = nocase_reference(&ctx.chars, ctx.b, ctx.e, needle);
    if exp.len() >= 2 {
        out.label("results>=2");
    }
    if !exp.is_empty() {
        out.label("nocase.hit");
        if exp.iter().any(|(b, e)| ctx.substr(*b, *e) != needle) {
            out.label("nocase.hit-differs-in-case");
        }
    }
    out.checks += 1;
    if runaway {
        out.fail("nocase.valid", ctx.sig("nocase", class, "runaway"), format!("find_text_nocase({:?}) did not end after {} results [{}]", needle, got.len(), ctx.describe()));
        return;
    }
    if !consistent(out, ctx, "nocase.valid", "nocase", class, got) {
        return;
    }
    if let Some(s) = confined(ctx, got) {
        out.fail("nocase.valid", ctx.sig("nocase", class, "unconfined"), format!("find_text_nocase({:?}) returned {:?} outside the searched range [{}]", needle, s, ctx.describe()));
        return;
    }
    // validity: every result is a case-insensitive occurrence, in order, not overlapping
    let mut valid = true;
    let mut prev_end = ctx.b;
    for s in got {
        out.checks += 1;
        if lower_chars(&ctx.chars[s.b..s.e]) != ln {
            out.fail("nocase.valid", ctx.sig("nocase", class, "not-an-occurrence"), format!("find_text_nocase({:?}) returned {:?} whose text does not lower-case to {:?}; reference: {:?} [{}]", needle, s, ln, exp, ctx.describe()));
            valid = false;
            break;
        }
        if s.b < prev_end {
            out.fail("nocase.valid", ctx.sig("nocase", class, "order"), format!("find_text_nocase({:?}) results out of order / overlapping: {:?} [{}]", needle, pairs(got), ctx.describe()));
            valid = false;
            break;
        }
        prev_end = s.e;
    }
    if !valid {
        return;
    }
    let g = pairs(got);
    if g != exp {
        out.fail("nocase.complete", ctx.sig("nocase", class, diff_kind(&g, &exp)), format!("find_text_nocase({:?}) returned {:?}, the reference scan finds {:?} [{}]", needle, g, exp, ctx.describe()));
    }
}

// ------------------------------------------------------------------------------------------
// sequence search

pub fn skip_char(skip: u8, c: char) -> bool {
    match skip {
        0 => !c.is_alphabetic(),
        1 => c.is_whitespace(),
        2 => true,
        _ => false,
    }
}

fn exact_first(chars: &[char], from: usize, e: usize, frag: &[char]) -> Option<(usize, usize)> {
    if frag.is_empty() || e < from {
        return None;
    }
    let mut p = from;
    while p + frag.len() <= e {
        if &chars[p..p + frag.len()] == frag {
            return Some((p, p + frag.len()));
        }
        p += 1;
    }
    None
}

pub fn check_sequence(out: &mut Outcome, ctx: &Ctx, fragments: &[String], skip: u8, cs: bool, got: Option<Vec<Sel>>) {
    let chars = &ctx.chars;
    // greedy reference: first occurrence of each fragment after the previous match
    let mut greedy: Option<Vec<(usize, usize)>> = Some(vec![]);
    let mut pos = ctx.b;
    for f in fragments {
        let occ = if cs {
            let fc: Vec<char> = f.chars().collect();
            exact_first(chars, pos, ctx.e, &fc)
        } else {
            nocase_first(chars, pos, ctx.e, &lower_str(f))
        };
        match occ {
            Some((b, e)) => {
                greedy.as_mut().unwrap().push((b, e));
                pos = e;
            }
            None => {
                greedy = None;
                break;
            }
        }
    }
    let gaps_ok = |v: &[(usize, usize)], leading: bool| -> bool {
        let mut prev = ctx.b;
        for (i, (b, e)) in v.iter().enumerate() {
            if (i > 0 || leading) && *b >= prev && chars[prev..*b].iter().any(|c| !skip_char(skip, *c)) {
                return false;
            }
            prev = *e;
        }
        true
    };
    // lower-casing that changes the number of characters makes "earliest occurrence ends earliest" unsound
    let lenchange = !cs && (chars[ctx.b..ctx.e].iter().any(|c| len_changing(*c)) || fragments.iter().any(|f| f.chars().any(len_changing)));
    let class = if cs { "cs" } else if lenchange { "nocase.lenchange" } else { "nocase" };
    out.checks += 1;
    match (&greedy, &got) {
        (Some(g), _) if gaps_ok(g, true) => {
            out.label("seq.expected-some");
            if g.len() >= 2 {
                out.label("results>=2");
            }
        }
        (Some(_), _) => out.label("seq.greedy-has-bad-gap"),
        (None, _) => out.label("seq.expected-none"),
    }
    match got {
        None => match greedy {
            Some(g) if gaps_ok(&g, true) => {
                out.fail("sequence", ctx.sig("seq", class, "none-but-exists"), format!("find_text_sequence({:?}, skip={}, case_sensitive={}) returned None, but {:?} is a sequence with only skippable characters in between and before [{}]", fragments, skip, cs, g, ctx.describe()));
            }
            Some(_) => out.dontcare += 1,
            None => {}
        },
        Some(v) => {
            if !consistent(out, ctx, "sequence", "seq", class, &v) {
                return;
            }
            if let Some(s) = confined(ctx, &v) {
                out.fail("sequence", ctx.sig("seq", class, "unconfined"), format!("find_text_sequence({:?}) returned {:?} outside the searched range [{}]", fragments, s, ctx.describe()));
                return;
            }
            if v.len() != fragments.len() {
                out.fail("sequence", ctx.sig("seq", class, "length"), format!("find_text_sequence({:?}) returned {} selections [{}]", fragments, v.len(), ctx.describe()));
                return;
            }
            let p = pairs(&v);
            for (i, s) in v.iter().enumerate() {
                out.checks += 1;
                let okay = if cs { s.text == fragments[i] } else { lower_str(&s.text) == lower_str(&fragments[i]) };
                if !okay {
                    out.fail("sequence", ctx.sig("seq", class, "not-an-occurrence"), format!("find_text_sequence({:?}, case_sensitive={}) returned {:?} for fragment {} [{}]", fragments, cs, s, i, ctx.describe()));
                    return;
                }
                if i > 0 && s.b < v[i - 1].e {
                    out.fail("sequence", ctx.sig("seq", class, "order"), format!("find_text_sequence({:?}) returned selections out of order / overlapping: {:?} [{}]", fragments, p, ctx.describe()));
                    return;
                }
            }
            if !gaps_ok(&p, false) {
                out.fail("sequence", ctx.sig("seq", class, "unskippable-gap"), format!("find_text_sequence({:?}, skip={}) returned {:?} with a non-skippable character between two matches [{}]", fragments, skip, p, ctx.describe()));
                return;
            }
            if greedy.is_none() && !lenchange {
                // cannot happen for a valid v: kept as a sanity cross-check of the reference
                out.fail("sequence", ctx.sig("seq", class, "some-but-impossible"), format!("find_text_sequence({:?}) returned {:?} although no ordered sequence exists [{}]", fragments, p, ctx.describe()));
            }
        }
    }
}

// ------------------------------------------------------------------------------------------
// regular expressions

pub fn regex_class(res: &[Regex], allow_overlap: bool) -> String {
    let cap = if res.iter().any(|r| r.captures_len() > 1) { "cap" } else { "nocap" };
    let n = match res.len() {
        1 => "1expr",
        2 => if allow_overlap { "2expr.overlap" } else { "2expr.nooverlap" },
        _ => if allow_overlap { "3+expr.overlap" } else { "3+expr.nooverlap" },
    };
    format!("{}.{}", n, cap)
}

#[derive(Debug, Clone)]
struct OM {
    whole: (usize, usize),
    sels: Vec<(usize, usize)>,
    groups: Vec<usize>,
}

fn oracle_matches(ctx: &Ctx, re: &Regex) -> Vec<OM> {
    if re.captures_len() == 1 {
        re.find_iter(ctx.slice)
            .map(|m| {
                let w = (ctx.abs(m.start()), ctx.abs(m.end()));
                OM { whole: w, sels: vec![w], groups: vec![] }
            })
            .collect()
    } else {
        re.captures_iter(ctx.slice)
            .map(|c| {
                let m = c.get(0).unwrap();
                let mut sels = vec![];
                let mut groups = vec![];
                for i in 1..c.len() {
                    if let Some(g) = c.get(i) {
                        sels.push((ctx.abs(g.start()), ctx.abs(g.end())));
                        groups.push(i);
                    }
                }
                OM { whole: (ctx.abs(m.start()), ctx.abs(m.end())), sels, groups }
            })
            .collect()
    }
}

fn overlap(a: (usize, usize), b: (usize, usize)) -> bool {
    a.0 < b.1 && b.0 < a.1
}

pub fn check_regex(out: &mut Outcome, ctx: &Ctx, res: &[Regex], allow_overlap: bool, got: &[RMatch], runaway: bool) {
    let class = regex_class(res, allow_overlap);
    let class = class.as_str();
    let anycap = res.iter().any(|r| r.captures_len() > 1);
    if anycap {
        out.label("regex.capture-groups");
    }
    if res.len() > 1 {
        out.label("regex.multi-expr");
        out.label(if allow_overlap { "regex.multi.overlap" } else { "regex.multi.nooverlap" });
    }
    if res.len() > 2 {
        out.label("regex.prepass");
    }
    let patterns: Vec<&str> = res.iter().map(|r| r.as_str()).collect();
    let oracle: Vec<Vec<OM>> = res.iter().map(|r| oracle_matches(ctx, r)).collect();
    let total: usize = oracle.iter().map(|v| v.len()).sum();
    if total >= 2 {
        out.label("results>=2");
    }
    if total >= 1 {
        out.label("regex.hit");
    }
    if oracle.iter().flatten().any(|m| m.whole.0 == m.whole.1) {
        out.label("regex.empty-match");
    }
    if oracle.iter().flatten().any(|m| m.sels.len() >= 2) {
        out.label("regex.two-groups-participate");
    }
    out.checks += 1;
    let facet_for = |k: usize| if res.get(k).map(|r| r.captures_len() > 1).unwrap_or(false) { "regex.groups" } else { "regex.offsets" };
    if runaway {
        out.fail("regex.offsets", ctx.sig("regex", class, "runaway"), format!("find_text_regex({:?}) did not end after {} results [{}]", patterns, got.len(), ctx.describe()));
        return;
    }
    for m in got {
        if m.expr >= res.len() {
            out.fail("regex.offsets", ctx.sig("regex", class, "expression-index"), format!("find_text_regex({:?}) returned expression index {} [{}]", patterns, m.expr, ctx.describe()));
            return;
        }
        if !consistent(out, ctx, facet_for(m.expr), "regex", class, &m.sels) {
            return;
        }
        if let Some(s) = confined(ctx, &m.sels) {
            out.fail(facet_for(m.expr), ctx.sig("regex", class, "unconfined"), format!("find_text_regex({:?}) returned {:?} outside the searched range; oracle: {:?} [{}]", patterns, s, oracle, ctx.describe()));
            return;
        }
    }
    let exact = res.len() == 1 || allow_overlap;
    // per expression: (index into got, index into oracle[k])
    let mut mapping: Vec<(usize, usize, usize)> = vec![]; // (got index, expr, oracle index)
    let mut dropped: Vec<(usize, usize)> = vec![]; // (expr, oracle index)
    for k in 0..res.len() {
        let gk: Vec<(usize, &RMatch)> = got.iter().enumerate().filter(|(_, m)| m.expr == k && !m.sels.is_empty()).collect();
        let empties_got = got.iter().filter(|m| m.expr == k && m.sels.is_empty()).count();
        let ok: Vec<(usize, &OM)> = oracle[k].iter().enumerate().filter(|(_, m)| !m.sels.is_empty()).collect();
        let empties_or = oracle[k].len() - ok.len();
        out.dontcare += (empties_got + empties_or) as u64;
        let gp: Vec<Vec<(usize, usize)>> = gk.iter().map(|(_, m)| pairs(&m.sels)).collect();
        let facet = facet_for(k);
        let mut j = 0usize;
        for (gi, (gidx, m)) in gk.iter().enumerate() {
            out.checks += 1;
            let mut found = None;
            if exact {
                if gi < ok.len() && ok[gi].1.sels == gp[gi] {
                    found = Some(gi);
                }
            } else {
                // two consecutive matches may have identical (zero-width) group spans: prefer the candidate whose
                // participating groups agree as well, fall back to spans only (reported as a capturegroups failure below)
                let hascap = res[k].captures_len() > 1;
                let target = (j..ok.len())
                    .find(|x| ok[*x].1.sels == gp[gi] && (!hascap || ok[*x].1.groups == m.groups))
                    .or_else(|| (j..ok.len()).find(|x| ok[*x].1.sels == gp[gi]));
                if let Some(t) = target {
                    while j < t {
                        dropped.push((k, ok[j].0));
                        j += 1;
                    }
                    found = Some(t);
                }
            }
            match found {
                Some(oi) => {
                    j = oi + 1;
                    if res[k].captures_len() > 1 && m.groups != ok[oi].1.groups {
                        out.fail("regex.groups", ctx.sig("regex", class, "capturegroups"), format!("find_text_regex({:?}): match {:?} of expression {} reports capture groups {:?}, the regex crate says {:?} [{}]", patterns, gp[gi], k, m.groups, ok[oi].1.groups, ctx.describe()));
                        return;
                    }
                    mapping.push((*gidx, k, ok[oi].0));
                }
                None => {
                    let flat_exp: Vec<Vec<(usize, usize)>> = ok.iter().map(|(_, m)| m.sels.clone()).collect();
                    let kind = if exact {
                        let g1: Vec<(usize, usize)> = gp.iter().flatten().cloned().collect();
                        let e1: Vec<(usize, usize)> = flat_exp.iter().flatten().cloned().collect();
                        diff_kind(&g1, &e1)
                    } else {
                        "not-a-match"
                    };
                    out.fail(facet, ctx.sig("regex", class, kind), format!("find_text_regex({:?}, allow_overlap={}): expression {} returned {:?}, the regex crate on the slice gives {:?} [{}]", patterns, allow_overlap, k, gp, flat_exp, ctx.describe()));
                    return;
                }
            }
        }
        if exact {
            if gk.len() != ok.len() {
                let flat_exp: Vec<Vec<(usize, usize)>> = ok.iter().map(|(_, m)| m.sels.clone()).collect();
                out.fail(facet, ctx.sig("regex", class, if gk.len() < ok.len() { "missing" } else { "extra" }), format!("find_text_regex({:?}, allow_overlap={}): expression {} returned {:?}, the regex crate on the slice gives {:?} [{}]", patterns, allow_overlap, k, gp, flat_exp, ctx.describe()));
                return;
            }
        } else {
            while j < ok.len() {
                dropped.push((k, ok[j].0));
                j += 1;
            }
        }
    }
    if res.len() < 2 {
        return;
    }
    // ---- global order: by whole-match begin or by first-capture begin
    mapping.sort();
    let key_whole: Vec<usize> = mapping.iter().map(|(_, k, oi)| oracle[*k][*oi].whole.0).collect();
    let key_cap: Vec<usize> = mapping.iter().map(|(_, k, oi)| oracle[*k][*oi].sels.iter().map(|s| s.0).min().unwrap()).collect();
    let sorted = |v: &[usize]| v.windows(2).all(|w| w[0] <= w[1]);
    out.checks += 1;
    if !sorted(&key_whole) && !sorted(&key_cap) {
        let seq: Vec<(usize, Vec<(usize, usize)>)> = mapping.iter().map(|(_, k, oi)| (*k, oracle[*k][*oi].sels.clone())).collect();
        out.fail(if anycap { "regex.groups" } else { "regex.offsets" }, ctx.sig("regex", class, "order"), format!("find_text_regex({:?}, allow_overlap={}) results are not in textual order (neither by match begin {:?} nor by first capture begin {:?}): {:?} [{}]", patterns, allow_overlap, key_whole, key_cap, seq, ctx.describe()));
        return;
    }
    if allow_overlap {
        return;
    }
    // ---- allow_overlap = false
    let hull = |k: usize, oi: usize| -> (usize, usize) {
        let m = &oracle[k][oi];
        (m.sels.iter().map(|s| s.0).min().unwrap(), m.sels.iter().map(|s| s.1).max().unwrap())
    };
    for (a, (_, ka, oa)) in mapping.iter().enumerate() {
        for (_, kb, ob) in mapping.iter().skip(a + 1) {
            if ka == kb {
                continue;
            }
            let (ha, hb) = (hull(*ka, *oa), hull(*kb, *ob));
            if ha.0 == ha.1 || hb.0 == hb.1 {
                out.dontcare += 1;
                continue;
            }
            out.checks += 1;
            if overlap(ha, hb) {
                out.fail(if anycap { "regex.groups" } else { "regex.offsets" }, ctx.sig("regex", class, "overlapping-results"), format!("find_text_regex({:?}, allow_overlap=false) returned overlapping results {:?} (expression {}) and {:?} (expression {}) [{}]", patterns, ha, ka, hb, kb, ctx.describe()));
                return;
            }
        }
    }
    for (k, oi) in &dropped {
        let w = oracle[*k][*oi].whole;
        if w.0 == w.1 {
            out.dontcare += 1;
            continue;
        }
        out.checks += 1;
        // matches in which no capture group participates are don't-care: whether or not they were returned cannot be
        // observed, so they may justify a drop
        let justified = mapping.iter().any(|(_, k2, o2)| k2 != k && overlap(w, oracle[*k2][*o2].whole))
            || oracle.iter().enumerate().any(|(k2, v)| k2 != *k && v.iter().any(|m| m.sels.is_empty() && overlap(w, m.whole)))
            // ambiguity: a returned match of the same expression with identical spans may be this one
            || mapping.iter().any(|(_, k2, o2)| k2 == k && oracle[*k2][*o2].sels == oracle[*k][*oi].sels);
        if !justified {
            let returned: Vec<(usize, (usize, usize))> = mapping.iter().map(|(_, k2, o2)| (*k2, oracle[*k2][*o2].whole)).collect();
            out.fail(if anycap { "regex.groups" } else { "regex.offsets" }, ctx.sig("regex", class, "dropped-without-overlap"), format!("find_text_regex({:?}, allow_overlap=false) dropped match {:?} of expression {} although it overlaps no returned match of another expression; returned (expression, match): {:?} [{}]", patterns, w, k, returned, ctx.describe()));
            return;
        }
    }
}

// ------------------------------------------------------------------------------------------
// split

pub fn check_split(out: &mut Outcome, ctx: &Ctx, delimiter: &str, got: &[Sel], runaway: bool) {
    let mut exp: Vec<(usize, usize)> = vec![];
    for piece in ctx.slice.split(delimiter) {
        let off = piece.as_ptr() as usize - ctx.slice.as_ptr() as usize;
        exp.push((ctx.abs(off), ctx.abs(off + piece.len())));
    }
    if exp.len() >= 2 {
        out.label("results>=2");
        out.label("split.hit");
    }
    if exp.iter().any(|(b, e)| b == e) {
        out.label("split.empty-piece");
    }
    let class = if exp.iter().any(|(b, e)| b == e) { "emptypiece" } else { "-" };
    out.checks += 1;
    if runaway {
        out.fail("split.pieces", ctx.sig("split", class, "runaway"), format!("split_text({:?}) did not end after {} pieces [{}]", delimiter, got.len(), ctx.describe()));
        return;
    }
    if !consistent(out, ctx, "split.pieces", "split", class, got) {
        return;
    }
    let g = pairs(got);
    // partition facet: consecutive, non-overlapping, inside the range, cover it modulo delimiters
    let dlen = delimiter.chars().count();
    let mut part_ok = !g.is_empty() && g[0].0 == ctx.b && g[g.len() - 1].1 == ctx.e;
    for w in g.windows(2) {
        if w[1].0 != w[0].1 + dlen {
            part_ok = false;
        }
    }
    for (b, e) in g.iter().take(g.len().saturating_sub(1)) {
        let _ = b;
        if *e + dlen > ctx.e || ctx.substr(*e, *e + dlen) != delimiter {
            part_ok = false;
        }
    }
    out.checks += 1;
    if !part_ok {
        let kind = if confined(ctx, got).is_some() { "unconfined" } else { "not-a-partition" };
        out.fail("split.partition", ctx.sig("split", class, kind), format!("split_text({:?}) pieces {:?} do not partition the searched range (expected {:?}) [{}]", delimiter, g, exp, ctx.describe()));
        return;
    }
    if g != exp {
        out.fail("split.pieces", ctx.sig("split", class, diff_kind(&g, &exp)), format!("split_text({:?}) returned {:?}, str::split on the slice gives {:?} [{}]", delimiter, g, exp, ctx.describe()));
    }
}

// ------------------------------------------------------------------------------------------
// trim

pub fn check_trim(out: &mut Outcome, ctx: &Ctx, set: &[char], got: Result<Sel, String>) {
    let trimmed = ctx.slice.trim_matches(|c| set.contains(&c));
    let n = ctx.e - ctx.b;
    let tb = ctx.chars[ctx.b..ctx.e].iter().take_while(|c| set.contains(c)).count();
    out.checks += 1;
    if tb == n {
        // everything is trimmed away (or the range is empty): Err or any empty selection inside the range
        out.label("trim.all");
        match got {
            Err(_) => out.dontcare += 1,
            Ok(s) => {
                if !consistent(out, ctx, "trim", "trim", "all", std::slice::from_ref(&s)) {
                    return;
                }
                if s.b != s.e || s.b < ctx.b || s.e > ctx.e {
                    out.fail("trim", ctx.sig("trim", "all", "not-empty"), format!("trim_text({:?}) on text consisting only of trimmed characters returned {:?} [{}]", set, s, ctx.describe()));
                }
            }
        }
        return;
    }
    let te = ctx.chars[ctx.b..ctx.e].iter().rev().take_while(|c| set.contains(c)).count();
    let exp = (ctx.b + tb, ctx.e - te);
    if tb > 0 || te > 0 {
        out.label("trim.effective");
        if tb > 0 && te > 0 {
            out.label("results>=2");
        }
    }
    debug_assert_eq!(ctx.substr(exp.0, exp.1), trimmed);
    match got {
        Err(e) => out.fail("trim", ctx.sig("trim", "-", "error"), format!("trim_text({:?}) returned Err({}) but trim_matches gives {:?} at {:?} [{}]", set, e, trimmed, exp, ctx.describe())),
        Ok(s) => {
            if !consistent(out, ctx, "trim", "trim", "-", std::slice::from_ref(&s)) {
                return;
            }
            if (s.b, s.e) != exp {
                let kind = if s.b < ctx.b || s.e > ctx.e { "unconfined" } else { "wrong-offset" };
                out.fail("trim", ctx.sig("trim", "-", kind), format!("trim_text({:?}) returned {:?}, trim_matches gives {:?} at {:?} [{}]", set, s, trimmed, exp, ctx.describe()));
            }
        }
    }
}

// ------------------------------------------------------------------------------------------
// segmentation

fn check_segmentation(out: &mut Outcome, ctx: &Ctx, known: &[(usize, usize)], got: &[Sel], runaway: bool) {
    let (b, e) = (ctx.b, ctx.e);
    let mut cuts: Vec<usize> = vec![b, e];
    for (kb, ke) in known {
        for p in [*kb, *ke] {
            if p > b && p < e && !cuts.contains(&p) {
                cuts.push(p);
            }
        }
    }
    cuts.sort();
    let inner = cuts.len() - 2;
    if inner >= 1 {
        out.label("results>=2");
    }
    let zw = known.iter().any(|(kb, ke)| kb == ke && *kb > b && *kb < e);
    let class = if zw { "zwknown" } else { "-" };
    if zw {
        out.label("seg.zero-width-known-inside");
    }
    out.checks += 1;
    if runaway {
        out.fail("segmentation", ctx.sig("seg", class, "runaway"), format!("segmentation did not end after {} segments [{}]", got.len(), ctx.describe()));
        return;
    }
    if b == e {
        out.dontcare += 1;
        out.label("seg.empty-range");
        return;
    }
    if !consistent(out, ctx, "segmentation", "seg", class, got) {
        return;
    }
    let g = pairs(got);
    let mut cover = !g.is_empty() && g[0].0 == b && g[g.len() - 1].1 == e;
    for w in g.windows(2) {
        if w[0].1 != w[1].0 {
            cover = false;
        }
    }
    if g.iter().any(|(x, y)| x >= y) {
        cover = false;
    }
    out.checks += 1;
    if !cover {
        let kind = if confined(ctx, got).is_some() { "unconfined" } else { "not-a-partition" };
        out.fail("segmentation", ctx.sig("seg", class, kind), format!("segmentation {:?} is not a partition of the range ({},{}) into consecutive non-empty pieces; known selections {:?} [{}]", g, b, e, known, ctx.describe()));
        return;
    }
    let exp: Vec<(usize, usize)> = cuts.windows(2).map(|w| (w[0], w[1])).collect();
    out.checks += exp.len() as u64;
    if g != exp {
        let gotcuts: Vec<usize> = g.iter().map(|x| x.0).chain(std::iter::once(e)).collect();
        let kind = if cuts.iter().any(|c| !gotcuts.contains(c)) { "missing-cut" } else { "extra-cut" };
        out.fail("segmentation", ctx.sig("seg", class, kind), format!("segmentation {:?} but the boundaries of the known selections {:?} inside ({},{}) give {:?} [{}]", g, known, b, e, exp, ctx.describe()));
    }
}

pub fn run_segmentation(out: &mut Outcome, res: &ResultItem<TextResource>, text0: &str, sub: Option<(usize, usize)>, known: &[(usize, usize)]) {
    let len = text0.chars().count();
    if known.len() >= 2 {
        out.label("seg.known>=2");
    }
    let (b, e) = sub.unwrap_or((0, len));
    let collect = |it: SegmentationIter| -> (Vec<Sel>, bool) {
        let (v, runaway) = collect_capped(it);
        (v.iter().map(obs).collect(), runaway)
    };
    let mut run = |out: &mut Outcome, entry: &'static str, f: &dyn Fn() -> Option<(Vec<Sel>, bool)>| {
        let ctx = Ctx::new("r0", text0, sub, entry);
        match catch(|| f()) {
            Ok(Some((got, runaway))) => check_segmentation(out, &ctx, known, &got, runaway),
            Ok(None) => out.fail("setup", "textselection-for-segmentation", "textselection() failed"),
            Err(p) => out.fail("panic", format!("{}|{}", ctx.sig("seg", "-", "panic"), p.signature()), format!("{} panicked at {}:{}: {} known={:?} [{}]", entry, p.file, p.line, p.msg, known, ctx.describe())),
        }
    };
    if sub.is_none() {
        run(out, "seg.res", &|| Some(collect(res.segmentation())));
    }
    run(out, "seg.range", &|| Some(collect(res.segmentation_in_range(b, e))));
    run(out, "seg.sel", &|| {
        let sel = res.textselection(&Offset::simple(b, e)).ok()?;
        let r = collect(sel.segmentation());
        Some(r)
    });
}

// ------------------------------------------------------------------------------------------
// store-wide searches

pub fn run_storewide(out: &mut Outcome, store: &AnnotationStore, texts: &[String], op: &Op) {
    let resid = |i: usize| format!("r{}", i);
    match op {
        Op::Find { needle } => {
            out.label("storewide");
            match catch(|| {
                let (v, runaway) = collect_capped(store.find_text(needle.as_str()));
                (v.iter().map(obs).collect::<Vec<_>>(), runaway)
            }) {
                Ok((got, runaway)) => {
                    for (i, t) in texts.iter().enumerate() {
                        let ctx = Ctx::new(&resid(i), t, None, "store");
                        let mine: Vec<Sel> = got.iter().filter(|s| s.res == ctx.resid).cloned().collect();
                        check_find(out, &ctx, needle, &mine, runaway);
                    }
                    if got.iter().any(|s| !(0..texts.len()).any(|i| s.res == resid(i))) {
                        out.fail("find.offsets", "find|-|wrong-resource|store", format!("store.find_text({:?}) returned a selection in an unknown resource: {:?}", needle, got));
                    }
                }
                Err(p) => out.fail("panic", format!("find|-|panic|store|{}", p.signature()), format!("AnnotationStore::find_text({:?}) panicked at {}:{}: {} texts={:?}", needle, p.file, p.line, p.msg, texts)),
            }
        }
        Op::FindNoCase { needle } => {
            out.label("storewide");
            match catch(|| {
                let (v, runaway) = collect_capped(store.find_text_nocase(needle.as_str()));
                (v.iter().map(obs).collect::<Vec<_>>(), runaway)
            }) {
                Ok((got, runaway)) => {
                    for (i, t) in texts.iter().enumerate() {
                        let ctx = Ctx::new(&resid(i), t, None, "store");
                        let mine: Vec<Sel> = got.iter().filter(|s| s.res == ctx.resid).cloned().collect();
                        check_nocase(out, &ctx, needle, &mine, runaway);
                    }
                }
                Err(p) => out.fail("panic", format!("nocase|-|panic|store|{}", p.signature()), format!("AnnotationStore::find_text_nocase({:?}) panicked at {}:{}: {} texts={:?}", needle, p.file, p.line, p.msg, texts)),
            }
        }
        Op::Regex { exprs, precompiled, allow_overlap } => {
            let Some((res, set)) = compile(exprs, *precompiled) else { return };
            out.label("storewide");
            match catch(|| {
                let (v, runaway) = collect_capped(store.find_text_regex(&res, &set, *allow_overlap));
                (v.iter().map(obs_match).collect::<Vec<_>>(), runaway)
            }) {
                Ok((got, runaway)) => {
                    for (i, t) in texts.iter().enumerate() {
                        let ctx = Ctx::new(&resid(i), t, None, "store");
                        let mine: Vec<RMatch> = got.iter().filter(|m| m.sels.first().map(|s| s.res == ctx.resid).unwrap_or(false)).cloned().collect();
                        check_regex(out, &ctx, &res, *allow_overlap, &mine, runaway);
                    }
                }
                Err(p) => out.fail("panic", format!("regex|-|panic|store|{}", p.signature()), format!("AnnotationStore::find_text_regex({:?}) panicked at {}:{}: {} texts={:?}", exprs, p.file, p.line, p.msg, texts)),
            }
        }
        _ => {}
    }
}

pub fn finish_labels(out: &mut Outcome, nonascii: bool, case: &Case) {
    let has = |out: &Outcome, l: &str| out.labels.iter().any(|x| x == l);
    let begin_gt0 = matches!(case.sub, Some((b, _)) if b > 0);
    out.nontrivial = nonascii && (begin_gt0 || has(out, "results>=2"));
    if out.nontrivial {
        out.label("nontrivial");
    }
}
