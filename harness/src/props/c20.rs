//! C20 Concurrent readers of a shared store see sequential results.
//!
//! A case is a final store of a generated history (inline, with stand-off members, or re-loaded from CBOR),
//! two or three reader scripts and a schedule. The scripts run on real OS threads under a deterministic
//! cooperative scheduler: every thread blocks at each H2 yield point (`stam::verif_hooks::yield_point`, called
//! right before the serialisation-mode cell of `Config` and the `changed` flags are read or written) until the
//! scheduler hands it the baton. The oracle is differential by the nature of the property: what each thread
//! obtains must equal what the same script obtains when it runs alone on an identical store.
//!
//! Beyond the scheduled runs: `ROp::ParallelMap` also checks that `.parallel()` hands on exactly the items of the
//! iterator it is called on (facet `parallel.sequential`), `ROp::SearchLoop` and the searching scenarios give the
//! free-running (`stress`) runs a long window of concurrent searches on one resource (state that is not behind a
//! yield point is out of the scheduler's reach), and `Layout::Standoff::block` makes the stand-off file of a
//! changed member unwritable, so that every reader has to obtain the same error.
//!
//! All scheduler state is per run (an `Arc<Sched>` registered in a thread-local of the participating threads);
//! the process-wide callback only dispatches to it, so threads that are not managed (rayon workers, other cases
//! running concurrently in the same process) pass through yield points untouched.

use crate::engine::*;
use crate::hist::*;
use crate::model::Val;
use crate::props::c05::{final_store, TempDir};
use proptest::prelude::*;
use rayon::iter::ParallelIterator;
use serde::{Deserialize, Serialize};
use stam::*;
use std::cell::RefCell;
use std::collections::{BTreeMap, BTreeSet};
use std::sync::atomic::{AtomicBool, AtomicU64, Ordering};
use std::sync::{Arc, Condvar, Mutex, MutexGuard, Once};
use std::time::{Duration, Instant};

pub struct C20;

// ------------------------------------------------------------------------------------------------
// case

#[derive(Clone, Debug, Serialize, Deserialize, PartialEq)]
pub enum Cfg {
    /// a clone of the store's configuration (shares its serialisation-mode cell)
    Store { compact: bool },
    /// a clone of the member's own configuration
    Member { compact: bool },
    /// a fresh configuration that shares nothing with the store
    Fresh { compact: bool },
}

#[derive(Clone, Debug, Serialize, Deserialize, PartialEq)]
pub enum ROp {
    /// `ToJson::to_json_string` on the store
    StoreJson(Cfg),
    /// `ToJson::to_json_value` on the store
    StoreValue,
    /// `ToJson::to_json_file` on the store, to a file private to the (thread, operation)
    StoreFile(Cfg),
    /// `AnnotationStore::save(&self)`
    StoreSave,
    /// `ToJson::to_json_string(dataset, config)`
    DatasetJson { set: u16, cfg: Cfg },
    /// the inherent `AnnotationDataSet::to_json_string()`
    DatasetJsonPlain { set: u16 },
    DatasetValue { set: u16 },
    /// `ToJson::to_json_file(dataset, private file, config)`
    DatasetFile { set: u16, cfg: Cfg },
    ResourceJson { res: u16, cfg: Cfg },
    ResourceJsonPlain { res: u16 },
    ResourceValue { res: u16 },
    ResourceFile { res: u16, cfg: Cfg },
    /// one of a fixed list of SELECT queries
    Query(u8),
    FindText { res: u16, needle: u8 },
    RelatedText { res: u16, sel: u16, op: u8 },
    /// `.parallel().map(..).collect()` over one of `PAR_SOURCES` (index modulo their number; 0-3 are the
    /// store-level iterators of the first version, the others are member-level, flattened, repeating and
    /// reversed sources)
    ParallelMap(u8),
    /// plain iteration over the annotations with their data and text
    Iterate,
    /// `reps` identical rounds of text searches on one resource (find_text, find_text_nocase, find_text_regex,
    /// split_text, utf8byte / utf8byte_to_charpos round trips); the output is a digest over all rounds plus the
    /// first round in full
    SearchLoop { res: u16, needle: u8, reps: u16 },
}

impl ROp {
    pub fn kind(&self) -> &'static str {
        match self {
            ROp::StoreJson(_) => "store.to_json_string",
            ROp::StoreValue => "store.to_json_value",
            ROp::StoreFile(_) => "store.to_json_file",
            ROp::StoreSave => "store.save",
            ROp::DatasetJson { .. } => "dataset.to_json_string",
            ROp::DatasetJsonPlain { .. } => "dataset.to_json_string_plain",
            ROp::DatasetValue { .. } => "dataset.to_json_value",
            ROp::DatasetFile { .. } => "dataset.to_json_file",
            ROp::ResourceJson { .. } => "resource.to_json_string",
            ROp::ResourceJsonPlain { .. } => "resource.to_json_string_plain",
            ROp::ResourceValue { .. } => "resource.to_json_value",
            ROp::ResourceFile { .. } => "resource.to_json_file",
            ROp::Query(_) => "query",
            ROp::FindText { .. } => "find_text",
            ROp::RelatedText { .. } => "related_text",
            ROp::ParallelMap(_) => "parallel_map",
            ROp::Iterate => "iterate",
            ROp::SearchLoop { .. } => "search_loop",
        }
    }
}

fn is_zero_u16(x: &u16) -> bool {
    *x == 0
}
fn is_false(x: &bool) -> bool {
    !*x
}
const SUBDIR: &str = "sub";

#[derive(Clone, Debug, Serialize, Deserialize, PartialEq)]
pub enum Layout {
    /// the store as the history built it: no member has a stand-off file
    Inline,
    /// resources / datasets selected by `mask` (bit i = i-th resource, bit 8+i = i-th dataset) are moved to
    /// @include files and the document is loaded with use_include; `settle`: the store is serialised once
    /// before it is shared, so that no member is flagged as changed any more
    ///
    /// `block` (same bit layout as `mask`): after the store has been loaded (and settled) the stand-off file of
    /// every selected stand-off member is replaced by a directory of the same name, so that it cannot be written
    /// (we may run as root: permissions would not do). A serialisation that has to rewrite such a member fails.
    Standoff {
        mask: u16,
        json_resources: bool,
        settle: bool,
        #[serde(default, skip_serializing_if = "is_zero_u16")]
        block: u16,
        /// the stand-off files live in the subdirectory `sub/` of the store's directory, and that directory is
        /// removed (with everything in it) once the store has been loaded (and settled): a serialisation that
        /// has to rewrite a member finds no directory to put the file into. On the unchanged tree it fails, alone
        /// as well as next to other readers; what is compared is, as always, alone against together (`block` is
        /// ignored then).
        #[serde(default, skip_serializing_if = "is_false")]
        subdir: bool,
    },
    /// like Standoff, then saved as CBOR and loaded again (members keep their file names, the serialisation
    /// mode cells start as NoInclude)
    Cbor { mask: u16, json_resources: bool },
}

#[derive(Clone, Debug, Serialize, Deserialize)]
pub struct Case {
    pub hist: History,
    pub layout: Layout,
    /// one script per reader thread (2 or 3)
    pub scripts: Vec<Vec<ROp>>,
    /// at every yield point with more than one runnable thread the next entry chooses who proceeds
    /// (index modulo the number of runnable threads into: current thread first, then the others ascending;
    /// so 0 = no context switch); an exhausted schedule continues with 0
    pub schedule: Vec<u8>,
    /// additional unscheduled runs on free-running threads (best effort)
    pub stress: u8,
}

// ------------------------------------------------------------------------------------------------
// the cooperative scheduler

const WAIT_TIMEOUT: Duration = Duration::from_secs(20);
const STEP_BOUND: usize = 20_000;

#[derive(Clone, Copy, PartialEq, Debug)]
enum Phase {
    NotArrived,
    Waiting,
    Running,
    Done,
}

#[derive(Clone, Copy, Debug, PartialEq)]
enum EvKind {
    OpStart,
    OpEnd,
    /// the thread reached a yield point
    Arrive,
    /// the thread was resumed from the yield point: the access to the cell happens now
    Access,
}

#[derive(Clone, Copy, Debug)]
struct Ev {
    t: u8,
    op: u8,
    kind: EvKind,
    label: &'static str,
}

struct St {
    phase: Vec<Phase>,
    baton: Option<usize>,
    /// Some(reason): the scheduler gave up; every thread runs freely to completion
    free: Option<&'static str>,
    schedule: Vec<u8>,
    pos: usize,
    /// (chosen, options) of every decision that had more than one option
    choices: Vec<(u8, u8)>,
    log: Vec<Ev>,
    cur_op: Vec<u8>,
    steps: usize,
}

struct Sched {
    st: Mutex<St>,
    cv: Condvar,
}

thread_local! {
    static CURRENT: RefCell<Option<(Arc<Sched>, usize)>> = RefCell::new(None);
}

static INIT: Once = Once::new();
static TIMEOUTS: AtomicU64 = AtomicU64::new(0);

fn dispatch(label: &'static str) {
    let cur = CURRENT.try_with(|c| c.try_borrow().ok().and_then(|b| b.clone())).ok().flatten();
    if let Some((sched, tid)) = cur {
        sched.yield_at(tid, label);
    }
}

fn ensure_callback() {
    INIT.call_once(|| stam::verif_hooks::set_yield_callback(Some(dispatch)));
}

impl Sched {
    fn new(n: usize, schedule: &[u8]) -> Arc<Sched> {
        Arc::new(Sched {
            st: Mutex::new(St {
                phase: vec![Phase::NotArrived; n],
                baton: None,
                free: None,
                schedule: schedule.to_vec(),
                pos: 0,
                choices: vec![],
                log: vec![],
                cur_op: vec![0; n],
                steps: 0,
            }),
            cv: Condvar::new(),
        })
    }

    fn lock(&self) -> MutexGuard<'_, St> {
        self.st.lock().unwrap_or_else(|e| e.into_inner())
    }

    fn give_up(&self, g: &mut St, reason: &'static str) {
        if g.free.is_none() {
            g.free = Some(reason);
        }
        self.cv.notify_all();
    }

    /// who runs next: the options are the current thread (if it can continue) followed by the other waiting
    /// threads in ascending order
    fn decide(g: &mut St, current: Option<usize>) -> Option<usize> {
        let mut options: Vec<usize> = vec![];
        if let Some(c) = current {
            if g.phase[c] == Phase::Waiting {
                options.push(c);
            }
        }
        for t in 0..g.phase.len() {
            if Some(t) != current && g.phase[t] == Phase::Waiting {
                options.push(t);
            }
        }
        match options.len() {
            0 => None,
            1 => Some(options[0]),
            len => {
                let c = g.schedule.get(g.pos).copied().unwrap_or(0);
                g.pos += 1;
                let idx = c as usize % len;
                g.choices.push((idx as u8, len as u8));
                Some(options[idx])
            }
        }
    }

    fn wait_for_baton<'a>(&'a self, mut g: MutexGuard<'a, St>, tid: usize) -> MutexGuard<'a, St> {
        let deadline = Instant::now() + WAIT_TIMEOUT;
        loop {
            if g.free.is_some() || g.baton == Some(tid) {
                return g;
            }
            let now = Instant::now();
            if now >= deadline {
                self.give_up(&mut g, "scheduler timeout");
                return g;
            }
            g = match self.cv.wait_timeout(g, deadline - now) {
                Ok((g, _)) => g,
                Err(e) => e.into_inner().0,
            };
        }
    }

    /// first stop of every managed thread, before it touches the store
    fn arrive(&self, tid: usize) {
        let mut g = self.lock();
        g.phase[tid] = Phase::Waiting;
        self.cv.notify_all();
        let mut g = self.wait_for_baton(g, tid);
        g.phase[tid] = Phase::Running;
    }

    /// controller: wait until every thread has arrived, then hand out the baton for the first time
    fn start(&self) {
        let mut g = self.lock();
        let deadline = Instant::now() + WAIT_TIMEOUT;
        loop {
            if g.free.is_some() {
                return;
            }
            if g.phase.iter().all(|p| *p == Phase::Waiting) {
                break;
            }
            let now = Instant::now();
            if now >= deadline {
                self.give_up(&mut g, "scheduler timeout");
                return;
            }
            g = match self.cv.wait_timeout(g, deadline - now) {
                Ok((g, _)) => g,
                Err(e) => e.into_inner().0,
            };
        }
        let next = Sched::decide(&mut g, None);
        g.baton = next;
        self.cv.notify_all();
    }

    fn yield_at(&self, tid: usize, label: &'static str) {
        let mut g = self.lock();
        if g.free.is_some() {
            return;
        }
        if g.baton != Some(tid) {
            self.give_up(&mut g, "scheduler invariant broken");
            return;
        }
        g.steps += 1;
        if g.steps > STEP_BOUND {
            self.give_up(&mut g, "scheduler step bound");
            return;
        }
        let op = g.cur_op[tid];
        g.log.push(Ev { t: tid as u8, op, kind: EvKind::Arrive, label });
        g.phase[tid] = Phase::Waiting;
        let next = Sched::decide(&mut g, Some(tid)).unwrap_or(tid);
        g.baton = Some(next);
        if next != tid {
            self.cv.notify_all();
            g = self.wait_for_baton(g, tid);
            if g.free.is_some() {
                return;
            }
        }
        g.phase[tid] = Phase::Running;
        g.log.push(Ev { t: tid as u8, op, kind: EvKind::Access, label });
    }

    fn op_mark(&self, tid: usize, op: usize, kind: EvKind) {
        let mut g = self.lock();
        g.cur_op[tid] = op as u8;
        g.log.push(Ev { t: tid as u8, op: op as u8, kind, label: "" });
    }

    fn finish(&self, tid: usize) {
        let mut g = self.lock();
        g.phase[tid] = Phase::Done;
        if g.free.is_none() && g.baton == Some(tid) {
            let next = Sched::decide(&mut g, None);
            g.baton = next;
        }
        self.cv.notify_all();
    }
}

/// registers the current thread with a scheduler; on drop (also when unwinding) the thread is marked as done
/// and the baton is passed on, so that nobody waits for a dead thread
struct Managed {
    sched: Arc<Sched>,
    tid: usize,
}

impl Managed {
    fn enter(sched: Arc<Sched>, tid: usize) -> Managed {
        CURRENT.with(|c| *c.borrow_mut() = Some((sched.clone(), tid)));
        sched.arrive(tid);
        Managed { sched, tid }
    }
}

impl Drop for Managed {
    fn drop(&mut self) {
        let _ = CURRENT.try_with(|c| {
            if let Ok(mut b) = c.try_borrow_mut() {
                *b = None;
            }
        });
        self.sched.finish(self.tid);
    }
}

struct RunOut {
    /// per thread (in the order given), per operation
    outputs: Vec<Vec<String>>,
    log: Vec<Ev>,
    choices: Vec<(u8, u8)>,
    aborted: Option<&'static str>,
}

type Job = Box<dyn FnOnce() + Send + 'static>;

/// reader threads are kept per controlling thread and reused from run to run (creating two or three OS threads
/// for every run of every schedule is what dominated the cost)
struct Pool {
    txs: Vec<std::sync::mpsc::Sender<Job>>,
}

thread_local! {
    static POOL: RefCell<Pool> = RefCell::new(Pool { txs: vec![] });
}

fn pool_submit(slot: usize, job: Job) -> bool {
    POOL.with(|p| {
        let mut p = p.borrow_mut();
        while p.txs.len() <= slot {
            let (tx, rx) = std::sync::mpsc::channel::<Job>();
            let spawned = std::thread::Builder::new().name("c20-reader".into()).stack_size(16 << 20).spawn(move || {
                for job in rx {
                    let _ = std::panic::catch_unwind(std::panic::AssertUnwindSafe(job));
                }
            });
            if spawned.is_err() {
                return false;
            }
            p.txs.push(tx);
        }
        p.txs[slot].send(job).is_ok()
    })
}

fn pool_reset() {
    POOL.with(|p| p.borrow_mut().txs.clear());
}

type Script = Arc<Vec<ROp>>;

/// run the scripts on one OS thread each; `managed`: under the scheduler, else free-running behind a start flag
fn run_threads(inst: &Arc<Instance>, threads: &[(usize, Script)], schedule: &[u8], managed: bool) -> RunOut {
    ensure_callback();
    let n = threads.len();
    let sched = Sched::new(n, schedule);
    // unmanaged runs: the threads spin on this flag so that they start together
    let go = Arc::new(AtomicBool::new(false));
    let (rtx, rrx) = std::sync::mpsc::channel::<(usize, Vec<String>)>();
    let mut submitted = 0;
    for (slot, (tid, script)) in threads.iter().enumerate() {
        let sched_t = sched.clone();
        let go = go.clone();
        let inst = inst.clone();
        let script = script.clone();
        let rtx = rtx.clone();
        let tid = *tid;
        let job: Job = Box::new(move || {
            let mut outs = vec![];
            if managed {
                let _m = Managed::enter(sched_t.clone(), slot);
                for (i, op) in script.iter().enumerate() {
                    sched_t.op_mark(slot, i, EvKind::OpStart);
                    outs.push(exec(op, &inst, tid, i));
                    sched_t.op_mark(slot, i, EvKind::OpEnd);
                }
            } else {
                while !go.load(Ordering::Acquire) {
                    std::hint::spin_loop();
                    std::thread::yield_now();
                }
                for (i, op) in script.iter().enumerate() {
                    outs.push(exec(op, &inst, tid, i));
                }
            }
            drop(inst);
            let _ = rtx.send((slot, outs));
        });
        if pool_submit(slot, job) {
            submitted += 1;
        } else {
            // cannot create / reach the thread: release everybody and give up on this run
            let mut g = sched.lock();
            sched.give_up(&mut g, "thread spawn failed");
            break;
        }
    }
    drop(rtx);
    go.store(true, Ordering::Release);
    if managed && submitted == n {
        sched.start();
    }
    let mut outputs: Vec<Vec<String>> = vec![vec![]; n];
    let mut got = 0;
    while got < submitted {
        // every wait inside the jobs is bounded; this bound only matters if the library itself blocks for ever
        match rrx.recv_timeout(WAIT_TIMEOUT * 4) {
            Ok((slot, o)) => {
                outputs[slot] = o;
                got += 1;
            }
            Err(_) => {
                let mut g = sched.lock();
                sched.give_up(&mut g, "scheduler timeout");
                drop(g);
                // the stuck readers are abandoned; later runs get fresh ones
                pool_reset();
                break;
            }
        }
    }
    let g = sched.lock();
    let mut aborted = g.free;
    if (submitted < n || got < submitted) && aborted.is_none() {
        aborted = Some("thread spawn failed");
    }
    if aborted == Some("scheduler timeout") {
        TIMEOUTS.fetch_add(1, Ordering::Relaxed);
    }
    RunOut { outputs, log: g.log.clone(), choices: g.choices.clone(), aborted }
}

// ------------------------------------------------------------------------------------------------
// fixtures: identical stores, one per run

struct Prepared {
    hist: History,
    layout: Layout,
    /// files of the stand-off layout, main document first
    files: Vec<(String, String)>,
    /// stand-off files that are replaced by directories once the store is loaded (`Layout::Standoff::block`)
    blocked: Vec<String>,
}

struct Instance {
    store: AnnotationStore,
    dir: TempDir,
    /// directory contents when the store is handed to the readers
    s0: BTreeMap<String, String>,
}

const MAIN: &str = "main.store.stam.json";

fn json_cfg(compact: bool) -> Config {
    Config::default().with_dataformat(DataFormat::Json { compact })
}

/// serialise a store document with the member order the writer itself uses (the reader is a streaming one)
fn ordered_doc(doc: &serde_json::Value) -> String {
    const ORDER: [&str; 20] = [
        "@type", "@id", "@include", "resources", "annotationsets", "annotations", "text", "keys", "target", "set", "resource",
        "annotation", "annotationset", "key", "offset", "selectors", "begin", "end", "value", "data",
    ];
    fn rec(v: &serde_json::Value, out: &mut String) {
        match v {
            serde_json::Value::Object(m) => {
                out.push('{');
                let mut keys: Vec<&String> = vec![];
                for k in ORDER {
                    if let Some((kk, _)) = m.get_key_value(k) {
                        keys.push(kk);
                    }
                }
                for k in m.keys() {
                    if !ORDER.contains(&k.as_str()) {
                        keys.push(k);
                    }
                }
                for (i, k) in keys.iter().enumerate() {
                    if i > 0 {
                        out.push(',');
                    }
                    out.push_str(&serde_json::to_string(k).unwrap());
                    out.push(':');
                    rec(&m[*k], out);
                }
                out.push('}');
            }
            serde_json::Value::Array(a) => {
                out.push('[');
                for (i, x) in a.iter().enumerate() {
                    if i > 0 {
                        out.push(',');
                    }
                    rec(x, out);
                }
                out.push(']');
            }
            other => out.push_str(&serde_json::to_string(other).unwrap()),
        }
    }
    let mut out = String::new();
    rec(doc, &mut out);
    out
}

/// move the members selected by `mask` into @include files (as c05's `externalise`, but into memory)
fn externalise(doc: &mut serde_json::Value, mask: u16, json_resources: bool, prefix: &str, files: &mut Vec<(String, String)>) -> (usize, usize) {
    let mut moved = (0, 0);
    if let Some(arr) = doc.get_mut("resources").and_then(|r| r.as_array_mut()) {
        for (i, r) in arr.iter_mut().enumerate() {
            if mask & (1u16 << (i % 8)) == 0 {
                continue;
            }
            moved.0 += 1;
            let id = r.get("@id").cloned();
            let text = r.get("text").and_then(|t| t.as_str()).unwrap_or("").to_string();
            let fname = if json_resources {
                let fname = format!("{}r{}.resource.stam.json", prefix, i);
                files.push((fname.clone(), ordered_doc(r)));
                fname
            } else {
                let fname = format!("{}r{}.txt", prefix, i);
                files.push((fname.clone(), text));
                fname
            };
            *r = serde_json::json!({"@type": "TextResource", "@include": fname});
            if let Some(id) = id {
                r["@id"] = id;
            }
        }
    }
    if let Some(arr) = doc.get_mut("annotationsets").and_then(|r| r.as_array_mut()) {
        for (i, s) in arr.iter_mut().enumerate() {
            if mask & (1u16 << (8 + i % 8)) == 0 {
                continue;
            }
            moved.1 += 1;
            let id = s.get("@id").cloned();
            let fname = format!("{}s{}.dataset.stam.json", prefix, i);
            files.push((fname.clone(), ordered_doc(s)));
            *s = serde_json::json!({"@type": "AnnotationDataSet", "@include": fname});
            if let Some(id) = id {
                s["@id"] = id;
            }
        }
    }
    moved
}

fn snapshot(dir: &TempDir) -> BTreeMap<String, String> {
    let mut m = BTreeMap::new();
    // the name of the directory differs from run to run (the CBOR copy records it as working directory)
    let d = dir.0.to_string_lossy().to_string();
    if let Ok(rd) = std::fs::read_dir(&dir.0) {
        for e in rd.filter_map(|e| e.ok()) {
            // CBOR files are not compared: their bytes differ from one save to the next (id maps are hash maps)
            if e.file_name().to_string_lossy().ends_with(".cbor") {
                continue;
            }
            // a blocked stand-off file (`Layout::Standoff::block`) is a directory; whatever may be put into it
            // is part of the comparison as well
            if e.file_type().map(|t| t.is_dir()).unwrap_or(false) {
                let mut inside: Vec<String> = std::fs::read_dir(e.path())
                    .map(|rd| rd.filter_map(|x| x.ok()).map(|x| x.file_name().to_string_lossy().to_string()).collect())
                    .unwrap_or_default();
                inside.sort();
                m.insert(e.file_name().to_string_lossy().to_string(), format!("<a directory containing {:?}>", inside));
                continue;
            }
            let bytes = std::fs::read(e.path()).unwrap_or_default();
            let text = String::from_utf8_lossy(&bytes).to_string();
            let text = if text.contains(&d) { text.replace(&d, "<DIR>") } else { text };
            m.insert(e.file_name().to_string_lossy().to_string(), text);
        }
    }
    m
}

/// None (with a label) when the history or the stand-off rewriting runs into something that is another
/// property's business
fn prepare(case: &Case, out: &mut Outcome) -> Option<Prepared> {
    let mut files = vec![];
    let mut blocked = vec![];
    match &case.layout {
        Layout::Inline => {
            out.label("layout.inline");
            let mut scratch = Outcome::new();
            if final_store(&case.hist, &mut scratch).is_none() {
                out.label("stopped_at_foreign_divergence");
                return None;
            }
        }
        Layout::Standoff { mask, json_resources, .. } | Layout::Cbor { mask, json_resources } => {
            let mut scratch = Outcome::new();
            let Some(m) = final_store(&case.hist, &mut scratch) else {
                out.label("stopped_at_foreign_divergence");
                return None;
            };
            let s1 = match catch(|| m.store.to_json_string(&json_cfg(true))) {
                Ok(Ok(s)) => s,
                _ => {
                    out.label("stopped_at_foreign_divergence");
                    return None;
                }
            };
            let Ok(mut doc) = serde_json::from_str::<serde_json::Value>(&s1) else {
                out.label("stopped_at_foreign_divergence");
                return None;
            };
            let mut members = vec![];
            let subdir = matches!(&case.layout, Layout::Standoff { subdir: true, .. });
            let prefix = if subdir { format!("{}/", SUBDIR) } else { String::new() };
            let moved = externalise(&mut doc, *mask, *json_resources, &prefix, &mut members);
            if subdir {
                out.label("layout.standoff_subdir_removed");
            }
            files.push((MAIN.to_string(), ordered_doc(&doc)));
            files.extend(members);
            match &case.layout {
                Layout::Cbor { .. } => out.label("layout.cbor"),
                Layout::Standoff { settle: true, .. } => out.label("layout.standoff_settled"),
                _ => out.label("layout.standoff_dirty"),
            }
            if moved.0 > 0 {
                out.label(if *json_resources { "standoff.resource_json" } else { "standoff.resource_txt" });
            }
            if moved.1 > 0 {
                out.label("standoff.dataset");
            }
            if moved == (0, 0) {
                out.label("standoff.no_member_selected");
            }
            if let Layout::Standoff { block, settle, subdir: false, .. } = &case.layout {
                // the files are called r<i>.txt / r<i>.resource.stam.json / s<i>.dataset.stam.json (see externalise)
                for (name, _) in files.iter().skip(1) {
                    let digits: String = name[1..].chars().take_while(|c| c.is_ascii_digit()).collect();
                    let Ok(i) = digits.parse::<usize>() else { continue };
                    let bit = if name.starts_with('r') { i % 8 } else { 8 + i % 8 };
                    if block & (1u16 << bit) != 0 {
                        blocked.push(name.clone());
                    }
                }
                if !blocked.is_empty() {
                    out.label(if *settle { "layout.standoff_blocked_settled" } else { "layout.standoff_blocked_dirty" });
                    if blocked.iter().any(|n| n.starts_with('s')) {
                        out.label("blocked.dataset");
                    }
                    if blocked.iter().any(|n| n.starts_with('r')) {
                        out.label("blocked.resource");
                    }
                }
            }
        }
    }
    Some(Prepared { hist: case.hist.clone(), layout: case.layout.clone(), files, blocked })
}

static DIR_COUNTER: AtomicU64 = AtomicU64::new(0);

/// scratch directory: $VERIF_TMP if set, else a tmpfs (/dev/shm) when there is one - a run rewrites small files
/// thousands of times, which a journalling file system turns into synchronous disk writes - else /tmp
fn scratch_dir() -> TempDir {
    static BASE: std::sync::OnceLock<String> = std::sync::OnceLock::new();
    let base = BASE.get_or_init(|| {
        if let Ok(b) = std::env::var("VERIF_TMP") {
            return b;
        }
        let probe = format!("/dev/shm/stamverif-probe-{}", std::process::id());
        if std::fs::create_dir_all(&probe).is_ok() {
            let _ = std::fs::remove_dir_all(&probe);
            "/dev/shm".to_string()
        } else {
            "/tmp".to_string()
        }
    });
    let n = DIR_COUNTER.fetch_add(1, Ordering::Relaxed);
    let p = std::path::PathBuf::from(base).join(format!("stamverif-{}-c20-{}", std::process::id(), n));
    let _ = std::fs::create_dir_all(&p);
    TempDir(p)
}

fn instantiate(p: &Prepared) -> Result<Instance, String> {
    let dir = scratch_dir();
    let store = match &p.layout {
        Layout::Inline => {
            let mut scratch = Outcome::new();
            match final_store(&p.hist, &mut scratch) {
                Some(m) => m.store,
                None => return Err("history diverged".into()),
            }
        }
        Layout::Standoff { .. } | Layout::Cbor { .. } => {
            let subdir = matches!(&p.layout, Layout::Standoff { subdir: true, .. });
            if subdir {
                std::fs::create_dir_all(dir.path(SUBDIR)).map_err(|e| format!("mkdir {}: {}", SUBDIR, e))?;
            }
            for (name, content) in &p.files {
                std::fs::write(dir.path(name), content).map_err(|e| format!("write {}: {}", name, e))?;
            }
            let cfg = Config::default().with_use_include(true).with_workdir(dir.0.to_string_lossy().to_string());
            let store = match catch(|| AnnotationStore::from_file(&dir.path(MAIN), cfg)) {
                Ok(Ok(s)) => s,
                Ok(Err(e)) => return Err(format!("loading the stand-off document failed: {}", e)),
                Err(p) => return Err(format!("loading the stand-off document panicked: {}", p.msg)),
            };
            match &p.layout {
                Layout::Standoff { settle: true, .. } => {
                    let cfg = store.config().clone();
                    match catch(|| store.to_json_string(&cfg)) {
                        Ok(Ok(_)) => {}
                        _ => return Err("settling serialisation failed".into()),
                    }
                    store
                }
                Layout::Cbor { .. } => {
                    let mut store = store;
                    let f = dir.path("copy.store.stam.cbor");
                    match catch(|| store.to_file(&f)) {
                        Ok(Ok(())) => {}
                        Ok(Err(e)) => return Err(format!("saving as CBOR failed: {}", e)),
                        Err(p) => return Err(format!("saving as CBOR panicked: {}", p.msg)),
                    }
                    drop(store);
                    let cfg = Config::default().with_workdir(dir.0.to_string_lossy().to_string());
                    match catch(|| AnnotationStore::from_file(&f, cfg)) {
                        Ok(Ok(s)) => s,
                        Ok(Err(e)) => return Err(format!("loading the CBOR copy failed: {}", e)),
                        Err(p) => return Err(format!("loading the CBOR copy panicked: {}", p.msg)),
                    }
                }
                _ => store,
            }
        }
    };
    // from now on the directory of the stand-off files does not exist
    if matches!(&p.layout, Layout::Standoff { subdir: true, .. }) {
        std::fs::remove_dir_all(dir.path(SUBDIR)).map_err(|e| format!("removing {}: {}", SUBDIR, e))?;
    }
    // from now on the selected stand-off files cannot be written: each is a directory of the same name
    for name in &p.blocked {
        let f = dir.path(name);
        std::fs::remove_file(&f).map_err(|e| format!("blocking {}: {}", name, e))?;
        std::fs::create_dir(&f).map_err(|e| format!("blocking {}: {}", name, e))?;
    }
    let s0 = snapshot(&dir);
    Ok(Instance { store, dir, s0 })
}

// ------------------------------------------------------------------------------------------------
// the reader operations

const QUERIES: [&str; 6] = [
    "SELECT ANNOTATION ?a",
    "SELECT DATA ?d",
    "SELECT RESOURCE ?r",
    "SELECT DATASET ?s",
    "SELECT ANNOTATION ?a WHERE TEXT \"a\";",
    "SELECT TEXT ?t WHERE TEXT \"a\";",
];
const NEEDLES: [&str; 4] = ["a", " ", "ab", "é"];

fn operators() -> [TextSelectionOperator; 8] {
    [
        TextSelectionOperator::overlaps(),
        TextSelectionOperator::embeds(),
        TextSelectionOperator::embedded(),
        TextSelectionOperator::before(),
        TextSelectionOperator::after(),
        TextSelectionOperator::precedes(),
        TextSelectionOperator::succeeds(),
        TextSelectionOperator::samebegin(),
    ]
}

fn make_cfg(c: &Cfg, store: &AnnotationStore, member: Option<&Config>) -> Config {
    // a clone of a Config shares the serialisation-mode cell with the original
    match c {
        Cfg::Store { compact } => store.config().clone().with_dataformat(DataFormat::Json { compact: *compact }),
        Cfg::Member { compact } => member
            .unwrap_or(store.config())
            .clone()
            .with_dataformat(DataFormat::Json { compact: *compact }),
        Cfg::Fresh { compact } => json_cfg(*compact),
    }
}

fn nth_dataset<'a>(store: &'a AnnotationStore, idx: u16) -> Option<ResultItem<'a, AnnotationDataSet>> {
    let n = store.datasets().count();
    if n == 0 {
        return None;
    }
    store.datasets().nth(pick(idx, n))
}

fn nth_resource<'a>(store: &'a AnnotationStore, idx: u16) -> Option<ResultItem<'a, TextResource>> {
    let n = store.resources().count();
    if n == 0 {
        return None;
    }
    store.resources().nth(pick(idx, n))
}

fn exec_inner(op: &ROp, inst: &Instance, tid: usize, i: usize) -> Result<String, String> {
    let store = &inst.store;
    let e2s = |e: StamError| format!("{}", e);
    match op {
        ROp::StoreJson(c) => {
            let cfg = make_cfg(c, store, None);
            store.to_json_string(&cfg).map_err(e2s)
        }
        ROp::StoreValue => ToJson::to_json_value(store).map(|v| v.to_string()).map_err(e2s),
        ROp::StoreFile(c) => {
            let cfg = make_cfg(c, store, None);
            let f = inst.dir.path(&format!("out-t{}-{}.store.json", tid, i));
            store.to_json_file(&f, &cfg).map(|_| "written".to_string()).map_err(e2s)
        }
        ROp::StoreSave => store.save().map(|_| "saved".to_string()).map_err(e2s),
        ROp::DatasetJson { set, cfg } => {
            let Some(ds) = nth_dataset(store, *set) else { return Ok("no dataset".into()) };
            let cfg = make_cfg(cfg, store, Some(ds.as_ref().config()));
            ToJson::to_json_string(ds.as_ref(), &cfg).map_err(e2s)
        }
        ROp::DatasetJsonPlain { set } => {
            let Some(ds) = nth_dataset(store, *set) else { return Ok("no dataset".into()) };
            ds.as_ref().to_json_string().map_err(e2s)
        }
        ROp::DatasetValue { set } => {
            let Some(ds) = nth_dataset(store, *set) else { return Ok("no dataset".into()) };
            ToJson::to_json_value(ds.as_ref()).map(|v| v.to_string()).map_err(e2s)
        }
        ROp::DatasetFile { set, cfg } => {
            let Some(ds) = nth_dataset(store, *set) else { return Ok("no dataset".into()) };
            let cfg = make_cfg(cfg, store, Some(ds.as_ref().config()));
            let f = inst.dir.path(&format!("out-t{}-{}.dataset.json", tid, i));
            ToJson::to_json_file(ds.as_ref(), &f, &cfg).map(|_| "written".to_string()).map_err(e2s)
        }
        ROp::ResourceJson { res, cfg } => {
            let Some(r) = nth_resource(store, *res) else { return Ok("no resource".into()) };
            let cfg = make_cfg(cfg, store, Some(r.as_ref().config()));
            ToJson::to_json_string(r.as_ref(), &cfg).map_err(e2s)
        }
        ROp::ResourceJsonPlain { res } => {
            let Some(r) = nth_resource(store, *res) else { return Ok("no resource".into()) };
            r.as_ref().to_json_string().map_err(e2s)
        }
        ROp::ResourceValue { res } => {
            let Some(r) = nth_resource(store, *res) else { return Ok("no resource".into()) };
            ToJson::to_json_value(r.as_ref()).map(|v| v.to_string()).map_err(e2s)
        }
        ROp::ResourceFile { res, cfg } => {
            let Some(r) = nth_resource(store, *res) else { return Ok("no resource".into()) };
            let cfg = make_cfg(cfg, store, Some(r.as_ref().config()));
            let f = inst.dir.path(&format!("out-t{}-{}.resource.json", tid, i));
            ToJson::to_json_file(r.as_ref(), &f, &cfg).map(|_| "written".to_string()).map_err(e2s)
        }
        ROp::Query(q) => {
            let q = QUERIES[*q as usize % QUERIES.len()];
            let query: Query = q.try_into().map_err(|e: StamError| format!("{}", e))?;
            let mut v = vec![];
            for r in store.query(query).map_err(e2s)? {
                for item in r.iter() {
                    v.push(match item {
                        QueryResultItem::Annotation(a) => format!("A{}", a.handle().as_usize()),
                        QueryResultItem::AnnotationData(d) => format!("D{}.{}", d.set().handle().as_usize(), d.handle().as_usize()),
                        QueryResultItem::TextSelection(t) => format!("T{}:{}-{}", t.resource().handle().as_usize(), t.begin(), t.end()),
                        QueryResultItem::TextResource(r) => format!("R{}", r.handle().as_usize()),
                        QueryResultItem::AnnotationDataSet(s) => format!("S{}", s.handle().as_usize()),
                        _ => "?".to_string(),
                    });
                }
            }
            Ok(format!("{:?}", v))
        }
        ROp::FindText { res, needle } => {
            let Some(r) = nth_resource(store, *res) else { return Ok("no resource".into()) };
            let v: Vec<String> = r
                .find_text(NEEDLES[*needle as usize % NEEDLES.len()])
                .map(|t| format!("{}-{}", t.begin(), t.end()))
                .collect();
            Ok(format!("{:?}", v))
        }
        ROp::RelatedText { res, sel, op } => {
            let Some(r) = nth_resource(store, *res) else { return Ok("no resource".into()) };
            let n = r.textselections().count();
            if n == 0 {
                return Ok("no selection".into());
            }
            let Some(ts) = r.textselections().nth(pick(*sel, n)) else { return Ok("no selection".into()) };
            let v: Vec<String> = ts
                .related_text(operators()[*op as usize % 8])
                .map(|t| format!("{}-{}", t.begin(), t.end()))
                .collect();
            Ok(format!("{}-{}:{:?}", ts.begin(), ts.end(), v))
        }
        ROp::ParallelMap(k) => {
            let pp = parallel_pair(store, *k);
            Ok(format!("{}:{:?}", pp.name, pp.par))
        }
        ROp::Iterate => {
            let mut v = vec![];
            for a in store.annotations() {
                let data: Vec<String> = a.data().map(|d| format!("{:?}={}", d.key().id(), d.value())).collect();
                v.push(format!("{:?}/{:?}/{}", a.id(), data, a.text_join("|")));
            }
            Ok(format!("{:?}", v))
        }
        ROp::SearchLoop { res, needle, reps } => {
            let Some(r) = nth_resource(store, *res) else { return Ok("no resource".into()) };
            Ok(search_loop(&r, *needle, *reps))
        }
    }
}

// ---- .parallel() sources

/// the sources `ROp::ParallelMap(k)` chooses from (k modulo the length)
pub const PAR_SOURCES: [&str; 22] = [
    "store.annotations/text",
    "store.annotations/json",
    "store.resources",
    "store.datasets",
    "annotation.data",
    "annotations.data_unchecked",
    "annotations.data",
    "dataset.data",
    "dataset.keys",
    "resource.textselections",
    "annotation.textselections",
    "annotation.annotations",
    "annotation.annotations_in_targets",
    "annotation.keys",
    "annotations.flat_map(resources)",
    "annotations.flat_map(data.set)",
    "store.annotations.rev",
    "store.data.rev",
    "store.keys.rev",
    "resource.textselections.rev",
    "store.resources.rev",
    "store.datasets.rev",
];

/// item type of each of `PAR_SOURCES` (which of the six `parallel()` adaptors is used)
const PAR_ITEMS: [&str; 22] = [
    "annotations", "annotations", "resources", "datasets", "data", "data", "data", "data", "keys", "textselections", "textselections",
    "annotations", "annotations", "keys", "resources", "datasets", "annotations", "data", "keys", "textselections", "resources", "datasets",
];

struct ParPair {
    item: &'static str,
    name: &'static str,
    /// `source.parallel().map(f).collect::<Vec<_>>()`
    par: Vec<String>,
    /// `source.map(f).collect::<Vec<_>>()` with the same source expression and the same f
    seq: Vec<String>,
    /// some source was not strictly ascending (unsorted or with repeats) in the order of its item type
    unsorted: bool,
    /// some source had at least two items
    plural: bool,
}

fn not_strictly_ascending<T: PartialOrd>(v: &[T]) -> bool {
    v.windows(2).any(|w| !(w[0] < w[1]))
}

fn fmt_ann(a: ResultItem<'_, Annotation>) -> String {
    format!("A{}:{:?}", a.handle().as_usize(), a.id())
}
fn fmt_data(d: ResultItem<'_, AnnotationData>) -> String {
    format!("D{}.{}:{:?}={}", d.set().handle().as_usize(), d.handle().as_usize(), d.key().id(), d.value())
}
fn fmt_key(k: ResultItem<'_, DataKey>) -> String {
    format!("K{}.{}:{:?}", k.set().handle().as_usize(), k.handle().as_usize(), k.id())
}
fn fmt_res(r: ResultItem<'_, TextResource>) -> String {
    format!("R{}:{:?}:{}", r.handle().as_usize(), r.id(), r.textlen())
}
fn fmt_set(d: ResultItem<'_, AnnotationDataSet>) -> String {
    format!("S{}:{:?}", d.handle().as_usize(), d.id())
}
fn fmt_ts(t: ResultTextSelection<'_>) -> String {
    format!("T{}:{}-{}", t.resource().handle().as_usize(), t.begin(), t.end())
}

/// Evaluates one source expression three times: `.parallel().map(f).collect()`, `.map(f).collect()` and plain
/// `.collect()` (for the classification). README of stam: "you can add `.parallel()` to an iterator, any subsequent
/// iterator methods (generic ones like map() and filter()) will then run in parallel"; `parallel()` returns
/// `rayon::vec::IntoIter`, an indexed parallel iterator, whose `collect::<Vec<_>>()` keeps the order of the items.
macro_rules! par_seq {
    ($pp:expr, $src:expr, $f:expr) => {{
        let par: Vec<String> = $src.parallel().map($f).collect();
        let seq: Vec<String> = $src.map($f).collect();
        let items: Vec<_> = $src.collect();
        $pp.unsorted |= not_strictly_ascending(&items);
        $pp.plural |= items.len() >= 2;
        $pp.par.extend(par);
        $pp.seq.extend(seq);
    }};
}

fn parallel_pair(store: &AnnotationStore, k: u8) -> ParPair {
    let k = k as usize % PAR_SOURCES.len();
    let mut pp = ParPair { item: PAR_ITEMS[k], name: PAR_SOURCES[k], par: vec![], seq: vec![], unsorted: false, plural: false };
    // a group of items per annotation / dataset / resource: both sides get the same separator
    macro_rules! group {
        ($pp:expr, $s:expr) => {{
            let sep: String = $s;
            $pp.par.push(sep.clone());
            $pp.seq.push(sep);
        }};
    }
    match k {
        0 => par_seq!(pp, store.annotations(), |a| format!("{:?}:{}", a.id(), a.text_join("|"))),
        1 => par_seq!(pp, store.annotations(), |a| serde_json::to_string(&a).unwrap_or_else(|e| format!("err {}", e))),
        2 => par_seq!(pp, store.resources(), |r| format!("{:?}:{}:{}", r.id(), r.textlen(), r.annotations().count())),
        3 => par_seq!(pp, store.datasets(), |d| format!("{:?}:{}:{}", d.id(), d.keys().count(), d.data().count())),
        4 => {
            for a in store.annotations() {
                group!(pp, format!("|A{}|", a.handle().as_usize()));
                par_seq!(pp, a.data(), fmt_data);
            }
        }
        5 => par_seq!(pp, store.annotations().data_unchecked(), fmt_data),
        6 => par_seq!(pp, store.annotations().data(), fmt_data),
        7 => {
            for d in store.datasets() {
                group!(pp, format!("|S{}|", d.handle().as_usize()));
                par_seq!(pp, d.data(), fmt_data);
            }
        }
        8 => {
            for d in store.datasets() {
                group!(pp, format!("|S{}|", d.handle().as_usize()));
                par_seq!(pp, d.keys(), fmt_key);
            }
        }
        9 => {
            for r in store.resources() {
                group!(pp, format!("|R{}|", r.handle().as_usize()));
                par_seq!(pp, r.textselections(), fmt_ts);
            }
        }
        10 => {
            for a in store.annotations() {
                group!(pp, format!("|A{}|", a.handle().as_usize()));
                par_seq!(pp, a.textselections(), fmt_ts);
            }
        }
        11 => {
            for a in store.annotations() {
                group!(pp, format!("|A{}|", a.handle().as_usize()));
                par_seq!(pp, a.annotations(), fmt_ann);
            }
        }
        12 => {
            for a in store.annotations() {
                group!(pp, format!("|A{}|", a.handle().as_usize()));
                par_seq!(pp, a.annotations_in_targets(AnnotationDepth::Max), fmt_ann);
            }
        }
        13 => {
            for a in store.annotations() {
                group!(pp, format!("|A{}|", a.handle().as_usize()));
                par_seq!(pp, a.keys(), fmt_key);
            }
        }
        14 => par_seq!(pp, store.annotations().flat_map(|a| a.resources()), fmt_res),
        15 => par_seq!(pp, store.annotations().flat_map(|a| a.data().map(|d| d.set())), fmt_set),
        16 => par_seq!(pp, store.annotations().collect::<Vec<_>>().into_iter().rev(), fmt_ann),
        17 => par_seq!(pp, store.data().collect::<Vec<_>>().into_iter().rev(), fmt_data),
        18 => par_seq!(pp, store.keys().collect::<Vec<_>>().into_iter().rev(), fmt_key),
        19 => {
            for r in store.resources() {
                group!(pp, format!("|R{}|", r.handle().as_usize()));
                par_seq!(pp, r.textselections().rev(), fmt_ts);
            }
        }
        20 => par_seq!(pp, store.resources().collect::<Vec<_>>().into_iter().rev(), fmt_res),
        _ => par_seq!(pp, store.datasets().collect::<Vec<_>>().into_iter().rev(), fmt_set),
    }
    pp
}

// ---- repeated searches

const SEARCH_NEEDLES: [&str; 6] = ["ab", " ", "é", "日", "😀", "b c"];
const SEARCH_REGEXES: [&str; 6] = ["[a-c]+", "\\s+", "\\p{L}\\p{L}+", "[^\\x00-\\x7f]+", "😀+|ß", "\\w \\w"];
const SEARCH_DELIMS: [&str; 6] = [" ", "a", "é", "b", "\n", "日"];

fn fnv(h: &mut u64, s: &str) {
    for b in s.bytes() {
        *h ^= b as u64;
        *h = h.wrapping_mul(0x100000001b3);
    }
}

/// everything one round of searches on the resource returns, as text (a pure function of the text of the resource)
fn search_round(r: &ResultItem<'_, TextResource>, n: usize, regex: &Option<Regex>) -> String {
    use std::fmt::Write;
    let mut s = String::new();
    let needle = SEARCH_NEEDLES[n % SEARCH_NEEDLES.len()];
    s.push_str("find_text:");
    for t in r.find_text(needle) {
        let _ = write!(s, "{}-{},", t.begin(), t.end());
    }
    s.push_str(" find_text_nocase:");
    for t in r.find_text_nocase(needle) {
        let _ = write!(s, "{}-{},", t.begin(), t.end());
    }
    s.push_str(" find_text_regex:");
    if let Some(regex) = regex {
        match r.find_text_regex(std::slice::from_ref(regex), None, false) {
            Ok(iter) => {
                for m in iter {
                    for t in m.textselections() {
                        let _ = write!(s, "{}-{},", t.begin(), t.end());
                    }
                }
            }
            Err(e) => {
                let _ = write!(s, "err {}", e);
            }
        }
    }
    s.push_str(" split_text:");
    for t in r.split_text(SEARCH_DELIMS[n % SEARCH_DELIMS.len()]) {
        let _ = write!(s, "{}-{},", t.begin(), t.end());
    }
    // unicode point -> byte -> unicode point, for a spread of positions (descending, so that a conversion is not
    // simply the continuation of the one before)
    s.push_str(" roundtrip:");
    let len = r.textlen();
    let step = 1 + len / 24;
    let mut c = len;
    loop {
        match r.utf8byte(c) {
            Ok(b) => match r.utf8byte_to_charpos(b) {
                Ok(c2) => {
                    let _ = write!(s, "{}>{}>{},", c, b, c2);
                }
                Err(e) => {
                    let _ = write!(s, "{}>{}>err {},", c, b, e);
                }
            },
            Err(e) => {
                let _ = write!(s, "{}>err {},", c, e);
            }
        }
        if c < step {
            break;
        }
        c -= step;
    }
    s
}

fn search_loop(r: &ResultItem<'_, TextResource>, needle: u8, reps: u16) -> String {
    let n = needle as usize;
    let reps = reps.clamp(1, 400);
    let regex = Regex::new(SEARCH_REGEXES[n % SEARCH_REGEXES.len()]).ok();
    let mut h: u64 = 0xcbf29ce484222325;
    let mut first = String::new();
    // the first round that differs from round 0 (all rounds are the same computation; diagnostic only - the
    // oracle compares the whole output with the output of the script running alone)
    let mut deviating: Option<(u16, String)> = None;
    for rep in 0..reps {
        let s = search_round(r, n, &regex);
        fnv(&mut h, &s);
        if rep == 0 {
            first = s;
        } else if deviating.is_none() && s != first {
            deviating = Some((rep, s));
        }
    }
    match deviating {
        None => format!("rounds={} digest={:016x} all rounds equal; round 0: {}", reps, h, first),
        Some((rep, s)) => format!("rounds={} digest={:016x} round {} differs: {} <<>> round 0: {}", reps, h, rep, s, first),
    }
}


fn exec(op: &ROp, inst: &Instance, tid: usize, i: usize) -> String {
    let s = match catch(|| exec_inner(op, inst, tid, i)) {
        Ok(Ok(s)) => format!("ok:{}", s),
        Ok(Err(e)) => format!("err:{}", e),
        Err(p) => format!("panic:{}:{}", p.file, normalise_msg(&p.msg)),
    };
    // the directory differs from run to run
    let d = inst.dir.0.to_string_lossy().to_string();
    if s.contains(&d) {
        s.replace(&d, "<DIR>")
    } else {
        s
    }
}

// ------------------------------------------------------------------------------------------------
// analysis of a scheduled run

#[derive(Clone, Copy, PartialEq, Eq, Debug)]
enum Cell {
    Mode,
    Changed,
}

/// (cell class, is a write)
fn access_of(label: &str) -> Option<(Cell, bool)> {
    match label {
        "config.set_serialize_mode" => Some((Cell::Mode, true)),
        "config.serialize_mode" => Some((Cell::Mode, false)),
        "changemarker.changed" => Some((Cell::Changed, false)),
        "changemarker.mark_changed" | "changemarker.mark_unchanged" => Some((Cell::Changed, true)),
        _ => None,
    }
}

#[derive(Default)]
struct Analysis {
    yields: usize,
    switches: usize,
    /// a read of the cell saw the write of another thread whose operation was still in progress
    nt_mode: bool,
    nt_changed: bool,
    /// a cell was written by another thread after an operation had read it and before that operation returned
    /// (the operation goes on with a stale value: check-then-act)
    stale_mode: bool,
    stale_changed: bool,
}

fn analyse(log: &[Ev], n: usize) -> Analysis {
    let mut a = Analysis::default();
    let mut in_progress: Vec<Option<u8>> = vec![None; n];
    // position in the log at which the current operation of each thread began
    let mut began: Vec<usize> = vec![0; n];
    // per cell class: (thread, operation, position) of the latest write
    let mut last_write: [Option<(u8, u8, usize)>; 2] = [None, None];
    // per cell class and thread: the operation in which the thread last read the cell
    let mut read_in_op: [Vec<Option<u8>>; 2] = [vec![None; n], vec![None; n]];
    let mut last_access_thread: Option<u8> = None;
    for (pos, ev) in log.iter().enumerate() {
        match ev.kind {
            EvKind::OpStart => {
                in_progress[ev.t as usize] = Some(ev.op);
                began[ev.t as usize] = pos;
            }
            EvKind::OpEnd => in_progress[ev.t as usize] = None,
            EvKind::Arrive => a.yields += 1,
            EvKind::Access => {
                if let Some(t) = last_access_thread {
                    if t != ev.t {
                        a.switches += 1;
                    }
                }
                last_access_thread = Some(ev.t);
                if let Some((cell, write)) = access_of(ev.label) {
                    let ci = cell as usize;
                    if write {
                        last_write[ci] = Some((ev.t, ev.op, pos));
                        for t2 in 0..n {
                            if t2 != ev.t as usize && read_in_op[ci][t2].is_some() && read_in_op[ci][t2] == in_progress[t2] {
                                match cell {
                                    Cell::Mode => a.stale_mode = true,
                                    Cell::Changed => a.stale_changed = true,
                                }
                            }
                        }
                    } else {
                        read_in_op[ci][ev.t as usize] = Some(ev.op);
                        if let Some((wt, wop, wpos)) = last_write[ci] {
                            // the value read was written by another thread, and the two operations overlap: the
                            // writer has not returned yet, or it wrote after the reading operation had begun
                            if wt != ev.t && (in_progress[wt as usize] == Some(wop) || wpos > began[ev.t as usize]) {
                                match cell {
                                    Cell::Mode => a.nt_mode = true,
                                    Cell::Changed => a.nt_changed = true,
                                }
                            }
                        }
                    }
                }
            }
        }
    }
    a
}

/// operation kinds of the threads that were interleaved with operation (t, op): sorted, joined by `||`
fn signature_for(log: &[Ev], scripts: &[Vec<ROp>], t: usize, op: usize) -> String {
    let start = log.iter().position(|e| e.kind == EvKind::OpStart && e.t as usize == t && e.op as usize == op);
    let end = log.iter().position(|e| e.kind == EvKind::OpEnd && e.t as usize == t && e.op as usize == op);
    let own = scripts[t][op].kind();
    let (Some(start), Some(end)) = (start, end) else { return format!("alone:{}", own) };
    let kind_of = |e: &Ev| scripts.get(e.t as usize).and_then(|s| s.get(e.op as usize)).map(|o| o.kind());
    let inside: Vec<&Ev> = log[start..=end]
        .iter()
        .filter(|e| e.kind == EvKind::Access && e.t as usize != t)
        .collect();
    let writes: Vec<&Ev> = inside
        .iter()
        .copied()
        .filter(|e| access_of(e.label).map(|(_, w)| w).unwrap_or(false))
        .collect();
    let mut kinds: BTreeSet<&'static str> = BTreeSet::new();
    let mut prefix = "";
    let chosen = if !writes.is_empty() { writes } else { inside };
    if !chosen.is_empty() {
        for e in chosen {
            if let Some(k) = kind_of(e) {
                kinds.insert(k);
            }
        }
    } else {
        // no other thread ran inside the operation: it saw what the latest write of another thread before it left
        // behind; if that thread's operation was still in progress the two were interleaved, otherwise the state
        // was left behind by an operation that had already returned (`seq:`)
        let before = log[..start]
            .iter()
            .enumerate()
            .rev()
            .find(|(_, e)| e.kind == EvKind::Access && e.t as usize != t && access_of(e.label).map(|(_, w)| w).unwrap_or(false));
        match before {
            Some((pos, e)) => {
                let ended = log[pos..start].iter().any(|x| x.kind == EvKind::OpEnd && x.t == e.t && x.op == e.op);
                if ended {
                    prefix = "seq:";
                }
                if let Some(k) = kind_of(e) {
                    kinds.insert(k);
                }
            }
            None => return format!("alone:{}", own),
        }
    }
    // the two sides, sorted (a set: an operation interleaved with its own kind gives `x||x`)
    let mut parts: Vec<&'static str> = kinds.into_iter().collect();
    parts.push(own);
    parts.sort();
    format!("{}{}", prefix, parts.join("||"))
}

fn first_diff(a: &str, b: &str) -> String {
    let pos = a.bytes().zip(b.bytes()).position(|(x, y)| x != y).unwrap_or(a.len().min(b.len()));
    let ctx = |s: &str| -> String {
        let mut lo = pos.saturating_sub(80).min(s.len());
        while !s.is_char_boundary(lo) {
            lo -= 1;
        }
        let mut hi = (pos + 120).min(s.len());
        while !s.is_char_boundary(hi) {
            hi += 1;
        }
        s[lo..hi].to_string()
    };
    format!("at byte {}: alone {:?} vs shared {:?}", pos, ctx(a), ctx(b))
}

fn render_trace(log: &[Ev], scripts: &[Vec<ROp>]) -> String {
    let mut s = String::new();
    for e in log {
        let k = scripts.get(e.t as usize).and_then(|x| x.get(e.op as usize)).map(|o| o.kind()).unwrap_or("?");
        match e.kind {
            EvKind::OpStart => s.push_str(&format!(" T{}:begin({})", e.t, k)),
            EvKind::OpEnd => s.push_str(&format!(" T{}:end({})", e.t, k)),
            EvKind::Access => s.push_str(&format!(" T{}:{}", e.t, e.label)),
            EvKind::Arrive => {}
        }
        if s.len() > 900 {
            s.push_str(" …");
            break;
        }
    }
    s
}

/// what the directory must contain after the readers are done: a file that some script changes when it runs
/// alone must end up with that content; a file nobody changes alone must be untouched. None = the scripts
/// disagree among themselves (don't care).
fn expected_files(s0: &BTreeMap<String, String>, alone: &[BTreeMap<String, String>]) -> BTreeMap<String, Option<Option<String>>> {
    let mut names: BTreeSet<&String> = s0.keys().collect();
    for a in alone {
        names.extend(a.keys());
    }
    let mut out = BTreeMap::new();
    for name in names {
        let initial = s0.get(name);
        let mut changed: Vec<Option<&String>> = vec![];
        for a in alone {
            let c = a.get(name);
            if c != initial && !changed.contains(&c) {
                changed.push(c);
            }
        }
        let exp = match changed.len() {
            0 => Some(initial.cloned()),
            1 => Some(changed[0].cloned()),
            _ => None,
        };
        out.insert(name.clone(), exp);
    }
    out
}

fn is_writer_kind(k: &str) -> bool {
    k.starts_with("store.to_json") || k == "store.save" || k.ends_with(".to_json_file") || k.ends_with(".to_json_string") || k.ends_with(".to_json_string_plain") || k.ends_with(".to_json_value")
}

fn files_signature(scripts: &[Vec<ROp>]) -> String {
    let kinds: BTreeSet<&'static str> = scripts.iter().flatten().map(|o| o.kind()).filter(|k| is_writer_kind(k)).collect();
    let parts: Vec<&'static str> = kinds.into_iter().collect();
    format!("files:{}", parts.join("||"))
}

// ------------------------------------------------------------------------------------------------
// the reference: every script alone

struct Alone {
    outs: Vec<Vec<String>>,
    files: Vec<BTreeMap<String, String>>,
    s0: BTreeMap<String, String>,
}

enum AloneErr {
    Foreign,
    Aborted(&'static str),
}

/// the reference is a pure function of (history, layout, scripts); the enumerated cases differ in the schedule
/// only, so it is memoised (bounded)
static ALONE_CACHE: Mutex<Option<std::collections::HashMap<String, Arc<Alone>>>> = Mutex::new(None);

fn alone_runs(case: &Case, prep: &Prepared, threads: &[(usize, Script)]) -> Result<Arc<Alone>, AloneErr> {
    let key = serde_json::to_string(&(&case.hist, &case.layout, &case.scripts)).unwrap_or_default();
    if let Some(hit) = ALONE_CACHE
        .lock()
        .unwrap_or_else(|e| e.into_inner())
        .as_ref()
        .and_then(|m| m.get(&key).cloned())
    {
        return Ok(hit);
    }
    let mut alone = Alone { outs: vec![], files: vec![], s0: BTreeMap::new() };
    for t in 0..threads.len() {
        let inst = match instantiate(prep) {
            Ok(i) => Arc::new(i),
            Err(_) => return Err(AloneErr::Foreign),
        };
        let r = run_threads(&inst, &threads[t..=t], &[], true);
        if let Some(reason) = r.aborted {
            return Err(AloneErr::Aborted(reason));
        }
        alone.outs.push(r.outputs.into_iter().next().unwrap_or_default());
        alone.files.push(snapshot(&inst.dir));
        if t == 0 {
            alone.s0 = inst.s0.clone();
        }
    }
    let alone = Arc::new(alone);
    let mut g = ALONE_CACHE.lock().unwrap_or_else(|e| e.into_inner());
    let m = g.get_or_insert_with(Default::default);
    if m.len() >= 256 {
        m.clear();
    }
    m.insert(key, alone.clone());
    Ok(alone)
}

// ------------------------------------------------------------------------------------------------
// exhaustive enumeration of the schedules of a small scenario

static ENUM_SCENARIOS: AtomicU64 = AtomicU64::new(0);
static ENUM_SCHEDULES: AtomicU64 = AtomicU64::new(0);
static ENUM_TRUNCATED: AtomicU64 = AtomicU64::new(0);
static ENUM_MAX_YIELDS: AtomicU64 = AtomicU64::new(0);
static ENUM_SAMPLED: AtomicU64 = AtomicU64::new(0);

/// depth-first enumeration of every schedule (stateless model checking): run with a prefix, read off the
/// decisions that were taken after it (all 0), backtrack on the last decision that has an untried option
fn all_schedules(case: &Case, cap: usize) -> (Vec<Vec<u8>>, bool, usize) {
    let mut out = Outcome::new();
    let Some(prep) = prepare(case, &mut out) else { return (vec![], false, 0) };
    let threads: Vec<(usize, Script)> = case.scripts.iter().enumerate().map(|(t, s)| (t, Arc::new(s.clone()))).collect();
    let mut result: Vec<Vec<u8>> = vec![];
    let mut prefix: Vec<u8> = vec![];
    let mut max_yields = 0;
    loop {
        let Ok(inst) = instantiate(&prep) else { return (vec![], false, 0) };
        let inst = Arc::new(inst);
        let r = run_threads(&inst, &threads, &prefix, true);
        if r.aborted.is_some() {
            return (result, false, max_yields);
        }
        max_yields = max_yields.max(r.log.iter().filter(|e| e.kind == EvKind::Arrive).count());
        let mut sched: Vec<u8> = r.choices.iter().map(|c| c.0).collect();
        while sched.last() == Some(&0) {
            sched.pop();
        }
        result.push(sched);
        if result.len() >= cap {
            return (result, false, max_yields);
        }
        let mut cs = r.choices;
        loop {
            match cs.pop() {
                None => return (result, true, max_yields),
                Some((c, o)) => {
                    if c + 1 < o {
                        prefix = cs.iter().map(|x| x.0).collect();
                        prefix.push(c + 1);
                        break;
                    }
                }
            }
        }
    }
}

fn small_history() -> History {
    History {
        hostile: false,
        ops: vec![
            Op::AddResource { text: "ab c".into(), sfx: 0 },
            Op::AddDataset {
                sfx: 0,
                data: vec![DSpec { with_id: true, key: 0, val: Val::Str("noun".into()) }],
            },
            Op::Annotate {
                with_id: true,
                sfx: 0,
                by_handle: false,
                target: SelSpec::Text { res: 0, off: OffSpec { b: 0, e: 30000, b_end: false, e_end: false } },
                data: vec![ADSpec::Existing { set: 0, data: 0 }],
            },
        ],
    }
}

fn scenarios(tier: Tier) -> Vec<Case> {
    let st = Cfg::Store { compact: true };
    // the serialising operations; the last two only in the thorough tier
    let mut singles: Vec<ROp> = vec![
        ROp::StoreJson(st.clone()),
        ROp::DatasetJson { set: 0, cfg: st.clone() },
        ROp::DatasetJsonPlain { set: 0 },
        ROp::ResourceJson { res: 0, cfg: st.clone() },
        ROp::DatasetFile { set: 0, cfg: st.clone() },
    ];
    if tier == Tier::Thorough {
        singles.push(ROp::StoreValue);
        singles.push(ROp::StoreSave);
        singles.push(ROp::ResourceJsonPlain { res: 0 });
    }
    let layouts = vec![
        // 0: the dataset in a stand-off file and still flagged as changed: serialising it writes the file
        Layout::Standoff { mask: 0x0100, json_resources: true, settle: false, block: 0, subdir: false },
        // 1: resource (JSON) and dataset stand-off, nothing flagged as changed
        Layout::Standoff { mask: 0x0101, json_resources: true, settle: true, block: 0, subdir: false },
        // 2: the resource in a stand-off JSON file and flagged as changed
        Layout::Standoff { mask: 0x0001, json_resources: true, settle: false, block: 0, subdir: false },
        // 3: resource and dataset stand-off, loaded from CBOR
        Layout::Cbor { mask: 0x0101, json_resources: true },
        // 4: resource as plain text and dataset stand-off, settled
        Layout::Standoff { mask: 0x0101, json_resources: false, settle: true, block: 0, subdir: false },
        // 5: nothing stand-off
        Layout::Inline,
    ];
    let mk = |layout: &Layout, scripts: Vec<Vec<usize>>| Case {
        hist: small_history(),
        layout: layout.clone(),
        scripts: scripts.iter().map(|s| s.iter().map(|i| singles[*i].clone()).collect()).collect(),
        schedule: vec![],
        stress: 0,
    };
    let mut v = vec![];
    for layout in &layouts {
        for i in 0..singles.len() {
            for j in i..singles.len() {
                v.push(mk(layout, vec![vec![i], vec![j]]));
            }
        }
    }
    // three readers (layouts in which every operation has at most two yield points)
    let dataset_settled = Layout::Standoff { mask: 0x0100, json_resources: true, settle: true, block: 0, subdir: false };
    let triples: Vec<[usize; 3]> = match tier {
        Tier::Quick => vec![[0, 1, 3], [1, 1, 2], [2, 3, 4]],
        Tier::Thorough => vec![[0, 1, 3], [1, 1, 2], [2, 3, 4], [0, 0, 1], [0, 2, 4], [1, 3, 4], [0, 0, 0], [1, 1, 1], [0, 5, 7], [1, 5, 6]],
    };
    for layout in [&dataset_settled, &layouts[3]] {
        for tr in &triples {
            v.push(mk(layout, tr.iter().map(|i| vec![*i]).collect()));
        }
    }
    // two operations per reader: what the first leaves behind is seen by the second
    let doubles: Vec<(Vec<usize>, Vec<usize>)> = match tier {
        Tier::Quick => vec![(vec![1, 0], vec![0]), (vec![3, 2], vec![1])],
        Tier::Thorough => vec![
            (vec![1, 0], vec![0]),
            (vec![3, 2], vec![1]),
            (vec![1, 1], vec![0, 0]),
            (vec![4, 0], vec![2, 1]),
            (vec![0, 1], vec![1, 0]),
            (vec![6, 1], vec![5]),
            (vec![3, 0], vec![7, 1]),
        ],
    };
    for layout in [&layouts[1], &layouts[3]] {
        for (a, b) in &doubles {
            v.push(mk(layout, vec![a.clone(), b.clone()]));
        }
    }
    v.extend(blocked_scenarios(tier, false));
    v.extend(subdir_scenarios(tier));
    v.extend(parallel_scenarios());
    v.extend(search_scenarios(tier));
    v
}

/// stand-off members that are flagged as changed while the directory of their files is gone: whatever a
/// serialisation that has to rewrite such a member does alone (fail, on the unchanged tree), it has to do next to
/// other readers as well. The window between "is the directory there" and "put the file into it" holds no yield
/// point, so every scenario is followed by free-running runs (best effort) in which the readers start together.
fn subdir_scenarios(tier: Tier) -> Vec<Case> {
    let st = Cfg::Store { compact: true };
    let ops: Vec<ROp> = vec![
        ROp::StoreJson(st.clone()),                     // 0
        ROp::DatasetJson { set: 0, cfg: st.clone() },   // 1
        ROp::ResourceJson { res: 0, cfg: st.clone() },  // 2
        ROp::StoreFile(st.clone()),                     // 3
        ROp::StoreSave,                                 // 4
    ];
    let dataset = Layout::Standoff { mask: 0x0100, json_resources: true, settle: false, block: 0, subdir: true };
    let resource = Layout::Standoff { mask: 0x0001, json_resources: true, settle: false, block: 0, subdir: true };
    let both = Layout::Standoff { mask: 0x0101, json_resources: true, settle: false, block: 0, subdir: true };
    let settled = Layout::Standoff { mask: 0x0101, json_resources: true, settle: true, block: 0, subdir: true };
    let mk = |layout: &Layout, scripts: Vec<Vec<usize>>| Case {
        hist: small_history(),
        layout: layout.clone(),
        scripts: scripts.iter().map(|s| s.iter().map(|i| ops[*i].clone()).collect()).collect(),
        schedule: vec![],
        stress: 4,
    };
    let mut v = vec![
        mk(&dataset, vec![vec![0], vec![0]]),
        mk(&dataset, vec![vec![0], vec![0], vec![0]]),
        mk(&dataset, vec![vec![1], vec![1], vec![1]]),
        mk(&dataset, vec![vec![0], vec![1], vec![3]]),
        mk(&resource, vec![vec![0], vec![0], vec![0]]),
        mk(&resource, vec![vec![2], vec![2], vec![0]]),
        mk(&both, vec![vec![0], vec![0], vec![0]]),
        mk(&both, vec![vec![1], vec![2], vec![0]]),
        mk(&settled, vec![vec![0], vec![0]]),
    ];
    if tier == Tier::Thorough {
        v.push(mk(&dataset, vec![vec![4], vec![4], vec![4]]));
        v.push(mk(&dataset, vec![vec![3], vec![3], vec![3]]));
        v.push(mk(&both, vec![vec![0, 0], vec![0, 0], vec![0, 0]]));
        v.push(mk(&both, vec![vec![4], vec![0], vec![3]]));
        v.push(mk(&resource, vec![vec![3], vec![2], vec![4]]));
    }
    v
}

/// stand-off members that are flagged as changed while their file cannot be written: every serialisation that
/// has to rewrite the member fails, and it has to fail for every reader in the same way
fn blocked_scenarios(tier: Tier, sampled: bool) -> Vec<Case> {
    let st = Cfg::Store { compact: true };
    let ops: Vec<ROp> = vec![
        ROp::StoreJson(st.clone()),                     // 0
        ROp::DatasetJson { set: 0, cfg: st.clone() },   // 1
        ROp::ResourceJson { res: 0, cfg: st.clone() },  // 2
        ROp::StoreFile(st.clone()),                     // 3
        ROp::StoreValue,                                // 4
        ROp::StoreSave,                                 // 5
        ROp::DatasetFile { set: 0, cfg: st.clone() },   // 6
    ];
    let dataset = Layout::Standoff { mask: 0x0100, json_resources: true, settle: false, block: 0x0100, subdir: false };
    let resource = Layout::Standoff { mask: 0x0001, json_resources: true, settle: false, block: 0x0001, subdir: false };
    let both = Layout::Standoff { mask: 0x0101, json_resources: true, settle: false, block: 0x0101, subdir: false };
    let one_of_two = Layout::Standoff { mask: 0x0101, json_resources: true, settle: false, block: 0x0100, subdir: false };
    let settled = Layout::Standoff { mask: 0x0101, json_resources: true, settle: true, block: 0x0101, subdir: false };
    let mk = |layout: &Layout, scripts: Vec<Vec<usize>>| Case {
        hist: small_history(),
        layout: layout.clone(),
        scripts: scripts.iter().map(|s| s.iter().map(|i| ops[*i].clone()).collect()).collect(),
        schedule: vec![],
        stress: 0,
    };
    let mut v = vec![];
    // two readers
    for (layout, pairs) in [
        (&dataset, vec![(0, 0), (0, 1), (0, 3), (0, 4), (0, 5), (3, 3), (0, 6)]),
        (&resource, vec![(0, 0), (0, 2), (0, 3)]),
        (&both, vec![(0, 0), (0, 3)]),
        (&one_of_two, vec![(0, 2)]),
        (&settled, vec![(0, 0)]),
    ] {
        for (a, b) in pairs {
            v.push(mk(layout, vec![vec![a], vec![b]]));
        }
    }
    // a reader that tries twice
    v.push(mk(&dataset, vec![vec![0, 0], vec![0]]));
    if sampled {
        // three readers, and two readers that rewrite one member before they fail on the other: the schedule
        // trees are too large to enumerate
        v.clear();
        v.push(mk(&dataset, vec![vec![0], vec![0], vec![0]]));
        v.push(mk(&one_of_two, vec![vec![0], vec![0]]));
        if tier == Tier::Thorough {
            v.push(mk(&dataset, vec![vec![0], vec![1], vec![3]]));
            v.push(mk(&resource, vec![vec![0], vec![0], vec![0]]));
            v.push(mk(&both, vec![vec![0], vec![0], vec![0]]));
        }
    }
    v
}

/// scenarios whose schedule tree is too large for the exhaustive enumeration: they get a fixed sample of
/// schedules (every vector of `SAMPLED_DEPTH` choices from 0..3; the rest of the run continues without a switch)
fn sampled_scenarios(tier: Tier) -> Vec<Case> {
    let mut v = vec![];
    for scen in blocked_scenarios(tier, true) {
        for code in 0..3usize.pow(SAMPLED_DEPTH) {
            let mut schedule = vec![];
            let mut c = code;
            for _ in 0..SAMPLED_DEPTH {
                schedule.push((c % 3) as u8);
                c /= 3;
            }
            while schedule.last() == Some(&0) {
                schedule.pop();
            }
            v.push(Case { schedule, ..scen.clone() });
        }
    }
    v
}

const SAMPLED_DEPTH: u32 = 5;

/// a store whose annotations hold their data in non-ascending handle order, share data, use data with equal
/// handles from two sets, and target other annotations in non-ascending order
fn parallel_history() -> History {
    let text = |b: u16, e: u16| SelSpec::Text { res: 0, off: OffSpec { b, e, b_end: false, e_end: false } };
    let new = |key: u8, val: &str| ADSpec::New { set: SetRef::Live(0), with_id: true, key, val: Val::Str(val.into()) };
    let ann = |target: SelSpec, data: Vec<ADSpec>| Op::Annotate { with_id: true, sfx: 0, by_handle: false, target, data };
    History {
        hostile: false,
        ops: vec![
            Op::AddResource { text: "ab c ab é".into(), sfx: 0 },
            Op::AddDataset {
                sfx: 0,
                data: vec![
                    DSpec { with_id: true, key: 0, val: Val::Str("noun".into()) },
                    DSpec { with_id: true, key: 0, val: Val::Str("verb".into()) },
                ],
            },
            Op::AddDataset { sfx: 2, data: vec![DSpec { with_id: true, key: 1, val: Val::Str("x".into()) }] },
            // A0: new data (set 0, handle 2)
            ann(text(0, 20000), vec![new(1, "the")]),
            // A1: new data (set 0, handle 3), then the older (set 0, handle 0): descending
            ann(text(20000, 40000), vec![new(2, "one"), ADSpec::Existing { set: 0, data: 0 }]),
            // A2: (set 0, handle 0) again and (set 1, handle 0): equal handles in two sets, data shared with A1
            ann(text(0, 65535), vec![ADSpec::Existing { set: 0, data: 0 }, ADSpec::Existing { set: 65535, data: 0 }]),
            // A3 on A1: (set 0, handle 1) then (set 0, handle 0)
            ann(SelSpec::Ann { ann: 30000, off: None }, vec![ADSpec::Existing { set: 0, data: 20000 }, ADSpec::Existing { set: 0, data: 0 }]),
            // A4: A2 before A0
            ann(
                SelSpec::Directional(vec![SelSpec::Ann { ann: 40000, off: None }, SelSpec::Ann { ann: 0, off: None }]),
                vec![ADSpec::Existing { set: 65535, data: 0 }, new(1, "last")],
            ),
        ],
    }
}

fn parallel_scenarios() -> Vec<Case> {
    let n = PAR_SOURCES.len() as u8;
    let mut v = vec![];
    let mut k = 0;
    while k < n {
        // two sources per reader, two readers
        let script = |a: u8| vec![ROp::ParallelMap(a % n), ROp::ParallelMap((a + 1) % n)];
        v.push(Case {
            hist: parallel_history(),
            layout: Layout::Inline,
            scripts: vec![script(k), script(k + 2)],
            schedule: vec![],
            stress: 1,
        });
        k += 4;
    }
    v.push(Case {
        hist: parallel_history(),
        layout: Layout::Inline,
        scripts: vec![vec![ROp::ParallelMap(4)], vec![ROp::ParallelMap(4)], vec![ROp::ParallelMap(5), ROp::Iterate]],
        schedule: vec![],
        stress: 1,
    });
    v
}

/// texts of at least 150 unicode points that mix characters of 1, 2, 3 and 4 bytes
fn search_text(variant: u8) -> String {
    let unit = match variant % 3 {
        0 => "ab é 日本 😀 ß c ab\n",
        1 => "😀日ab é😀😀 ßb c日本İ ",
        _ => "a b c ab é ǅ日😀x ab ab  ßé",
    };
    let mut s = String::new();
    let mut i = 0;
    while s.chars().count() < 180 + 120 * (variant as usize % 4) {
        s.push_str(unit);
        // vary the distance between the repetitions
        if i % 3 == 1 {
            s.push_str("K😀");
        }
        i += 1;
    }
    s
}

fn search_history(variant: u8) -> History {
    History {
        hostile: false,
        ops: vec![
            Op::AddResource { text: search_text(variant), sfx: 0 },
            Op::AddDataset {
                sfx: 0,
                data: vec![DSpec { with_id: true, key: 0, val: Val::Str("noun".into()) }],
            },
            Op::Annotate {
                with_id: true,
                sfx: 0,
                by_handle: false,
                target: SelSpec::Text { res: 0, off: OffSpec { b: 9000, e: 30000, b_end: false, e_end: false } },
                data: vec![ADSpec::Existing { set: 0, data: 0 }],
            },
        ],
    }
}

/// readers that search the same resource again and again, also free-running (`stress`): the state behind the
/// conversions between byte and unicode point positions is not behind the H2 yield points
fn search_scenarios(tier: Tier) -> Vec<Case> {
    let reps = SEARCH_SCENARIO_REPS;
    let mut v = vec![];
    let variants: u8 = tier.pick(4, 12);
    for variant in 0..variants {
        let layout = match variant % 4 {
            1 => Layout::Standoff { mask: 0x0001, json_resources: false, settle: true, block: 0, subdir: false },
            3 => Layout::Standoff { mask: 0x0001, json_resources: true, settle: true, block: 0, subdir: false },
            _ => Layout::Inline,
        };
        let sl = |needle: u8| ROp::SearchLoop { res: 0, needle, reps };
        // three readers with different needles
        v.push(Case {
            hist: search_history(variant),
            layout: layout.clone(),
            scripts: vec![vec![sl(variant)], vec![sl(variant + 1)], vec![sl(variant + 2)]],
            schedule: vec![],
            stress: SEARCH_SCENARIO_STRESS,
        });
        // three readers with the same needle
        v.push(Case {
            hist: search_history(variant),
            layout,
            scripts: vec![vec![sl(variant + 3)], vec![sl(variant + 3)], vec![sl(variant + 3)]],
            schedule: vec![],
            stress: SEARCH_SCENARIO_STRESS,
        });
    }
    v
}

/// weights of the general and of the searching arm of the random generator
const SEARCH_ARM: (u32, u32) = (99, 1);
const SEARCH_SCENARIO_REPS: u16 = 80;
const SEARCH_SCENARIO_STRESS: u8 = 3;

// ------------------------------------------------------------------------------------------------
// strategies

fn cfg_strategy() -> BoxedStrategy<Cfg> {
    prop_oneof![
        5 => any::<bool>().prop_map(|compact| Cfg::Store { compact }),
        2 => any::<bool>().prop_map(|compact| Cfg::Member { compact }),
        2 => any::<bool>().prop_map(|compact| Cfg::Fresh { compact }),
    ]
    .boxed()
}

fn rop_strategy() -> BoxedStrategy<ROp> {
    prop_oneof![
        6 => cfg_strategy().prop_map(ROp::StoreJson),
        2 => Just(ROp::StoreValue),
        1 => cfg_strategy().prop_map(ROp::StoreFile),
        1 => Just(ROp::StoreSave),
        5 => (any::<u16>(), cfg_strategy()).prop_map(|(set, cfg)| ROp::DatasetJson { set, cfg }),
        2 => any::<u16>().prop_map(|set| ROp::DatasetJsonPlain { set }),
        1 => any::<u16>().prop_map(|set| ROp::DatasetValue { set }),
        2 => (any::<u16>(), cfg_strategy()).prop_map(|(set, cfg)| ROp::DatasetFile { set, cfg }),
        4 => (any::<u16>(), cfg_strategy()).prop_map(|(res, cfg)| ROp::ResourceJson { res, cfg }),
        1 => any::<u16>().prop_map(|res| ROp::ResourceJsonPlain { res }),
        1 => any::<u16>().prop_map(|res| ROp::ResourceValue { res }),
        1 => (any::<u16>(), cfg_strategy()).prop_map(|(res, cfg)| ROp::ResourceFile { res, cfg }),
        2 => (0u8..6).prop_map(ROp::Query),
        1 => (any::<u16>(), 0u8..4).prop_map(|(res, needle)| ROp::FindText { res, needle }),
        1 => (any::<u16>(), any::<u16>(), 0u8..8).prop_map(|(res, sel, op)| ROp::RelatedText { res, sel, op }),
        4 => (0u8..PAR_SOURCES.len() as u8).prop_map(ROp::ParallelMap),
        1 => Just(ROp::Iterate),
        1 => (any::<u16>(), 0u8..6, 2u16..=24).prop_map(|(res, needle, reps)| ROp::SearchLoop { res, needle, reps }),
    ]
    .boxed()
}

fn layout_strategy() -> BoxedStrategy<Layout> {
    let mask = prop_oneof![3 => Just(0xffffu16), 2 => any::<u16>(), 1 => Just(0xff00u16), 1 => Just(0x00ffu16)];
    // about one store in ten has stand-off members whose file cannot be written
    let block = prop_oneof![17 => Just(0u16), 1 => Just(0xffffu16), 1 => Just(0xff00u16), 1 => any::<u16>()];
    prop_oneof![
        2 => Just(Layout::Inline),
        11 => (mask.clone(), any::<bool>(), any::<bool>(), block, proptest::bool::weighted(0.15)).prop_map(|(mask, json_resources, settle, block, settle_blocked)| {
            // a blocked member matters while it is flagged as changed: mostly not settled then
            let settle = if block == 0 { settle } else { settle_blocked };
            Layout::Standoff { mask, json_resources, settle, block, subdir: false }
        }),
        2 => (mask, any::<bool>()).prop_map(|(mask, json_resources)| Layout::Cbor { mask, json_resources }),
    ]
    .boxed()
}

impl Property for C20 {
    type Case = Case;
    fn id(&self) -> &'static str {
        "C20"
    }
    fn rule(&self) -> String {
        "case = final store of a C01 history in one of three layouts (inline as built / resources and datasets selected by a mask moved to @include files and loaded with use_include, optionally serialised once so that no member is flagged as changed, optionally (`block`, about one random store in ten) with the stand-off files of selected members replaced by directories of the same name once the store is loaded, so that a member that is flagged as changed cannot be written and every serialisation that has to rewrite it fails / the stand-off store saved as CBOR and loaded again) x 2-3 reader scripts of 1-3 read-only operations (store to_json_string / to_json_value / to_json_file / save, dataset and resource ToJson::to_json_string with the store's, the member's or a fresh Config, their inherent to_json_string, to_json_value, to_json_file, 6 SELECT queries, find_text, related_text under 8 operators, .parallel().map().collect() over one of 22 sources covering all six parallel() adaptors - the store-level iterators, annotation.data() / annotations().data_unchecked() / annotations().data() / dataset.data() / dataset.keys() / resource.textselections() / annotation.textselections() / annotation.annotations() / annotations_in_targets(Max) / annotation.keys() per member, flat_map sources with repeats, reversed sources -, plain iteration, SearchLoop = 1-400 identical rounds of find_text + find_text_nocase + find_text_regex + split_text + utf8byte/utf8byte_to_charpos round trips on one resource, returning a digest of all rounds and the first round in full) x a schedule. One random case in a hundred is a searching case: one resource of 150-320 unicode points over an alphabet of 1-, 2-, 3- and 4-byte characters, 2-3 scripts of mostly SearchLoop on it, 2-4 free-running runs. Every script runs on its own OS thread under a cooperative scheduler that blocks each thread at every H2 yield point (before each read/write of the serialisation-mode cell and of the changed flags) and lets the schedule choose who proceeds; afterwards `stress` further runs use free-running threads (best effort, not deterministic). Oracle: every operation returns exactly the string / error / panic it returns when its script runs alone on an identically built store (with a blocked member: exactly the same error), and every file in the store's directory ends with the content it has after the script that changes it ran alone (untouched if no script changes it alone; a blocked file stays an empty directory). Facet parallel.sequential (checked by one thread on the quiescent store, for every source a script uses): source.parallel().map(f).collect::<Vec<_>>() equals source.map(f).collect::<Vec<_>>() for the same source expression - same items, same order, same multiplicity (labels parallel.unsorted_source[.<item type>] = the source was not strictly ascending, i.e. unsorted or with repeats; store.annotation_data_not_ascending / store.data_shared_by_annotations describe the store). Enumerated part: every schedule of small fixed scenarios (a 1-resource 1-dataset 1-annotation store in 6 layouts - dataset stand-off and changed / resource+dataset stand-off settled / resource stand-off and changed / loaded from CBOR / text file + dataset settled / inline - x all unordered pairs of 5 (thorough: 8) serialising operations, plus three-reader scenarios and scripts of two operations; 14 two-reader scenarios and one with a reader that tries twice on stores with blocked stand-off members (dataset / resource / both / one of two / settled) x store and member serialisations; 9 (thorough: 14) scenarios of 2-3 readers on stores whose stand-off files live in a subdirectory that is removed once the store is loaded (`subdir`: a serialisation that has to rewrite a member finds no directory; whatever it does alone it has to do next to other readers), each followed by 4 free-running runs; 7 scenarios of two ParallelMap per reader over all 22 sources on a store whose annotations hold their data in descending handle order, share data, use equal handles from two sets and target annotations in descending order; 8 (thorough: 24) scenarios of three readers that each run SearchLoop (80 rounds) on one resource of 180-540 unicode points with 1-4 byte characters, with the same and with different needles, inline and stand-off, each followed by 3 free-running runs). Two blocked scenarios whose schedule tree is too large (three readers; two readers that rewrite one member before failing on the other) get every schedule prefix of 5 choices out of 3 instead. Non-trivial = the scheduled run has at least one context switch between a write and a read of the same cell (cell = kind of cell: serialisation mode or changed flag; the hook does not identify the instance): either an operation reads the cell after another thread wrote it, the two operations overlapping in time (the writer has not returned yet, or it wrote after the reading operation began; labels switch.*), or another thread writes the cell after an operation read it and before that operation returns (labels stale.*); distinct = distinct case JSON.".into()
    }
    fn assumptions(&self) -> Vec<String> {
        vec![
            "only interleavings at the H2 hook points (Config::set_serialize_mode / serialize_mode, ChangeMarker::changed / mark_changed / mark_unchanged) are explored, under sequential consistency: between two yield points a thread runs atomically; hardware reorderings and data races on state that is not behind these hooks are out of reach".into(),
            "state that is not behind the H2 yield points (anything a search or an iterator might cache through a shared reference) can only be reached by the unscheduled runs: SearchLoop and the searching scenarios exist to give those runs a long window of concurrent searches on one resource. They found a seeded two-atomics cache in utf8byte_to_charpos in every quick run that was tried, but see the next point".into(),
            "the unscheduled stress runs (facets stress.*) are best effort only: their interleavings are whatever the OS produces, a pass there proves nothing and a failure there may not reproduce when the saved case is replayed in a new process (within one process a mismatch that was observed once on a case is reported again when the engine re-runs that case)".into(),
            "rayon worker threads and all other threads of the process are not scheduled; they pass through yield points untouched. The closures given to .parallel().map() do not touch the hooked cells".into(),
            "the reference ('running alone') is the same script executed by one thread on a store built in the same way in a fresh directory; outputs that mention the directory are normalised".into(),
            "at most 3 reader threads and 3 operations per thread; stand-off members are resources (.txt / .json) and datasets, no sub-stores".into(),
            "parallel.sequential rests on the README ('you can add .parallel() to an iterator, any subsequent iterator methods (generic ones like map() and filter()) will then run in parallel') and on the return type rayon::vec::IntoIter, an indexed parallel iterator whose collect into a Vec keeps the order of the items: parallel() must hand on exactly the items of the iterator it is called on. The source expression is evaluated twice on a store nobody else uses at that moment".into(),
            "an unwritable stand-off file is simulated by a directory of the same name (the checks may run as root, so permissions would not do); the error text contains the directory, which is normalised. Only Layout::Standoff can be blocked (after a CBOR round trip no member is flagged as changed)".into(),
            "a scheduler wait that exceeds 20 s or a run with more than 20000 yield points is abandoned (all threads released, case skipped), never reported as a violation".into(),
            "scratch directories are created under $VERIF_TMP if set, else under /dev/shm when it is writable (every run rewrites a handful of small files), else under /tmp; CBOR files are not part of the file comparison (their bytes differ from save to save)".into(),
        ]
    }
    fn cases(&self, tier: Tier) -> u64 {
        tier.pick(60_000, 600_000)
    }
    fn exhaustive_note(&self, tier: Tier) -> Option<String> {
        Some(format!(
            "every schedule (choice of the next thread at every yield point) of each enumerated scenario whose schedule tree has at most {} leaves; coverage.enumeration reports scenarios, schedules and truncated scenarios; two scenarios with larger trees get a fixed sample of schedules instead (sampled_schedules_of_large_scenarios)",
            tier.pick(4_000, 40_000)
        ))
    }
    fn extra_coverage(&self) -> serde_json::Value {
        serde_json::json!({
            "enumeration": {
                "scenarios": ENUM_SCENARIOS.load(Ordering::Relaxed),
                "schedules": ENUM_SCHEDULES.load(Ordering::Relaxed),
                "scenarios_truncated_or_abandoned": ENUM_TRUNCATED.load(Ordering::Relaxed),
                "max_yield_points_in_a_scenario": ENUM_MAX_YIELDS.load(Ordering::Relaxed),
                "sampled_schedules_of_large_scenarios": ENUM_SAMPLED.load(Ordering::Relaxed),
            },
            "scheduler_timeouts": TIMEOUTS.load(Ordering::Relaxed),
        })
    }
    fn enumerate(&self, tier: Tier) -> Vec<Case> {
        install_panic_hook();
        if std::env::var("VERIF_C20_SKIP_SCENARIOS").is_ok() {
            // evaluation aid only (does the random search find it without the fixed scenarios?); registered
            // commands never set this
            eprintln!("C20: VERIF_C20_SKIP_SCENARIOS is set, the enumerated scenarios are skipped");
            return vec![];
        }
        let cap = tier.pick(4_000, 40_000);
        let scen = scenarios(tier);
        let next = AtomicU64::new(0);
        let results: Mutex<Vec<(usize, Vec<Case>)>> = Mutex::new(vec![]);
        let workers = std::thread::available_parallelism().map(|n| n.get()).unwrap_or(4).min(16);
        std::thread::scope(|s| {
            for _ in 0..workers {
                s.spawn(|| loop {
                    let i = next.fetch_add(1, Ordering::Relaxed) as usize;
                    if i >= scen.len() {
                        break;
                    }
                    let (schedules, complete, max_yields) = all_schedules(&scen[i], cap);
                    ENUM_SCENARIOS.fetch_add(1, Ordering::Relaxed);
                    ENUM_SCHEDULES.fetch_add(schedules.len() as u64, Ordering::Relaxed);
                    ENUM_MAX_YIELDS.fetch_max(max_yields as u64, Ordering::Relaxed);
                    if !complete {
                        ENUM_TRUNCATED.fetch_add(1, Ordering::Relaxed);
                    }
                    if std::env::var("VERIF_VERBOSE").is_ok() {
                        eprintln!(
                            "C20 enumerate: scenario {} {:?} {:?}: {} schedules, complete={}, yield points<={}",
                            i,
                            scen[i].layout,
                            scen[i].scripts.iter().map(|s| s.iter().map(|o| o.kind()).collect::<Vec<_>>()).collect::<Vec<_>>(),
                            schedules.len(),
                            complete,
                            max_yields
                        );
                    }
                    let cases: Vec<Case> = schedules.into_iter().map(|schedule| Case { schedule, ..scen[i].clone() }).collect();
                    results.lock().unwrap_or_else(|e| e.into_inner()).push((i, cases));
                });
            }
        });
        let mut results = results.into_inner().unwrap_or_else(|e| e.into_inner());
        results.sort_by_key(|x| x.0);
        let mut all: Vec<Case> = results.into_iter().flat_map(|x| x.1).collect();
        let sampled = sampled_scenarios(tier);
        ENUM_SAMPLED.fetch_add(sampled.len() as u64, Ordering::Relaxed);
        all.extend(sampled);
        all
    }
    fn strategy(&self, tier: Tier) -> BoxedStrategy<Case> {
        let cfg = HistCfg {
            max_ops: tier.pick(10, 24),
            text_max: 12,
            removal_weight: 2,
            protect_weight: 0,
            complex_weight: 1,
            ..HistCfg::default()
        };
        let scripts = proptest::collection::vec(proptest::collection::vec(rop_strategy(), 1..=3), 2..=3);
        let schedule = proptest::collection::vec(any::<u8>(), 0..=tier.pick(48, 96));
        let stress = prop_oneof![3 => Just(0u8), 2 => Just(1u8), 1 => Just(2u8)];
        let general = (history_strategy(cfg), layout_strategy(), scripts, schedule, stress)
            .prop_map(|(hist, layout, scripts, schedule, stress)| Case { hist, layout, scripts, schedule, stress });
        // searching readers on a long multi-byte text, always with free-running runs
        let search_op = prop_oneof![
            8 => (0u8..6, 4u16..=20).prop_map(|(needle, reps)| ROp::SearchLoop { res: 0, needle, reps }),
            1 => (0u8..4).prop_map(|needle| ROp::FindText { res: 0, needle }),
            1 => (any::<u16>(), 0u8..8).prop_map(|(sel, op)| ROp::RelatedText { res: 0, sel, op }),
            1 => (4u8..6).prop_map(ROp::Query),
            1 => Just(ROp::Iterate),
        ];
        let search_layout = prop_oneof![
            3 => Just(Layout::Inline),
            1 => any::<bool>().prop_map(|json_resources| Layout::Standoff { mask: 0x0001, json_resources, settle: true, block: 0, subdir: false }),
            1 => any::<bool>().prop_map(|json_resources| Layout::Cbor { mask: 0x0001, json_resources }),
        ];
        let search = (
            proptest::collection::vec(proptest::sample::select(ALPHABET.to_vec()), 150..=320),
            proptest::collection::vec(offspec_strategy(), 0..=3),
            search_layout,
            proptest::collection::vec(proptest::collection::vec(search_op, 1..=2), 2..=3),
            2u8..=4,
        )
            .prop_map(|(text, offs, layout, scripts, stress)| {
                let mut hist = search_history(0);
                hist.ops[0] = Op::AddResource { text: text.into_iter().collect(), sfx: 0 };
                for off in offs {
                    hist.ops.push(Op::Annotate { with_id: true, sfx: 0, by_handle: false, target: SelSpec::Text { res: 0, off }, data: vec![] });
                }
                Case { hist, layout, scripts, schedule: vec![], stress }
            });
        prop_oneof![SEARCH_ARM.0 => general, SEARCH_ARM.1 => search].boxed()
    }
    fn health(&self, labels: &BTreeMap<String, u64>, evals: u64) -> Vec<String> {
        let mut v = vec![];
        if evals < 500 {
            return v;
        }
        let get = |k: &str| labels.get(k).copied().unwrap_or(0);
        let nt = get("switch.mode") + get("switch.changed");
        if (get("switch.mode") as f64) < 0.15 * evals as f64 {
            v.push(format!("only {} of {} cases have a context switch between a write and a read of the serialisation mode", get("switch.mode"), evals));
        }
        if nt == 0 {
            v.push("no case with a write/read context switch at all".into());
        }
        if (get("stopped_at_foreign_divergence") as f64) > 0.2 * evals as f64 {
            v.push(format!("{} of {} cases stopped before the readers ran (foreign divergence)", get("stopped_at_foreign_divergence"), evals));
        }
        // the classes that only the random generator produces in numbers: relative to the random cases (the
        // enumerated ones are known), and only when there are enough of them to judge
        let random = evals.saturating_sub(ENUM_SCHEDULES.load(Ordering::Relaxed) + ENUM_SAMPLED.load(Ordering::Relaxed));
        if random < 5000 {
            return v;
        }
        let frac = |k: &str| get(k) as f64 / random as f64;
        // a class that is rare by construction must still show up: 1 in 600 random cases (about a quarter of what is observed)
        let few = random / 600;
        if frac("layout.standoff_blocked_dirty") < 0.03 || frac("blocked.error_alone") < 0.02 {
            v.push(format!(
                "only {} of {} cases have a changed stand-off member whose file cannot be written ({} with an error when running alone)",
                get("layout.standoff_blocked_dirty"),
                evals,
                get("blocked.error_alone")
            ));
        }
        if frac("parallel.unsorted_source") < 0.02 || get("parallel.unsorted_source.data") < few || get("parallel.unsorted_source.annotations") < few || get("parallel.unsorted_source.textselections") < few {
            v.push(format!(
                "only {} of {} cases use .parallel() on an unsorted or repeating source (data: {}, annotations: {}, text selections: {})",
                get("parallel.unsorted_source"),
                evals,
                get("parallel.unsorted_source.data"),
                get("parallel.unsorted_source.annotations"),
                get("parallel.unsorted_source.textselections")
            ));
        }
        if frac("op.search_loop") < 0.03 || get("stress.searches_long_text") < few {
            v.push(format!(
                "only {} of {} cases run SearchLoop, {} have free-running searches of two or more readers on a long multi-byte text",
                get("op.search_loop"),
                evals,
                get("stress.searches_long_text")
            ));
        }
        v
    }

    fn run(&self, case: &Case) -> Outcome {
        let mut out = Outcome::new();
        let n = case.scripts.len();
        if !(2..=3).contains(&n) || case.scripts.iter().any(|s| s.is_empty() || s.len() > 8) {
            out.skip("invalid case");
            return out;
        }
        let Some(prep) = prepare(case, &mut out) else { return out };
        out.label(if n == 2 { "threads.2" } else { "threads.3" });
        for k in case.scripts.iter().flatten().map(|o| o.kind()).collect::<BTreeSet<_>>() {
            out.label(&format!("op.{}", k));
        }

        // ---- every script alone, on its own identical store
        let threads: Vec<(usize, Script)> = case.scripts.iter().enumerate().map(|(t, s)| (t, Arc::new(s.clone()))).collect();
        let alone = match alone_runs(case, &prep, &threads) {
            Ok(a) => a,
            Err(AloneErr::Foreign) => {
                out.label("stopped_at_foreign_divergence");
                return out;
            }
            Err(AloneErr::Aborted(reason)) => {
                out.skip(reason);
                return out;
            }
        };
        let alone_out = &alone.outs;
        let s0 = &alone.s0;
        if alone.files.iter().any(|f| f != s0) {
            out.label("alone.writes_files");
        }
        let expected = expected_files(s0, &alone.files);

        // ---- the scheduled run
        let inst = match instantiate(&prep) {
            Ok(i) => Arc::new(i),
            Err(_) => {
                out.label("stopped_at_foreign_divergence");
                return out;
            }
        };
        // ---- what the store looks like (it is quiescent here)
        let shape = store_shape(&inst.store);
        if shape.ann_data_unsorted {
            out.label("store.annotation_data_not_ascending");
        }
        if shape.data_shared {
            out.label("store.data_shared_by_annotations");
        }
        if shape.long_multibyte_text {
            out.label("store.long_multibyte_text");
        }
        if !prep.blocked.is_empty() && alone_out.iter().flatten().any(|o| o.starts_with("err:")) {
            out.label("blocked.error_alone");
        }
        if case.stress > 0 && case.scripts.iter().filter(|s| s.iter().any(|o| matches!(o, ROp::SearchLoop { .. } | ROp::FindText { .. }))).count() >= 2 {
            out.label(if shape.long_multibyte_text { "stress.searches_long_text" } else { "stress.searches" });
        }

        // ---- .parallel() yields what the iterator yields (one thread, before the readers start)
        let ks: BTreeSet<u8> = case
            .scripts
            .iter()
            .flatten()
            .filter_map(|o| if let ROp::ParallelMap(k) = o { Some(*k % PAR_SOURCES.len() as u8) } else { None })
            .collect();
        for k in ks {
            let Ok(pp) = catch(|| parallel_pair(&inst.store, k)) else { continue };
            out.label(&format!("par.{}", pp.name));
            if pp.plural {
                out.label("parallel.plural_source");
            }
            if pp.unsorted {
                out.label("parallel.unsorted_source");
                out.label(&format!("parallel.unsorted_source.{}", pp.item));
            }
            out.checks += 1;
            if pp.par != pp.seq {
                let pos = pp.par.iter().zip(pp.seq.iter()).position(|(a, b)| a != b).unwrap_or(pp.par.len().min(pp.seq.len()));
                out.fail(
                    "parallel.sequential",
                    format!("parallel:{}", pp.name),
                    format!(
                        "{}: .parallel().map(f).collect::<Vec<_>>() gives {} items, .map(f).collect::<Vec<_>>() on the same iterator {}; first difference at index {}: parallel {:?} vs sequential {:?}",
                        pp.name,
                        pp.par.len(),
                        pp.seq.len(),
                        pos,
                        pp.par.iter().skip(pos.saturating_sub(2)).take(6).collect::<Vec<_>>(),
                        pp.seq.iter().skip(pos.saturating_sub(2)).take(6).collect::<Vec<_>>()
                    ),
                );
            }
        }
        if !out.failures.is_empty() {
            return out;
        }

        let r = run_threads(&inst, &threads, &case.schedule, true);
        if let Some(reason) = r.aborted {
            out.skip(reason);
            return out;
        }
        let a = analyse(&r.log, n);
        out.label(match a.yields {
            0 => "yields.0",
            1..=10 => "yields.1-10",
            11..=40 => "yields.11-40",
            _ => "yields.gt40",
        });
        out.label(match a.switches {
            0 => "switches.0",
            1..=3 => "switches.1-3",
            _ => "switches.gt3",
        });
        if a.nt_mode {
            out.label("switch.mode");
        }
        if a.nt_changed {
            out.label("switch.changed");
        }
        if a.stale_mode {
            out.label("stale.mode");
        }
        if a.stale_changed {
            out.label("stale.changed");
        }
        out.nontrivial = a.nt_mode || a.nt_changed || a.stale_mode || a.stale_changed;

        // first divergent output in completion order
        let mut divergent: Vec<(usize, usize, usize)> = vec![]; // (position of OpEnd in the log, thread, op)
        for t in 0..n {
            for i in 0..case.scripts[t].len() {
                out.checks += 1;
                let got = r.outputs.get(t).and_then(|o| o.get(i));
                let exp = alone_out.get(t).and_then(|o| o.get(i));
                if got != exp {
                    let pos = r
                        .log
                        .iter()
                        .position(|e| e.kind == EvKind::OpEnd && e.t as usize == t && e.op as usize == i)
                        .unwrap_or(usize::MAX);
                    divergent.push((pos, t, i));
                }
            }
        }
        divergent.sort();
        if let Some((_, t, i)) = divergent.first().copied() {
            // is the reference itself reproducible?
            let again = instantiate(&prep).ok().map(|inst2| run_threads(&Arc::new(inst2), &threads[t..=t], &[], true));
            let reproducible = again
                .as_ref()
                .map(|r2| r2.aborted.is_none() && r2.outputs.first() == alone_out.get(t))
                .unwrap_or(false);
            if !reproducible {
                out.label("alone.not_reproducible");
                out.dontcare += 1;
            } else {
                let sig = signature_for(&r.log, &case.scripts, t, i);
                let empty = String::new();
                let exp = alone_out[t].get(i).unwrap_or(&empty);
                let got = r.outputs[t].get(i).unwrap_or(&empty);
                out.fail(
                    "output",
                    sig,
                    format!(
                        "thread {} operation {} ({}) returned something else than when its script runs alone: {}; schedule trace:{}",
                        t,
                        i,
                        case.scripts[t][i].kind(),
                        first_diff(exp, got),
                        render_trace(&r.log, &case.scripts)
                    ),
                );
            }
        }
        // final file contents
        let final_files = snapshot(&inst.dir);
        let mut names: BTreeSet<&String> = final_files.keys().collect();
        names.extend(expected.keys());
        for name in names {
            out.checks += 1;
            match expected.get(name) {
                Some(None) => out.dontcare += 1,
                Some(Some(exp)) => {
                    if final_files.get(name) != exp.as_ref() {
                        out.fail(
                            "files",
                            files_signature(&case.scripts),
                            format!(
                                "file {} ends as {:?}, but as {:?} when the scripts run alone; schedule trace:{}",
                                name,
                                final_files.get(name).map(|s| s.chars().take(300).collect::<String>()),
                                exp.as_ref().map(|s| s.chars().take(300).collect::<String>()),
                                render_trace(&r.log, &case.scripts)
                            ),
                        );
                    }
                }
                None => out.fail(
                    "files",
                    files_signature(&case.scripts),
                    format!("file {} exists after the shared run but after no run of a script alone", name),
                ),
            }
        }
        drop(inst);
        if !out.failures.is_empty() {
            return out;
        }

        // ---- unscheduled stress runs (best effort)
        for _ in 0..case.stress.min(4) {
            out.label("stress");
            let inst = match instantiate(&prep) {
                Ok(i) => Arc::new(i),
                Err(_) => return out,
            };
            let r = run_threads(&inst, &threads, &[], false);
            if r.aborted.is_some() {
                continue;
            }
            let mut kinds: BTreeSet<&'static str> = case.scripts.iter().flatten().map(|o| o.kind()).filter(|k| is_writer_kind(k)).collect();
            if kinds.is_empty() {
                // no serialising operation at all: name the operations there are
                kinds = case.scripts.iter().flatten().map(|o| o.kind()).collect();
            }
            let all: Vec<&'static str> = kinds.into_iter().collect();
            'cmp: for t in 0..n {
                for i in 0..case.scripts[t].len() {
                    out.checks += 1;
                    let got = r.outputs.get(t).and_then(|o| o.get(i));
                    let exp = alone_out.get(t).and_then(|o| o.get(i));
                    if got != exp {
                        let empty = String::new();
                        out.fail(
                            "stress.output",
                            format!("stress:{}", all.join("||")),
                            format!(
                                "[unscheduled, best-effort run] thread {} operation {} ({}) returned something else than when its script runs alone: {}",
                                t,
                                i,
                                case.scripts[t][i].kind(),
                                first_diff(exp.unwrap_or(&empty), got.unwrap_or(&empty))
                            ),
                        );
                        break 'cmp;
                    }
                }
            }
            let final_files = snapshot(&inst.dir);
            for (name, exp) in &expected {
                if let Some(exp) = exp {
                    out.checks += 1;
                    if final_files.get(name) != exp.as_ref() {
                        out.fail(
                            "stress.files",
                            format!("stress:{}", files_signature(&case.scripts)),
                            format!("[unscheduled, best-effort run] file {} ends with a content that no script produces alone", name),
                        );
                    }
                }
            }
            if !out.failures.is_empty() {
                remember_stress_failure(case, &out.failures);
                return out;
            }
        }
        if case.stress > 0 {
            // a free-running mismatch that was observed on this very case earlier in this process stays a
            // finding even if the OS does not produce the same interleaving again
            for f in recall_stress_failure(case) {
                out.fail(&f.facet, f.signature, format!("[observed earlier in this process, not on this run] {}", f.detail));
            }
        }
        out
    }
}

struct Shape {
    /// some annotation holds its data in an order that is not ascending by handle
    ann_data_unsorted: bool,
    /// some data item is used by more than one annotation
    data_shared: bool,
    /// some resource has at least 150 unicode points and characters of 1, 2, 3 and 4 bytes
    long_multibyte_text: bool,
}

fn store_shape(store: &AnnotationStore) -> Shape {
    let mut sh = Shape { ann_data_unsorted: false, data_shared: false, long_multibyte_text: false };
    let mut seen: BTreeSet<(usize, usize)> = BTreeSet::new();
    for a in store.annotations() {
        let hs: Vec<(usize, usize)> = a.data().map(|d| (d.set().handle().as_usize(), d.handle().as_usize())).collect();
        if hs.windows(2).any(|w| w[0].1 >= w[1].1) {
            sh.ann_data_unsorted = true;
        }
        for h in hs {
            if !seen.insert(h) {
                sh.data_shared = true;
            }
        }
    }
    for r in store.resources() {
        if r.textlen() >= 150 {
            let mut widths = [false; 5];
            for c in r.text().chars() {
                widths[c.len_utf8()] = true;
            }
            if widths[1] && widths[2] && widths[3] && widths[4] {
                sh.long_multibyte_text = true;
            }
        }
    }
    sh
}

/// Mismatches seen in unscheduled runs, by case. The interleaving of free-running threads is up to the OS, so
/// such a mismatch may not show again when the engine re-runs the (shrunk) case to confirm it; it has been
/// observed nevertheless. Only failing cases are stored.
static STRESS_SEEN: Mutex<Option<std::collections::HashMap<String, Vec<Failure>>>> = Mutex::new(None);

fn remember_stress_failure(case: &Case, failures: &[Failure]) {
    let key = serde_json::to_string(case).unwrap_or_default();
    let mut g = STRESS_SEEN.lock().unwrap_or_else(|e| e.into_inner());
    let m = g.get_or_insert_with(Default::default);
    if m.len() < 10_000 {
        m.entry(key).or_insert_with(|| failures.to_vec());
    }
}

fn recall_stress_failure(case: &Case) -> Vec<Failure> {
    let g = STRESS_SEEN.lock().unwrap_or_else(|e| e.into_inner());
    match g.as_ref() {
        None => vec![],
        Some(m) if m.is_empty() => vec![],
        Some(m) => m.get(&serde_json::to_string(case).unwrap_or_default()).cloned().unwrap_or_default(),
    }
}

