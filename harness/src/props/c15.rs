//! C15 STAM CSV round trip preserves structure, targets and the text of values.

use crate::content::*;
use crate::engine::*;
use crate::hist::*;
use crate::model::Val;
use crate::observe::*;
use crate::props::c05::{err_class, TempDir};
use proptest::prelude::*;
use serde::{Deserialize, Serialize};
use stam::*;

pub struct C15;

#[derive(Clone, Debug, Serialize, Deserialize)]
pub struct Case {
    pub hist: History,
}

fn value_text(v: &Val) -> String {
    format!("{}", v.to_stam())
}

impl Property for C15 {
    type Case = Case;
    fn id(&self) -> &'static str {
        "C15"
    }
    fn rule(&self) -> String {
        "case = final store of a C01 history (ids without ';'; every selector kind incl. mixed complex selectors, end-aligned and relative offsets; annotations with 0, 1, n data; gaps) written with a .store.stam.csv name and loaded again. Oracle: reload succeeds; same resources and texts; same keys; same data (ids for items that had ids, key, value compared as display text); same annotations in order with same ids (id-less by position), same data references, same target kind/referents, every offset resolving to the same absolute range and text (alignment modes are not compared: the format stores cursors, the claim is about absolute text); the reloaded store passes the self-consistency battery. Non-trivial = a complex selector with mixed kinds, an end-aligned/relative offset, a key/data selector or an annotation without data; distinct = distinct case JSON.".into()
    }
    fn assumptions(&self) -> Vec<String> {
        vec![
            "value types are outside the claim (CSV stores values as text): values are compared through Display".into(),
            "ids of id-less items after the reload are not compared (the format has to invent some)".into(),
        ]
    }
    fn cases(&self, tier: Tier) -> u64 {
        tier.pick(500_000, 5_000_000)
    }
    fn strategy(&self, tier: Tier) -> BoxedStrategy<Case> {
        let cfg = HistCfg {
            max_ops: tier.pick(16, 40),
            text_max: 16,
            removal_weight: 2,
            protect_weight: 1,
            complex_weight: 3,
            ..HistCfg::default()
        };
        history_strategy(cfg).prop_map(|hist| Case { hist }).boxed()
    }

    fn run(&self, case: &Case) -> Outcome {
        let mut out = Outcome::new();
        let mut m = Machine::new(false);
        for op in &case.hist.ops {
            let s = m.apply(op);
            if s.skipped.is_some() {
                continue;
            }
            if s.panic.is_some() || s.result.is_err() || s.mismatch.is_some() {
                out.label("stopped_at_foreign_divergence");
                return out;
            }
            if op.is_removal() {
                out.label("has_gap");
            }
        }
        let original = content_of_model(&m.model);
        let mut store = m.store;
        let obs = match catch(|| observe(&store)) {
            Ok(o) => o,
            Err(_) => {
                out.label("stopped_at_foreign_divergence");
                return out;
            }
        };
        {
            let observed = content(&obs);
            let d = compare(&original, &observed, true, &value_text);
            if d.iter().any(|(facet, _, _)| facet != "offset.mode") {
                out.label("stopped_at_foreign_divergence");
                return out;
            }
        }
        for a in &obs.anns {
            let kinds: std::collections::BTreeSet<&str> = a.target.leaves().iter().map(|l| l.kind()).collect();
            if a.target.is_complex() && kinds.len() > 1 {
                out.label("mixed_complex");
                out.nontrivial = true;
            }
            if a.target.is_complex() {
                out.label("complex");
            }
            if a.raw_data.is_empty() {
                out.label("no_data");
                out.nontrivial = true;
            }
            if a.raw_data.len() > 1 {
                out.label("multi_data");
            }
            for l in a.target.leaves() {
                match l {
                    crate::model::MSel::Key(..) => {
                        out.label("key_selector");
                        out.nontrivial = true;
                    }
                    crate::model::MSel::Data(..) => {
                        out.label("data_selector");
                        out.nontrivial = true;
                    }
                    crate::model::MSel::Ann { text: Some(_), .. } => {
                        out.label("relative_offset");
                        out.nontrivial = true;
                    }
                    crate::model::MSel::Ann { text: None, .. } => out.label("annotation_selector"),
                    crate::model::MSel::Res(_) => out.label("resource_selector"),
                    crate::model::MSel::Set(_) => out.label("dataset_selector"),
                    crate::model::MSel::Text { mode, .. } => {
                        if *mode != (false, false) {
                            out.label("endaligned_offset");
                            out.nontrivial = true;
                        }
                    }
                    _ => {}
                }
            }
        }
        let dir = TempDir::new("c15");
        let f = dir.path("x.store.stam.csv");
        match catch(|| store.to_file(&f)) {
            Ok(Ok(())) => {}
            Ok(Err(e)) => {
                out.fail("write", err_class(&format!("{}", e)), format!("writing STAM CSV failed: {}", e));
                return out;
            }
            Err(p) => {
                out.fail("write", p.signature(), format!("writing STAM CSV panicked at {}:{}: {}", p.file, p.line, p.msg));
                return out;
            }
        }
        let store2 = match catch(|| AnnotationStore::from_file(&f, Config::default())) {
            Ok(Ok(s)) => s,
            Ok(Err(e)) => {
                out.fail("reload_ok", err_class(&format!("{}", e)), format!("reading back the written STAM CSV failed: {}", e));
                return out;
            }
            Err(p) => {
                out.fail("reload_ok", p.signature(), format!("reading back the written STAM CSV panicked at {}:{}: {}", p.file, p.line, p.msg));
                return out;
            }
        };
        let obs2 = match catch(|| observe(&store2)) {
            Ok(o) => o,
            Err(p) => {
                out.fail("reload_ok", format!("traverse|{}", p.signature()), format!("traversing the reloaded store panicked at {}:{}: {}", p.file, p.line, p.msg));
                return out;
            }
        };
        let mut reloaded = content(&obs2);
        // ids of id-less items are not compared
        for (a, b) in original.anns.iter().zip(reloaded.anns.iter_mut()) {
            if a.id.is_none() {
                b.id = None;
            }
        }
        for (sa, sb) in original.sets.iter().zip(reloaded.sets.iter_mut()) {
            for (a, b) in sa.data.iter().zip(sb.data.iter_mut()) {
                if a.id.is_none() {
                    b.id = None;
                }
            }
        }
        out.checks += 1;
        for (facet, sig, detail) in compare(&original, &reloaded, false, &value_text) {
            if facet == "offset.mode" {
                continue; // absolute ranges are the claim
            }
            out.fail(&facet, sig, detail);
        }
        if out.failures.is_empty() {
            let mut sc = crate::hcheck::StepCheck {
                findings: vec![],
                diverged: false,
                obs: None,
                checks: 0,
            };
            if catch(|| crate::hcheck::check_consistency(&store2, &obs2, &mut sc, None)).is_ok() {
                out.checks += sc.checks;
                for fnd in sc.findings {
                    out.fail(&format!("reloaded.{}", fnd.failure.facet), fnd.failure.signature, fnd.failure.detail);
                }
            }
        }
        out
    }
}
