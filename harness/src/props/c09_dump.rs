//! C09 helper: harness-side structural dump of a `Query`, structural diff, classification of
//! strings the lexer cannot carry (oddities), and evaluation on a small fixed store.

use crate::engine::catch;
use crate::observe::observe;
use stam::*;

#[derive(Clone, Debug, PartialEq)]
pub struct CD {
    pub kind: String,
    pub fields: Vec<(&'static str, String)>,
    pub attrs: Vec<String>,
    pub children: Vec<CD>,
}

#[derive(Clone, Debug, PartialEq)]
pub struct QD {
    pub qtype: String,
    pub rtype: String,
    pub name: Option<String>,
    pub qualifier: String,
    pub attrs: Vec<String>,
    pub cons: Vec<CD>,
    pub assigns: Vec<CD>,
    pub subs: Vec<QD>,
}

fn cd(kind: &str, fields: Vec<(&'static str, String)>) -> CD {
    CD { kind: kind.to_string(), fields, attrs: vec![], children: vec![] }
}

fn q(s: SelectionQualifier) -> String {
    match s {
        SelectionQualifier::Normal => "normal".into(),
        SelectionQualifier::Metadata => "metadata".into(),
    }
}

fn depth(d: &AnnotationDepth) -> String {
    match d {
        AnnotationDepth::Zero => "zero".into(),
        AnnotationDepth::One => "one".into(),
        AnnotationDepth::Max => "max".into(),
    }
}

fn cur(c: &Cursor) -> String {
    match c {
        Cursor::BeginAligned(x) => format!("B{}", x),
        Cursor::EndAligned(x) => format!("E{}", x),
    }
}

fn off(o: &Option<Offset>) -> String {
    match o {
        None => "none".into(),
        Some(o) => format!("{},{}", cur(&o.begin), cur(&o.end)),
    }
}

/// structural text of a data operator: variant names and exact values (floats by bit pattern class,
/// datetimes with their offset)
pub fn dump_op(op: &DataOperator) -> String {
    fn f(x: f64) -> String {
        format!("{:?}#{:016x}", x, x.to_bits())
    }
    fn dt(d: &DateTime<FixedOffset>) -> String {
        d.to_rfc3339()
    }
    match op {
        DataOperator::Null => "Null".into(),
        DataOperator::Any => "Any".into(),
        DataOperator::Equals(s) => format!("Equals({:?})", s.as_ref()),
        DataOperator::EqualsInt(n) => format!("EqualsInt({})", n),
        DataOperator::EqualsFloat(n) => format!("EqualsFloat({})", f(*n)),
        DataOperator::True => "True".into(),
        DataOperator::False => "False".into(),
        DataOperator::GreaterThan(n) => format!("GreaterThan({})", n),
        DataOperator::GreaterThanOrEqual(n) => format!("GreaterThanOrEqual({})", n),
        DataOperator::GreaterThanFloat(n) => format!("GreaterThanFloat({})", f(*n)),
        DataOperator::GreaterThanOrEqualFloat(n) => format!("GreaterThanOrEqualFloat({})", f(*n)),
        DataOperator::LessThan(n) => format!("LessThan({})", n),
        DataOperator::LessThanOrEqual(n) => format!("LessThanOrEqual({})", n),
        DataOperator::LessThanFloat(n) => format!("LessThanFloat({})", f(*n)),
        DataOperator::LessThanOrEqualFloat(n) => format!("LessThanOrEqualFloat({})", f(*n)),
        DataOperator::ExactDatetime(d) => format!("ExactDatetime({})", dt(d)),
        DataOperator::AfterDatetime(d) => format!("AfterDatetime({})", dt(d)),
        DataOperator::BeforeDatetime(d) => format!("BeforeDatetime({})", dt(d)),
        DataOperator::AtOrAfterDatetime(d) => format!("AtOrAfterDatetime({})", dt(d)),
        DataOperator::AtOrBeforeDatetime(d) => format!("AtOrBeforeDatetime({})", dt(d)),
        DataOperator::HasElement(s) => format!("HasElement({:?})", s.as_ref()),
        DataOperator::HasElementInt(n) => format!("HasElementInt({})", n),
        DataOperator::HasElementFloat(n) => format!("HasElementFloat({})", f(*n)),
        DataOperator::Not(x) => format!("Not({})", dump_op(x)),
        DataOperator::And(v) => format!("And[{}]", v.iter().map(dump_op).collect::<Vec<_>>().join(",")),
        DataOperator::Or(v) => format!("Or[{}]", v.iter().map(dump_op).collect::<Vec<_>>().join(",")),
    }
}

fn union_of(children: Vec<CD>) -> CD {
    let mut x = cd("UNION", vec![]);
    x.children = children;
    x
}

/// the operator that selects exactly this (scalar) value; lists have no STAMQL syntax
fn op_of_value(v: &DataValue) -> Option<DataOperator<'static>> {
    Some(match v {
        DataValue::Null => DataOperator::Null,
        DataValue::String(s) => DataOperator::Equals(std::borrow::Cow::Owned(s.clone())),
        DataValue::Int(i) => DataOperator::EqualsInt(*i),
        DataValue::Float(f) => DataOperator::EqualsFloat(*f),
        DataValue::Bool(true) => DataOperator::True,
        DataValue::Bool(false) => DataOperator::False,
        DataValue::Datetime(d) => DataOperator::ExactDatetime(*d),
        DataValue::List(_) => return None,
    })
}

pub fn dump_constraint(c: &Constraint) -> CD {
    match c {
        Constraint::Id(s) => cd("ID", vec![("id", s.to_string())]),
        Constraint::Annotation(s, ql, d, o) => cd(
            "ANNOTATION",
            vec![("id", s.to_string()), ("qualifier", q(*ql)), ("depth", depth(d)), ("offset", off(o))],
        ),
        Constraint::AnnotationVariable(s, ql, d, o) => cd(
            "ANNOTATION?",
            vec![("var", s.to_string()), ("qualifier", q(*ql)), ("depth", depth(d)), ("offset", off(o))],
        ),
        Constraint::TextResource(s, ql, o) => cd("RESOURCE", vec![("id", s.to_string()), ("qualifier", q(*ql)), ("offset", off(o))]),
        Constraint::ResourceVariable(s, ql, o) => cd("RESOURCE?", vec![("var", s.to_string()), ("qualifier", q(*ql)), ("offset", off(o))]),
        Constraint::DataSet(s, ql) => cd("DATASET", vec![("id", s.to_string()), ("qualifier", q(*ql))]),
        Constraint::DataSetVariable(s, ql) => cd("DATASET?", vec![("var", s.to_string()), ("qualifier", q(*ql))]),
        Constraint::DataKey { set, key, qualifier } => {
            cd("DATA", vec![("set", set.to_string()), ("key", key.to_string()), ("qualifier", q(*qualifier))])
        }
        // to_string() deliberately prints `= any` as the bare key form: same structure by assumption
        Constraint::KeyValue { set, key, operator: DataOperator::Any, qualifier } => {
            cd("DATA", vec![("set", set.to_string()), ("key", key.to_string()), ("qualifier", q(*qualifier))])
        }
        Constraint::KeyValue { set, key, operator, qualifier } => cd(
            "DATA=",
            vec![("set", set.to_string()), ("key", key.to_string()), ("qualifier", q(*qualifier)), ("operator", dump_op(operator))],
        ),
        Constraint::SubStore(Some(s)) => cd("SUBSTORE", vec![("id", s.to_string())]),
        Constraint::SubStore(None) => cd("SUBSTORE", vec![("none", "none".into())]),
        Constraint::SubStoreVariable(s) => cd("SUBSTORE?", vec![("var", s.to_string())]),
        Constraint::KeyVariable(s, ql) => cd("KEY?", vec![("var", s.to_string()), ("qualifier", q(*ql))]),
        Constraint::DataVariable(s, ql) => cd("DATA?", vec![("var", s.to_string()), ("qualifier", q(*ql))]),
        Constraint::TextVariable(s) => cd("TEXT?", vec![("var", s.to_string())]),
        Constraint::TextRelation { var, operator } => cd("RELATION", vec![("var", var.to_string()), ("operator", format!("{:?}", operator))]),
        Constraint::Value(op, ql) => cd("VALUE", vec![("qualifier", q(*ql)), ("operator", dump_op(op))]),
        Constraint::KeyValueVariable(s, op, ql) => {
            cd("DATA?=", vec![("var", s.to_string()), ("qualifier", q(*ql)), ("operator", dump_op(op))])
        }
        Constraint::Text(s, mode) => cd(
            "TEXT",
            vec![
                ("text", s.to_string()),
                (
                    "mode",
                    match mode {
                        TextMode::Exact => "exact".into(),
                        TextMode::CaseInsensitive => "nocase".into(),
                    },
                ),
            ],
        ),
        Constraint::Regex(r) => cd("TEXT", vec![("text", r.as_str().to_string()), ("mode", "regex".into())]),
        Constraint::Union(v) => {
            let mut x = cd("UNION", vec![]);
            x.children = v.iter().map(dump_constraint).collect();
            x
        }
        Constraint::Limit { begin, end } => cd("LIMIT", vec![("begin", begin.to_string()), ("end", end.to_string())]),
        // handle collections: "constrain by any of multiple ..." = the disjunction of the single constraints
        Constraint::Annotations(h, ql, d) => union_of(
            h.iter()
                .map(|handle| match h.store().annotation(handle) {
                    Some(a) => cd(
                        "ANNOTATION",
                        vec![("id", a.id().unwrap_or("?").to_string()), ("qualifier", q(*ql)), ("depth", depth(d)), ("offset", "none".into())],
                    ),
                    None => cd("INVALID-HANDLE", vec![]),
                })
                .collect(),
        ),
        Constraint::Data(h, ql) => union_of(
            h.iter()
                .map(|(set, data)| match h.store().annotationdata(set, data) {
                    Some(x) => match op_of_value(x.value()) {
                        Some(op) => cd(
                            "DATA=",
                            vec![
                                ("set", x.set().id().unwrap_or("?").to_string()),
                                ("key", x.key().id().unwrap_or("?").to_string()),
                                ("qualifier", q(*ql)),
                                ("operator", dump_op(&op)),
                            ],
                        ),
                        None => cd("VALUE-WITHOUT-SYNTAX", vec![]),
                    },
                    None => cd("INVALID-HANDLE", vec![]),
                })
                .collect(),
        ),
        Constraint::Keys(h, ql) => union_of(
            h.iter()
                .map(|(set, key)| match h.store().key(set, key) {
                    Some(k) => cd("DATA", vec![("set", k.set().id().unwrap_or("?").to_string()), ("key", k.id().unwrap_or("?").to_string()), ("qualifier", q(*ql))]),
                    None => cd("INVALID-HANDLE", vec![]),
                })
                .collect(),
        ),
        Constraint::Resources(h, ql) => union_of(
            h.iter()
                .map(|handle| match h.store().resource(handle) {
                    Some(r) => cd("RESOURCE", vec![("id", r.id().unwrap_or("?").to_string()), ("qualifier", q(*ql)), ("offset", "none".into())]),
                    None => cd("INVALID-HANDLE", vec![]),
                })
                .collect(),
        ),
        Constraint::TextSelections(h, ql) => union_of(
            h.iter()
                .map(|(res, ts)| match h.store().resource(res).and_then(|r| r.textselection_by_handle(ts).ok()) {
                    Some(t) => cd(
                        "RESOURCE",
                        vec![
                            ("id", t.resource().id().unwrap_or("?").to_string()),
                            ("qualifier", q(*ql)),
                            ("offset", format!("B{},B{}", t.begin(), t.end())),
                        ],
                    ),
                    None => cd("INVALID-HANDLE", vec![]),
                })
                .collect(),
        ),
    }
}

pub fn dump_assignment(a: &Assignment) -> CD {
    match a {
        Assignment::Id(s) => cd("ID", vec![("id", s.to_string())]),
        Assignment::Target { name, offset } => cd("TARGET", vec![("var", name.to_string()), ("offset", off(offset))]),
        Assignment::ComplexTarget(k) => cd("COMPLEX", vec![("kind", format!("{:?}", k))]),
        Assignment::Data { set, key, value } => cd("DATA", vec![("set", set.to_string()), ("key", key.to_string()), ("value", format!("{:?}", value))]),
        Assignment::Text(s) => cd("TEXT", vec![("text", s.to_string())]),
        Assignment::Filename(s) => cd("FILENAME", vec![("filename", s.to_string())]),
    }
}

pub fn dump_query(query: &Query) -> QD {
    let per_constraint_attrs: Vec<Vec<String>> =
        query.constraints_with_attributes().map(|(_, a)| a.iter().map(|s| s.to_string()).collect()).collect();
    let cons = query
        .constraints()
        .enumerate()
        .map(|(i, c)| {
            let mut d = dump_constraint(c);
            d.attrs = per_constraint_attrs.get(i).cloned().unwrap_or_default();
            d
        })
        .collect();
    QD {
        qtype: query.querytype().as_str().to_string(),
        rtype: format!("{:?}", query.resulttype()),
        name: query.name().map(|s| s.to_string()),
        qualifier: format!("{:?}", query.qualifier()),
        attrs: query.attributes().map(|s| s.to_string()).collect(),
        cons,
        assigns: query.assignments().map(dump_assignment).collect(),
        subs: query.subqueries().map(dump_query).collect(),
    }
}

fn diff_cd(what: &str, a: &CD, b: &CD, out: &mut Vec<String>) {
    if a.kind != b.kind {
        out.push(format!("{}-kind:{}->{}", what, a.kind, b.kind));
        return;
    }
    for ((n, x), (_, y)) in a.fields.iter().zip(b.fields.iter()) {
        if x != y {
            out.push(format!("{}:{}:{}", what, a.kind, n));
        }
    }
    if a.attrs != b.attrs {
        out.push(format!("{}-attributes", what));
    }
    if a.children.len() != b.children.len() {
        out.push(format!("{}:{}:members", what, a.kind));
    } else {
        for (x, y) in a.children.iter().zip(b.children.iter()) {
            diff_cd(what, x, y, out);
        }
    }
}

/// classes of structural difference between a query and its re-parse (empty = equal)
pub fn diff_query(a: &QD, b: &QD) -> Vec<String> {
    let mut out = vec![];
    diff_rec(a, b, &mut out);
    out.sort();
    out.dedup();
    debug_assert!(!out.is_empty() || a == b);
    if out.is_empty() && a != b {
        out.push("other".into());
    }
    out
}

fn diff_rec(a: &QD, b: &QD, out: &mut Vec<String>) {
    if a.qtype != b.qtype {
        out.push("querytype".into());
    }
    if a.rtype != b.rtype {
        out.push("resulttype".into());
    }
    if a.name != b.name {
        out.push("name".into());
    }
    if a.qualifier != b.qualifier {
        out.push(format!("qualifier:{}", a.qualifier));
    }
    if a.attrs != b.attrs {
        out.push("attributes".into());
    }
    if a.cons.len() != b.cons.len() {
        out.push("constraint-count".into());
    } else {
        for (x, y) in a.cons.iter().zip(b.cons.iter()) {
            diff_cd("constraint", x, y, out);
        }
    }
    if a.assigns.len() != b.assigns.len() {
        out.push("assignment-count".into());
    } else {
        for (x, y) in a.assigns.iter().zip(b.assigns.iter()) {
            diff_cd("assignment", x, y, out);
        }
    }
    if a.subs.len() != b.subs.len() {
        out.push("subquery-count".into());
    } else {
        for (x, y) in a.subs.iter().zip(b.subs.iter()) {
            diff_rec(x, y, out);
        }
    }
}

fn quotable(s: &str) -> bool {
    super::spec::quotable(s)
}

fn lexable_var(s: &str) -> bool {
    // empty variable names are odd too (`?` alone)
    super::spec::lexable(s)
}

fn cd_oddities(c: &CD, out: &mut Vec<&'static str>) {
    for (n, v) in &c.fields {
        match *n {
            "id" | "set" | "key" | "text" => {
                if !quotable(v) {
                    out.push("unquotable-string");
                }
            }
            "var" => {
                if !lexable_var(v) {
                    out.push("unlexable-variable");
                }
            }
            "operator" | "value" => {
                // strings inside operators are dumped with {:?}; look at the raw characters instead
                if v.contains("\\\\\")") || v.contains("\\\\\"]") {
                    out.push("unquotable-string");
                }
            }
            "depth" => {
                if v == "zero" {
                    out.push("outside-grammar:depth-zero");
                }
                if v == "max" && c.fields.iter().any(|(n, v)| *n == "qualifier" && v == "normal") {
                    out.push("outside-grammar:recursive-without-metadata");
                }
            }
            _ => {}
        }
    }
    if matches!(c.kind.as_str(), "DATA?=" | "INVALID-HANDLE" | "VALUE-WITHOUT-SYNTAX") {
        out.push("outside-grammar:constraint-kind");
    }
    for ch in &c.children {
        cd_oddities(ch, out);
    }
}

/// reasons why the lexer cannot be expected to carry this query through print and parse
/// (documentation silent): empty = the round trip must hold
pub fn oddities(d: &QD) -> Vec<&'static str> {
    let mut out = vec![];
    odd_rec(d, &mut out);
    out.sort();
    out.dedup();
    out
}

fn odd_rec(d: &QD, out: &mut Vec<&'static str>) {
    if let Some(n) = &d.name {
        if n.chars().any(|c| c.is_whitespace()) || n.ends_with(';') || n.ends_with('}') {
            out.push("unlexable-name");
        }
    }
    for a in &d.attrs {
        if a.chars().any(|c| c.is_whitespace()) {
            out.push("unlexable-attribute");
        }
    }
    for c in &d.cons {
        for a in &c.attrs {
            if a.chars().any(|c| c.is_whitespace()) {
                out.push("unlexable-attribute");
            }
        }
        cd_oddities(c, out);
    }
    for c in &d.assigns {
        cd_oddities(c, out);
        if c.kind == "DATA" {
            // string values: dumped as String("…")
            if let Some((_, v)) = c.fields.iter().find(|(n, _)| *n == "value") {
                if v.ends_with("\\\\\")") {
                    out.push("unquotable-string");
                }
            }
        }
    }
    for s in &d.subs {
        odd_rec(s, out);
    }
}

fn cd_features(c: &CD, out: &mut Vec<String>) {
    let mut t = c.kind.clone();
    for (n, v) in &c.fields {
        match *n {
            "qualifier" if v == "metadata" => t.push_str(":meta"),
            "depth" if v == "max" => t.push_str(":rec"),
            "offset" if v != "none" => t.push_str(":offset"),
            "mode" if v != "exact" => {
                t.push(':');
                t.push_str(v)
            }
            "operator" => {
                t.push(':');
                t.push_str(v.split(|c| c == '(' || c == '[' || c == ' ').next().unwrap_or(""));
                if v.starts_with("Not(") {
                    t.push_str(v[4..].split(|c| c == '(' || c == '[').next().unwrap_or(""));
                }
            }
            _ => {}
        }
    }
    out.push(t);
    for ch in &c.children {
        cd_features(ch, out);
    }
}

/// discriminating features of a query for signatures (sorted, joined by '+', at most 6)
pub fn features(d: &QD) -> String {
    let mut v = vec![];
    feat_rec(d, true, &mut v);
    v.sort();
    v.dedup();
    v.truncate(6);
    v.join("+")
}

fn feat_rec(d: &QD, top: bool, out: &mut Vec<String>) {
    if top {
        out.push(d.qtype.clone());
    }
    if d.qualifier != "Normal" {
        out.push("OPTIONAL".into());
    }
    if !d.attrs.is_empty() || d.cons.iter().any(|c| !c.attrs.is_empty()) {
        out.push("attrs".into());
    }
    for c in &d.cons {
        cd_features(c, out);
    }
    for a in &d.assigns {
        out.push(format!("assign:{}", a.kind));
    }
    if !d.subs.is_empty() {
        out.push(if d.subs.len() > 1 { "subq-siblings".into() } else { "subq".into() });
    }
    for s in &d.subs {
        if s.cons.is_empty() && s.subs.is_empty() {
            out.push("subq-bare".into());
        }
        feat_rec(s, false, out);
    }
}

/// coarse labels for the evidence file
pub fn feature_labels(d: &QD) -> Vec<String> {
    let mut out = vec![];
    label_rec(d, 0, &mut out);
    out.sort();
    out.dedup();
    out
}

fn cd_labels(c: &CD, out: &mut Vec<String>) {
    let k = c.kind.trim_end_matches(|ch| ch == '?' || ch == '=');
    out.push(k.to_string());
    if c.kind.ends_with('?') {
        out.push("variable".into());
    }
    for (n, v) in &c.fields {
        match *n {
            "qualifier" if v == "metadata" => out.push("meta".into()),
            "depth" if v == "max" => out.push("recursive".into()),
            "offset" if v != "none" => out.push("offset".into()),
            "mode" if v == "regex" => out.push("regex".into()),
            "mode" if v == "nocase" => out.push("nocase".into()),
            "operator" => {
                if v.contains("Float(") {
                    out.push("float".into());
                }
                if v.contains("Datetime(") {
                    out.push("datetime".into());
                }
                if v.contains("Int(") || v.contains("Than(") || v.contains("Equal(") {
                    out.push("int".into());
                }
                if v.starts_with("Not(") {
                    out.push("negation".into());
                }
            }
            _ => {}
        }
        if v.contains("\\\"") && matches!(*n, "id" | "set" | "key" | "text") {
            out.push("escape".into());
        }
        if matches!(*n, "operator" | "value") && v.contains("\\\\\\\"") {
            out.push("escape".into());
        }
    }
    if c.kind == "UNION" && c.children.iter().any(|x| x.kind == "UNION") {
        out.push("nested-union".into());
    }
    for ch in &c.children {
        cd_labels(ch, out);
    }
}

fn label_rec(d: &QD, level: u32, out: &mut Vec<String>) {
    out.push(d.qtype.clone());
    if d.qualifier != "Normal" {
        out.push("OPTIONAL".into());
    }
    if d.name.is_some() {
        out.push("name".into());
    }
    if !d.attrs.is_empty() || d.cons.iter().any(|c| !c.attrs.is_empty()) {
        out.push("attributes".into());
    }
    for c in &d.cons {
        cd_labels(c, out);
    }
    if !d.assigns.is_empty() {
        out.push("assignment".into());
    }
    for a in &d.assigns {
        out.push(format!("assign:{}", a.kind));
    }
    if !d.subs.is_empty() {
        out.push("subquery".into());
        if d.subs.len() > 1 {
            out.push("subquery-siblings".into());
        }
        if level >= 1 {
            out.push("subquery-depth2".into());
        }
    }
    for s in &d.subs {
        label_rec(s, level + 1, out);
    }
}

// ------------------------------------------------------------------------------------------
// meaning on a small fixed store

pub fn fixed_store() -> AnnotationStore {
    let mut store = AnnotationStore::default();
    store
        .add_resource(TextResourceBuilder::new().with_id("r1").with_text("Hello world. The fly flies over a b and x."))
        .expect("r1");
    store
        .add_resource(TextResourceBuilder::new().with_id("r2").with_text("Second text with é1, FLY and sentence."))
        .expect("r2");
    let t = |res: &'static str, b: usize, e: usize| SelectorBuilder::textselector(res, Offset::simple(b, e));
    let mut add = |b: AnnotationBuilder| {
        store.annotate(b).expect("fixed store annotation");
    };
    add(AnnotationBuilder::new().with_id("A1").with_target(t("r1", 0, 5)).with_data("s1", "k1", "v1"));
    add(AnnotationBuilder::new().with_id("A2").with_target(t("r1", 6, 11)).with_data("s1", "k1", "x"));
    add(AnnotationBuilder::new().with_id("A3").with_target(t("r1", 0, 12)).with_data("s1", "k1", "sentence").with_data("s1", "k2", 5isize));
    add(AnnotationBuilder::new().with_id("A4").with_target(SelectorBuilder::annotationselector("A1", None)).with_data("s1", "k2", 1.5f64));
    add(AnnotationBuilder::new().with_id("A5").with_target(SelectorBuilder::resourceselector("r1")).with_data("s1", "a b", "sentence"));
    add(AnnotationBuilder::new().with_id("x").with_target(t("r1", 17, 20)).with_data("s1", "x", true));
    add(AnnotationBuilder::new().with_id("sentence").with_target(t("r2", 0, 38)).with_data("s1", "k1", DataValue::Null));
    add(AnnotationBuilder::new()
        .with_id("é1")
        .with_target(t("r2", 17, 19))
        .with_data("s1", "k1", DataValue::Datetime(DateTime::parse_from_rfc3339("2024-01-01T00:00:00+00:00").unwrap())));
    add(AnnotationBuilder::new().with_id("w;z").with_target(SelectorBuilder::datasetselector("s1")).with_data("s1", "k2", -1isize));
    store
}

/// the fixed store, built once (handle collections of built queries refer to it)
pub fn fixed() -> &'static AnnotationStore {
    static STORE: std::sync::OnceLock<AnnotationStore> = std::sync::OnceLock::new();
    STORE.get_or_init(fixed_store)
}

/// one member of a handle collection, as the pieces of its single-constraint STAMQL form
pub struct Member {
    pub keyword: &'static str,
    pub args: Vec<String>,
    pub value: Option<String>,
    pub offset: Option<(usize, usize)>,
}

fn distinct(picks: &[u8], n: usize) -> Vec<usize> {
    let mut out = vec![];
    if n == 0 {
        return out;
    }
    for p in picks {
        let i = *p as usize % n;
        if !out.contains(&i) {
            out.push(i);
        }
    }
    out
}

fn fixed_textselections() -> Vec<ResultTextSelection<'static>> {
    fixed().resources().flat_map(|r| r.textselections().collect::<Vec<_>>()).collect()
}

pub fn coll_members(kind: u8, picks: &[u8]) -> Vec<Member> {
    let store = fixed();
    match kind % 5 {
        0 => {
            let all: Vec<_> = store.annotations().collect();
            distinct(picks, all.len()).into_iter().map(|i| Member { keyword: "ANNOTATION", args: vec![all[i].id().unwrap_or("?").to_string()], value: None, offset: None }).collect()
        }
        1 => {
            let all: Vec<_> = store.data().collect();
            distinct(picks, all.len())
                .into_iter()
                .map(|i| Member {
                    keyword: "DATA",
                    args: vec![all[i].set().id().unwrap_or("?").to_string(), all[i].key().id().unwrap_or("?").to_string()],
                    value: op_of_value(all[i].value()).and_then(|op| op.to_string().ok()).map(|s| s.trim_start_matches("= ").to_string()),
                    offset: None,
                })
                .collect()
        }
        2 => {
            let all: Vec<_> = store.keys().collect();
            distinct(picks, all.len())
                .into_iter()
                .map(|i| Member { keyword: "DATA", args: vec![all[i].set().id().unwrap_or("?").to_string(), all[i].id().unwrap_or("?").to_string()], value: None, offset: None })
                .collect()
        }
        3 => {
            let all: Vec<_> = store.resources().collect();
            distinct(picks, all.len()).into_iter().map(|i| Member { keyword: "RESOURCE", args: vec![all[i].id().unwrap_or("?").to_string()], value: None, offset: None }).collect()
        }
        _ => {
            let all = fixed_textselections();
            distinct(picks, all.len())
                .into_iter()
                .map(|i| Member { keyword: "RESOURCE", args: vec![all[i].resource().id().unwrap_or("?").to_string()], value: None, offset: Some((all[i].begin(), all[i].end())) })
                .collect()
        }
    }
}

/// `Constraint::Annotations` / `Data` / `Keys` / `Resources` / `TextSelections` over the fixed store
pub fn build_collection(kind: u8, picks: &[u8], qualifier: SelectionQualifier, depth: u8) -> Constraint<'static> {
    let store = fixed();
    match kind % 5 {
        0 => {
            let all: Vec<_> = store.annotations().collect();
            let depth = match depth % 3 {
                0 => AnnotationDepth::Zero,
                1 => AnnotationDepth::One,
                _ => AnnotationDepth::Max,
            };
            Constraint::Annotations(Handles::from_iter(distinct(picks, all.len()).into_iter().map(|i| all[i].handle()), store), qualifier, depth)
        }
        1 => {
            let all: Vec<_> = store.data().collect();
            Constraint::Data(Handles::from_iter(distinct(picks, all.len()).into_iter().map(|i| (all[i].set().handle(), all[i].handle())), store), qualifier)
        }
        2 => {
            let all: Vec<_> = store.keys().collect();
            Constraint::Keys(Handles::from_iter(distinct(picks, all.len()).into_iter().map(|i| (all[i].set().handle(), all[i].handle())), store), qualifier)
        }
        3 => {
            let all: Vec<_> = store.resources().collect();
            Constraint::Resources(Handles::from_iter(distinct(picks, all.len()).into_iter().map(|i| all[i].handle()), store), qualifier)
        }
        _ => {
            let all = fixed_textselections();
            Constraint::TextSelections(
                Handles::from_iter(distinct(picks, all.len()).into_iter().filter_map(|i| all[i].handle().map(|h| (all[i].resource().handle(), h))), store),
                qualifier,
            )
        }
    }
}

/// Where handle collections occur in a query and whether the engine evaluates both the collection (built form) and
/// the disjunction it is printed as in that place. Transcribed from init_state_* / update_state_* of
/// src/api/query.rs and used only to *skip* the meaning comparison (errors raised while a query runs are swallowed
/// by QueryIter, so "not implemented" cannot be told from "no results"); never as an oracle.
fn collection_verdict(q: &Query) -> Option<&'static str> {
    fn is_coll(c: &Constraint) -> bool {
        matches!(c, Constraint::Annotations(..) | Constraint::Data(..) | Constraint::Keys(..) | Constraint::Resources(..) | Constraint::TextSelections(..))
    }
    fn nested(c: &Constraint) -> bool {
        match c {
            Constraint::Union(v) => v.iter().any(|x| is_coll(x) || nested(x)),
            _ => false,
        }
    }
    let mut verdict = None;
    for (i, c) in q.constraints().enumerate() {
        if nested(c) {
            return Some("collection-inside-union");
        }
        if !is_coll(c) {
            continue;
        }
        if i != 0 {
            return Some("collection-not-first-constraint");
        }
        if q.has_subqueries() {
            // the two forms produce the items of this level in a different order, and the rows of (sibling / OPTIONAL)
            // sub-queries depend on that order (C08's domain)
            return Some("collection-level-has-subqueries");
        }
        use SelectionQualifier::*;
        let both = match (q.resulttype(), c) {
            (Some(Type::Annotation), Constraint::Annotations(_, _, AnnotationDepth::One)) => true,
            (Some(Type::AnnotationData), Constraint::Data(_, Normal)) => true,
            (Some(Type::AnnotationData), Constraint::Annotations(_, _, AnnotationDepth::One)) => true,
            (Some(Type::AnnotationData), Constraint::Annotations(_, Metadata, AnnotationDepth::Max)) => true,
            (Some(Type::DataKey), Constraint::Annotations(_, _, AnnotationDepth::One)) => true,
            (Some(Type::DataKey), Constraint::Annotations(_, Metadata, AnnotationDepth::Max)) => true,
            (Some(Type::TextResource), Constraint::Resources(..)) => true,
            _ => false,
        };
        if !both {
            return Some("collection-unimplemented-in-one-form");
        }
        verdict = Some("");
    }
    for s in q.subqueries() {
        match collection_verdict(s) {
            Some("") => verdict = Some(""),
            Some(why) => return Some(why),
            None => {}
        }
    }
    verdict
}

pub enum Meaning {
    Same { nonempty: bool },
    BothErr,
    Skipped(String),
    Differ(String),
}

fn item_key(item: &QueryResultItem) -> String {
    match item {
        QueryResultItem::None => "none".into(),
        QueryResultItem::TextSelection(t) => format!("T{}:{}-{}", t.resource().handle().as_usize(), t.begin(), t.end()),
        QueryResultItem::Annotation(a) => format!("A{}", a.handle().as_usize()),
        QueryResultItem::TextResource(r) => format!("R{}", r.handle().as_usize()),
        QueryResultItem::DataKey(k) => format!("K{}:{}", k.set().handle().as_usize(), k.handle().as_usize()),
        QueryResultItem::AnnotationData(d) => format!("D{}:{}", d.set().handle().as_usize(), d.handle().as_usize()),
        QueryResultItem::AnnotationDataSet(s) => format!("S{}", s.handle().as_usize()),
        QueryResultItem::AnnotationSubStore(s) => format!("X{}", s.handle().as_usize()),
    }
}

const MAXROWS: usize = 400;

/// Ok(rows) | Err("error") | Err("panic")
fn eval_select<'s>(store: &'s AnnotationStore, query: Query<'s>) -> Result<Vec<String>, String> {
    match catch(|| match store.query(query) {
        Err(e) => Err(format!("error: {}", e)),
        Ok(iter) => Ok(iter
            .take(MAXROWS)
            .map(|row| row.iter().map(item_key).collect::<Vec<_>>().join(","))
            .collect::<Vec<String>>()),
    }) {
        Ok(r) => r,
        Err(p) => Err(p.signature()),
    }
}

fn eval_mut(query: Query) -> Result<(usize, String), String> {
    match catch(|| {
        let mut store = fixed_store();
        let rows = match store.query_mut(query) {
            Err(e) => return Err(format!("error: {}", e)),
            Ok(iter) => iter.take(MAXROWS).count(),
        };
        Ok((rows, format!("{:?}", observe(&store))))
    }) {
        Ok(r) => r,
        Err(p) => Err(p.signature()),
    }
}

fn has_empty_needle(d: &QD) -> bool {
    fn c_empty(c: &CD) -> bool {
        if c.kind == "TEXT" {
            let text = c.fields.iter().find(|(n, _)| *n == "text").map(|(_, v)| v.as_str()).unwrap_or("");
            let mode = c.fields.iter().find(|(n, _)| *n == "mode").map(|(_, v)| v.as_str()).unwrap_or("");
            if mode == "regex" {
                if regex::Regex::new(text).map(|r| r.is_match("")).unwrap_or(true) {
                    return true;
                }
            } else if text.is_empty() {
                return true;
            }
        }
        c.children.iter().any(c_empty)
    }
    d.cons.iter().any(c_empty) || d.subs.iter().any(has_empty_needle)
}

fn has_any_keyvalue(q: &Query) -> bool {
    fn c_any(c: &Constraint) -> bool {
        match c {
            Constraint::KeyValue { operator: DataOperator::Any, .. } => true,
            Constraint::Union(v) => v.iter().any(c_any),
            _ => false,
        }
    }
    q.constraints().any(c_any) || q.subqueries().any(has_any_keyvalue)
}

pub fn compare_meaning(q1: &Query, q2: &Query, d: &QD) -> Meaning {
    if has_empty_needle(d) {
        return Meaning::Skipped("empty-needle".into());
    }
    if has_any_keyvalue(q1) {
        // `DATA s k = any` is printed as `DATA s k` on purpose; the engine resolves the two forms
        // differently for unknown/empty set ids (C08's domain), so the results are not compared
        return Meaning::Skipped("any-operator-canonicalised".into());
    }
    // a handle collection and the disjunction it is printed as may produce their items in a different order (the order
    // of query results is not documented): compared as multisets, and not at all when a LIMIT depends on the order
    let mut unordered = false;
    match collection_verdict(q1) {
        None => {}
        Some("") => {
            fn has_limit(q: &Query) -> bool {
                q.constraints().any(|c| matches!(c, Constraint::Limit { .. })) || q.subqueries().any(has_limit)
            }
            if has_limit(q1) {
                return Meaning::Skipped("collection-with-limit".into());
            }
            unordered = true;
        }
        Some(why) => return Meaning::Skipped(why.into()),
    }
    if d.qtype == "SELECT" {
        // read-only: the shared store (handle collections of built queries are bound to it)
        let store = fixed();
        let r1 = eval_select(store, q1.clone());
        let r2 = eval_select(store, q2.clone());
        match (r1, r2) {
            (Err(e), _) | (_, Err(e)) if e.starts_with("panic") => Meaning::Skipped(format!("engine-{}", e)),
            (Err(_), Err(_)) => Meaning::BothErr,
            (Ok(mut a), Ok(mut b)) => {
                if unordered {
                    a.sort();
                    b.sort();
                }
                if a == b {
                    Meaning::Same { nonempty: !a.is_empty() }
                } else {
                    Meaning::Differ(format!("{:?} vs {:?}", a, b))
                }
            }
            (a, b) => Meaning::Differ(format!("{:?} vs {:?}", a.map(|v| v.len()), b.map(|v| v.len()))),
        }
    } else {
        let r1 = eval_mut(q1.clone());
        let r2 = eval_mut(q2.clone());
        match (r1, r2) {
            (Err(e), _) | (_, Err(e)) if e.starts_with("panic") => Meaning::Skipped(format!("engine-{}", e)),
            (Err(_), Err(_)) => Meaning::BothErr,
            (Ok(a), Ok(b)) => {
                if a == b {
                    Meaning::Same { nonempty: a.0 > 0 }
                } else {
                    Meaning::Differ(format!("rows {} vs {}; stores differ: {}", a.0, b.0, a.1 != b.1))
                }
            }
            (a, b) => Meaning::Differ(format!("{:?} vs {:?}", a.map(|v| v.0), b.map(|v| v.0))),
        }
    }
}
