//! C19 Loading untrusted serialisations never panics, aborts or hangs.
//!
//! A case is a valid document set written from a generated history store (STAM JSON inline / with
//! @include stand-off files / with an included sub-store, STAM CSV, CBOR, or one of the smaller entry
//! points) plus a list of mutations (`c19_mut.rs`), or a raw input (replay of a libFuzzer artifact), or a
//! string for one of the `try_from` parsers. Every case is executed in a child process (`c19_corpus worker`)
//! whose global allocator counts: a stack overflow or a failed allocation kills the child, not the check,
//! and is attributed to the one case the child was running.

#[path = "c19_alloc.rs"]
pub mod alloc;
#[path = "c19_mut.rs"]
pub mod mutate;

use self::mutate::*;
use crate::engine::*;
use crate::hist::*;
use crate::observe::*;
use crate::props::c05::final_store;
use proptest::prelude::*;
use serde::{Deserialize, Serialize};
use stam::*;
use std::cell::RefCell;
use std::io::{BufRead, BufReader, Write};
use std::path::{Path, PathBuf};
use std::sync::atomic::{AtomicU64, Ordering};

pub struct C19;

// ================================================================================================
// cases

#[derive(Clone, Debug, Serialize, Deserialize, PartialEq)]
pub enum Mode {
    /// one document through `AnnotationStore::from_str`
    JsonStr,
    /// one document through `AnnotationStore::from_file`
    JsonFile,
    /// resources (.txt or .json) and datasets in @include stand-off files
    JsonStandoff { json_resources: bool },
    /// the first `cut` annotations and all resources/datasets live in an included sub-store; with `share` the
    /// including store names the same datasets again (what the library's merge mode exists for)
    JsonSubstore {
        cut: u16,
        standoff: bool,
        #[serde(default)]
        share: bool,
    },
    Csv,
    Cbor,
    /// a valid store, then `annotate_from_file` on a (mutated) list of annotations
    AnnotateFromFile,
    /// a valid store, then `AnnotationBuilder::from_json_str` on a (mutated) annotation and `annotate`
    BuilderFromStr,
    /// `AnnotationDataSet::from_file` (STAM JSON or STAM CSV)
    DatasetFile { csv: bool },
    /// `TextResource::from_file` (STAM JSON or plain text)
    ResourceFile { json: bool },
}

impl Mode {
    fn name(&self) -> &'static str {
        match self {
            Mode::JsonStr => "json-str",
            Mode::JsonFile => "json-file",
            Mode::JsonStandoff { .. } => "json-standoff",
            Mode::JsonSubstore { .. } => "json-substore",
            Mode::Csv => "csv",
            Mode::Cbor => "cbor",
            Mode::AnnotateFromFile => "annotate_from_file",
            Mode::BuilderFromStr => "builder_from_json_str",
            Mode::DatasetFile { csv: false } => "dataset-json",
            Mode::DatasetFile { csv: true } => "dataset-csv",
            Mode::ResourceFile { json: true } => "resource-json",
            Mode::ResourceFile { json: false } => "resource-txt",
        }
    }
    fn format(&self) -> &'static str {
        match self {
            Mode::Csv | Mode::DatasetFile { csv: true } => "csv",
            Mode::Cbor => "cbor",
            Mode::ResourceFile { json: false } => "txt",
            _ => "json",
        }
    }
}

#[derive(Clone, Debug, Serialize, Deserialize, PartialEq)]
pub enum ParseKind {
    Cursor,
    Type,
    SelectorKind,
    DataFormat,
    OffsetJson,
    BuilderJson,
    /// `serde_json::from_str::<Cursor>`
    CursorJson,
}

#[derive(Clone, Debug, Serialize, Deserialize, PartialEq)]
#[serde(untagged)]
pub enum Bytes {
    Text(String),
    Hex { hex: String },
}

impl Bytes {
    pub fn from_slice(b: &[u8]) -> Bytes {
        match std::str::from_utf8(b) {
            Ok(s) => Bytes::Text(s.to_string()),
            Err(_) => Bytes::Hex { hex: b.iter().map(|x| format!("{:02x}", x)).collect() },
        }
    }
    pub fn to_vec(&self) -> Vec<u8> {
        match self {
            Bytes::Text(s) => s.as_bytes().to_vec(),
            Bytes::Hex { hex } => (0..hex.len() / 2).filter_map(|i| u8::from_str_radix(hex.get(2 * i..2 * i + 2)?, 16).ok()).collect(),
        }
    }
}

#[derive(Clone, Debug, Serialize, Deserialize)]
pub enum Case {
    Doc { hist: History, mode: Mode, muts: Vec<Mutation> },
    /// a raw input of one of the fuzz targets (`c19_json`, `c19_csv`: container of files; `c19_cbor`: the bytes)
    Raw { target: String, data: Bytes },
    Parse { what: ParseKind, input: String },
}

// ================================================================================================
// limits (DESIGN §5 C19)

pub const PEAK_BASE: usize = 64 << 20;
pub const PEAK_PER_BYTE: usize = 4096;
pub const COUNT_BASE: u64 = 1_000_000;
pub const COUNT_PER_BYTE: u64 = 1_000;
/// the worker refuses allocations beyond this many live bytes (=> abort|alloc instead of swapping the machine to death)
pub const HARD_CAP: usize = 3 << 30;
pub const CASE_TIMEOUT_S: u64 = 30;

// ================================================================================================
// scratch directories

static COUNTER: AtomicU64 = AtomicU64::new(0);
/// the worker is removing its scratch directory: nothing may be created in it any more
static SHUTTING_DOWN: std::sync::atomic::AtomicBool = std::sync::atomic::AtomicBool::new(false);

fn tmp_base() -> PathBuf {
    // $VERIF_TMP if set, else a tmpfs when one is writable (a run writes and removes many small files), else /tmp
    match std::env::var("VERIF_TMP") {
        Ok(s) if !s.is_empty() => PathBuf::from(s),
        _ => PathBuf::from(crate::props::c05::scratch_base()),
    }
}

struct Scratch(PathBuf);
impl Scratch {
    fn new_in(parent: &Path, tag: &str) -> Scratch {
        let n = COUNTER.fetch_add(1, Ordering::Relaxed);
        let p = parent.join(format!("{}{}", tag, n));
        if !SHUTTING_DOWN.load(Ordering::Relaxed) {
            let _ = std::fs::create_dir_all(&p);
        }
        Scratch(p)
    }
    fn path(&self, name: &str) -> String {
        self.0.join(name).to_string_lossy().to_string()
    }
    fn dir(&self) -> String {
        self.0.to_string_lossy().to_string()
    }
}
impl Drop for Scratch {
    fn drop(&mut self) {
        let _ = std::fs::remove_dir_all(&self.0);
    }
}

// ================================================================================================
// building the valid document set of a generated case

fn json_cfg() -> Config {
    Config::default().with_dataformat(DataFormat::Json { compact: true })
}

fn externalise(doc: &mut J, files: &mut DocSet, json_resources: bool) {
    if let Some(arr) = doc.get_mut("resources").and_then(|r| r.as_arr_mut()) {
        for (i, r) in arr.iter_mut().enumerate() {
            let id = r.get("@id").cloned();
            let text = r.get("text").and_then(|t| t.as_str()).unwrap_or("").to_string();
            let fname = if json_resources {
                let fname = format!("r{}.resource.stam.json", i);
                files.push((fname.clone(), r.write().into_bytes()));
                fname
            } else {
                let fname = format!("r{}.txt", i);
                files.push((fname.clone(), text.into_bytes()));
                fname
            };
            let mut m = vec![("@type".to_string(), J::Str("TextResource".into()))];
            if let Some(id) = id {
                m.push(("@id".into(), id));
            }
            m.push(("@include".into(), J::Str(fname)));
            *r = J::Obj(m);
        }
    }
    if let Some(arr) = doc.get_mut("annotationsets").and_then(|r| r.as_arr_mut()) {
        for (i, s) in arr.iter_mut().enumerate() {
            let id = s.get("@id").cloned();
            let fname = format!("s{}.annotationset.stam.json", i);
            files.push((fname.clone(), s.write().into_bytes()));
            let mut m = vec![("@type".to_string(), J::Str("AnnotationDataSet".into()))];
            if let Some(id) = id {
                m.push(("@id".into(), id));
            }
            m.push(("@include".into(), J::Str(fname)));
            *s = J::Obj(m);
        }
    }
}

fn read_dir_docs(dir: &Path, main: &str) -> DocSet {
    let mut rest: DocSet = vec![];
    let mut first: DocSet = vec![];
    if let Ok(rd) = std::fs::read_dir(dir) {
        let mut names: Vec<String> = rd.filter_map(|e| e.ok()).map(|e| e.file_name().to_string_lossy().to_string()).collect();
        names.sort();
        for n in names {
            let bytes = std::fs::read(dir.join(&n)).unwrap_or_default();
            if n == main {
                first.push((n, bytes));
            } else {
                rest.push((n, bytes));
            }
        }
    }
    first.extend(rest);
    first
}

/// the valid documents of a generated case; None when the history diverged from the model (other properties' business)
pub fn base_docs(hist: &History, mode: &Mode, work: &Path, out: &mut Outcome) -> Option<DocSet> {
    let m = final_store(hist, out)?;
    let mut store = m.store;
    let as_json = |store: &AnnotationStore| -> Option<J> {
        let s = catch(|| store.to_json_string(&json_cfg())).ok()?.ok()?;
        J::parse(s.as_bytes())
    };
    let foreign = |out: &mut Outcome| {
        out.label("stopped_at_foreign_divergence");
        None
    };
    match mode {
        Mode::JsonStr | Mode::JsonFile => {
            let Some(doc) = as_json(&store) else { return foreign(out) };
            Some(vec![("main.store.stam.json".into(), doc.write().into_bytes())])
        }
        Mode::JsonStandoff { json_resources } => {
            let Some(mut doc) = as_json(&store) else { return foreign(out) };
            let mut files = vec![];
            externalise(&mut doc, &mut files, *json_resources);
            let mut docs = vec![("main.store.stam.json".to_string(), doc.write().into_bytes())];
            docs.extend(files);
            Some(docs)
        }
        Mode::JsonSubstore { cut, standoff, share } => {
            let Some(doc) = as_json(&store) else { return foreign(out) };
            let anns: Vec<J> = doc.get("annotations").and_then(|a| a.as_arr()).cloned().unwrap_or_default();
            let k = if anns.is_empty() { 0 } else { pick(*cut, anns.len() + 1) };
            let mut sub = doc.clone();
            if sub.get("@id").is_some() {
                sub.set("@id", J::Str("the-substore".into()));
            } else {
                sub.insert_front("@id", J::Str("the-substore".into()));
            }
            sub.set("annotations", J::Arr(anns[..k].to_vec()));
            let mut main = vec![("@type".to_string(), J::Str("AnnotationStore".into()))];
            if let Some(id) = doc.get("@id") {
                main.push(("@id".into(), id.clone()));
            }
            main.push(("@include".into(), J::Str("sub.store.stam.json".into())));
            let mut files = vec![];
            if *standoff {
                externalise(&mut sub, &mut files, false);
            }
            main.push(("resources".into(), J::Arr(vec![])));
            let shared = if *share { sub.get("annotationsets").cloned().unwrap_or(J::Arr(vec![])) } else { J::Arr(vec![]) };
            main.push(("annotationsets".into(), shared));
            main.push(("annotations".into(), J::Arr(anns[k..].to_vec())));
            let mut docs = vec![
                ("main.store.stam.json".to_string(), J::Obj(main).write().into_bytes()),
                ("sub.store.stam.json".to_string(), sub.write().into_bytes()),
            ];
            docs.extend(files);
            Some(docs)
        }
        Mode::Csv | Mode::DatasetFile { csv: true } => {
            let dir = Scratch::new_in(work, "base");
            let f = dir.path("x.store.stam.csv");
            // (some of the data set files are written relative to the working directory)
            let _ = std::env::set_current_dir(&dir.0);
            let written = catch(|| store.to_file(&f));
            let _ = std::env::set_current_dir(work);
            match written {
                Ok(Ok(())) => {}
                _ => return foreign(out),
            }
            let docs = read_dir_docs(&dir.0, "x.store.stam.csv");
            if matches!(mode, Mode::Csv) {
                Some(docs)
            } else {
                let set = docs.into_iter().find(|(n, _)| n.ends_with(".annotationset.stam.csv"));
                match set {
                    Some(s) => Some(vec![s]),
                    None => {
                        out.skip("no dataset");
                        None
                    }
                }
            }
        }
        Mode::Cbor => {
            let dir = Scratch::new_in(work, "base");
            let f = dir.path("x.store.stam.cbor");
            match catch(|| store.to_file(&f)) {
                Ok(Ok(())) => {}
                _ => return foreign(out),
            }
            let mut docs = read_dir_docs(&dir.0, "x.store.stam.cbor");
            // a deterministic document: sorted id maps, no scratch path (its length depends on the process id)
            match docs.first().and_then(|d| C::parse_stam(&d.1)) {
                Some(mut c) => {
                    c.canonical(&dir.dir(), "/c19");
                    docs[0].1 = c.write();
                }
                None => {
                    out.label("cbor-base-not-parsed");
                }
            }
            Some(docs)
        }
        Mode::AnnotateFromFile | Mode::BuilderFromStr => {
            let Some(mut doc) = as_json(&store) else { return foreign(out) };
            let anns: Vec<J> = doc.get("annotations").and_then(|a| a.as_arr()).cloned().unwrap_or_default();
            if anns.is_empty() {
                out.skip("no annotation");
                return None;
            }
            if matches!(mode, Mode::AnnotateFromFile) {
                let k = anns.len() / 2;
                doc.set("annotations", J::Arr(anns[..k].to_vec()));
                Some(vec![
                    ("extra.annotations.json".into(), J::Arr(anns[k..].to_vec()).write().into_bytes()),
                    ("main.store.stam.json".into(), doc.write().into_bytes()),
                ])
            } else {
                let k = anns.len() - 1;
                doc.set("annotations", J::Arr(anns[..k].to_vec()));
                Some(vec![
                    ("one.annotation.json".into(), anns[k].write().into_bytes()),
                    ("main.store.stam.json".into(), doc.write().into_bytes()),
                ])
            }
        }
        Mode::DatasetFile { csv: false } => {
            let Some(doc) = as_json(&store) else { return foreign(out) };
            match doc.get("annotationsets").and_then(|a| a.as_arr()).and_then(|a| a.first()) {
                Some(s) => Some(vec![("s0.annotationset.stam.json".into(), s.write().into_bytes())]),
                None => {
                    out.skip("no dataset");
                    None
                }
            }
        }
        Mode::ResourceFile { json } => {
            let Some(doc) = as_json(&store) else { return foreign(out) };
            match doc.get("resources").and_then(|a| a.as_arr()).and_then(|a| a.first()) {
                Some(r) => {
                    if *json {
                        Some(vec![("r0.resource.stam.json".into(), r.write().into_bytes())])
                    } else {
                        let text = r.get("text").and_then(|t| t.as_str()).unwrap_or("").to_string();
                        Some(vec![("r0.txt".into(), text.into_bytes())])
                    }
                }
                None => {
                    out.skip("no resource");
                    None
                }
            }
        }
    }
}

// ================================================================================================
// the oracle

#[derive(Clone, Copy, Debug, PartialEq)]
enum Entry {
    StoreFromStr,
    StoreFromFile,
    AnnotateFromFile,
    BuilderFromStr,
    DatasetFromFile,
    ResourceFromFile,
}

static PHASE: std::sync::Mutex<Option<(String, std::time::Instant)>> = std::sync::Mutex::new(None);
/// set by the worker only: phase markers go to its stderr log
static PHASE_LOG: std::sync::atomic::AtomicBool = std::sync::atomic::AtomicBool::new(false);

fn phase(p: &str) {
    // marker for the parent process: which phase was running when the worker died
    if PHASE_LOG.load(Ordering::Relaxed) {
        eprintln!("C19-PHASE {}", p);
    }
    if let Ok(mut g) = PHASE.lock() {
        *g = Some((p.to_string(), std::time::Instant::now()));
    }
}

/// wall-clock budget for *using* a store returned by the CBOR reader (see `check_store`): a loop over a ranged
/// selector whose end was edited runs for 2^32 steps
pub const CBOR_USE_TIMEOUT_S: u64 = 8;

fn err_kind(e: &StamError) -> String {
    let d = format!("{:?}", e);
    d.chars().take_while(|c| c.is_ascii_alphanumeric()).collect()
}

struct Ctx<'a> {
    fmt: &'a str,
    field: &'a str,
    input_len: usize,
}

/// stack available to a load: the default of a Rust thread (instrumented fuzz builds have much larger frames)
pub const LOAD_STACK: usize = if cfg!(fuzzing) { 16 << 20 } else { 2 << 20 };

/// run a load on its own thread with the stack of a default Rust thread
fn on_load_thread<T: Send>(f: impl FnOnce() -> T + Send) -> Result<T, PanicInfo> {
    if cfg!(fuzzing) {
        // in a libFuzzer process the sanitizer watches the stack; a thread per execution would dominate the cost
        return catch(f);
    }
    std::thread::scope(|s| {
        let h = std::thread::Builder::new().name("c19-load".into()).stack_size(LOAD_STACK).spawn_scoped(s, || catch(f));
        match h {
            Ok(h) => h.join().unwrap_or_else(|_| {
                Err(PanicInfo {
                    file: "?".into(),
                    line: "0".into(),
                    msg: "load thread panicked outside catch".into(),
                })
            }),
            Err(e) => Err(PanicInfo {
                file: "src/props/c19.rs".into(),
                line: "0".into(),
                msg: format!("cannot spawn the load thread: {}", e),
            }),
        }
    })
}

/// measure one load; reports the allocation facets
fn measured<T: Send>(ctx: &Ctx, out: &mut Outcome, what: &str, f: impl FnOnce() -> T + Send) -> Result<T, PanicInfo> {
    phase("load");
    let mark = alloc::mark();
    let r = on_load_thread(f);
    let (peak, count) = alloc::since(mark);
    phase("after-load");
    if alloc::active() {
        out.checks += 2;
        let peak_limit = PEAK_BASE + PEAK_PER_BYTE * ctx.input_len;
        if peak > peak_limit {
            out.fail(
                "alloc",
                format!("alloc|{}|{}", ctx.fmt, ctx.field),
                format!("{}: peak of {} live bytes allocated for an input of {} bytes (limit {})", what, peak, ctx.input_len, peak_limit),
            );
        }
        let count_limit = COUNT_BASE + COUNT_PER_BYTE * ctx.input_len as u64;
        if count > count_limit {
            out.fail(
                "time",
                format!("time|{}|{}", ctx.fmt, ctx.field),
                format!("{}: {} allocation calls for an input of {} bytes (limit {})", what, count, ctx.input_len, count_limit),
            );
        }
    }
    r
}

/// did the panic come from the harness's own observation code (which `expect`s live referents)?
fn harness_panic(p: &PanicInfo) -> bool {
    let base = p.file.rsplit('/').next().unwrap_or("");
    p.file.contains("props/") || p.file.contains("harness/") || matches!(base, "observe.rs" | "hcheck.rs" | "hist.rs" | "model.rs" | "content.rs" | "rel.rs" | "engine.rs")
}

fn report_panic(out: &mut Outcome, what: &str, p: &PanicInfo) {
    if !harness_panic(p) {
        out.fail("panic", p.signature(), format!("{} panicked at {}:{}: {}", what, p.file, p.line, p.msg));
    } else {
        // the observation layer of the harness insists on live referents: a dangling handle in the loaded store
        out.fail(
            "invariant",
            format!("dangling|{}", normalise_msg(&p.msg)),
            format!("{}: the loaded store holds a reference to an item that does not exist ({} at {}:{})", what, p.msg, p.file, p.line),
        );
    }
}

fn plain_relative(f: &str) -> bool {
    !(f.is_empty() || f == "-" || f.starts_with('/') || f.starts_with("file:") || f.starts_with("http") || f.split('/').any(|c| c == "..") || f.contains('\\'))
}


/// Forward references of a store: every handle names a live item, ranged selectors span live items, annotation
/// selectors point backwards (an annotation can only ever target annotations that existed before it). A store
/// built through the API always satisfies this; a store decoded from CBOR is not checked by the library at all.
fn forward_references_sound(store: &AnnotationStore) -> Result<(), String> {
    fn sel(store: &AnnotationStore, own: usize, s: &Selector, depth: usize) -> Result<(), String> {
        if depth > 4 {
            return Err("selector nested more than four levels".into());
        }
        let res_ok = |r: &TextResourceHandle| store.resource(*r).is_some();
        let tsel_ok = |r: &TextResourceHandle, t: &TextSelectionHandle| store.resource(*r).map(|res| res.textselection_by_handle(*t).is_ok()).unwrap_or(false);
        let ann_ok = |a: &AnnotationHandle| a.as_usize() < own && store.annotation(*a).is_some();
        match s {
            Selector::TextSelector(r, t, _) => {
                if !tsel_ok(r, t) {
                    return Err(format!("annotation {}: text selector ({},{}) names no live text selection", own, r.as_usize(), t.as_usize()));
                }
            }
            Selector::AnnotationSelector(a, x) => {
                if !ann_ok(a) {
                    return Err(format!("annotation {}: annotation selector names annotation {} (not an earlier live annotation)", own, a.as_usize()));
                }
                if let Some((r, t, _)) = x {
                    if !tsel_ok(r, t) {
                        return Err(format!("annotation {}: annotation selector text ({},{}) names no live text selection", own, r.as_usize(), t.as_usize()));
                    }
                }
            }
            Selector::ResourceSelector(r) => {
                if !res_ok(r) {
                    return Err(format!("annotation {}: resource selector names resource {}", own, r.as_usize()));
                }
            }
            Selector::DataSetSelector(d) => {
                if store.dataset(*d).is_none() {
                    return Err(format!("annotation {}: dataset selector names dataset {}", own, d.as_usize()));
                }
            }
            Selector::DataKeySelector(d, k) => {
                if store.dataset(*d).and_then(|set| set.key(*k)).is_none() {
                    return Err(format!("annotation {}: key selector names ({},{})", own, d.as_usize(), k.as_usize()));
                }
            }
            Selector::AnnotationDataSelector(d, x) => {
                if store.dataset(*d).and_then(|set| set.annotationdata(*x)).is_none() {
                    return Err(format!("annotation {}: data selector names ({},{})", own, d.as_usize(), x.as_usize()));
                }
            }
            Selector::MultiSelector(v) | Selector::CompositeSelector(v) | Selector::DirectionalSelector(v) => {
                if depth > 0 {
                    return Err(format!("annotation {}: complex selector inside a complex selector", own));
                }
                for x in v {
                    sel(store, own, x, depth + 1)?;
                }
            }
            Selector::RangedTextSelector { resource, begin, end } => {
                let n = store.resource(*resource).map(|r| r.textselections_len()).unwrap_or(0);
                if begin.as_usize() > end.as_usize() || end.as_usize() - begin.as_usize() > n {
                    return Err(format!("annotation {}: ranged text selector {}..={} over a resource with {} text selections", own, begin.as_usize(), end.as_usize(), n));
                }
                for t in begin.as_usize()..=end.as_usize() {
                    if !tsel_ok(resource, &TextSelectionHandle::new(t)) {
                        return Err(format!("annotation {}: ranged text selector covers missing text selection {}", own, t));
                    }
                }
            }
            Selector::RangedAnnotationSelector { begin, end, .. } => {
                if begin.as_usize() > end.as_usize() || end.as_usize() >= own {
                    return Err(format!("annotation {}: ranged annotation selector {}..={}", own, begin.as_usize(), end.as_usize()));
                }
                for a in begin.as_usize()..=end.as_usize() {
                    if !ann_ok(&AnnotationHandle::new(a)) {
                        return Err(format!("annotation {}: ranged annotation selector covers missing annotation {}", own, a));
                    }
                }
            }
        }
        Ok(())
    }
    for set in store.datasets() {
        for d in set.data() {
            let k = d.as_ref().key();
            if set.key(k).is_none() {
                return Err(format!("data ({},{}) names key {} which does not exist", set.handle().as_usize(), d.handle().as_usize(), k.as_usize()));
            }
        }
    }
    for a in store.annotations() {
        let own = a.handle().as_usize();
        sel(store, own, a.as_ref().target(), 0)?;
        for (s, d) in a.as_ref().raw_data() {
            if store.dataset(*s).and_then(|set| set.annotationdata(*d)).is_none() {
                return Err(format!("annotation {} names data ({},{}) which does not exist", own, s.as_usize(), d.as_usize()));
            }
        }
    }
    Ok(())
}

/// everything a caller may do with a store that was returned by a loader
fn check_store(ctx: &Ctx, store: &AnnotationStore, out: &mut Outcome, what: &str) {
    let mut local = Outcome::new();
    phase(if ctx.fmt == "cbor" { "guard-cbor" } else { "guard" });
    match catch(|| forward_references_sound(store)) {
        Ok(Ok(())) => check_store_inner(ctx, store, &mut local, what),
        Ok(Err(e)) => {
            // using such a store only panics, overflows the stack or loops (up to 2^32 steps): the finding is the reference itself
            local.label("forward-references-unsound");
            local.fail("invariant", "dangling-or-cyclic-reference", format!("{}: the loader returned Ok but {}", what, e));
        }
        Err(p) => report_panic(&mut local, &format!("{}: walking the forward references of the loaded store", what), &p),
    }
    // The CBOR reader decodes forward data, id maps and reverse indices as they come and cross-checks nothing;
    // whatever goes wrong when such a store is *used* has that one root cause, and is grouped under it.
    let prefix = if ctx.fmt == "cbor" { "cbor-unvalidated|" } else { "" };
    for f in std::mem::take(&mut local.failures) {
        out.fail(&f.facet, format!("{}{}", prefix, f.signature), f.detail);
    }
    out.merge(local);
}

fn check_store_inner(ctx: &Ctx, store: &AnnotationStore, out: &mut Outcome, what: &str) {
    let cbor = ctx.fmt == "cbor";
    phase(if cbor { "reads-cbor" } else { "reads" });
    let obs = match catch(|| observe(store)) {
        Ok(o) => o,
        Err(p) => {
            report_panic(out, &format!("{}: traversing the loaded store", what), &p);
            return;
        }
    };
    out.checks += 1;
    let mut sc = crate::hcheck::StepCheck {
        findings: vec![],
        diverged: false,
        obs: None,
        checks: 0,
    };
    match catch(|| crate::hcheck::check_consistency(store, &obs, &mut sc, None)) {
        Ok(()) => {
            out.checks += sc.checks;
            for f in sc.findings {
                out.fail(
                    &format!("loaded.{}", f.failure.facet),
                    format!("invariant|{}|{}", ctx.fmt, f.failure.signature),
                    format!("{}: the loader returned Ok but the store is not self-consistent: {}", what, f.failure.detail),
                );
            }
        }
        Err(p) => report_panic(out, &format!("{}: consistency battery", what), &p),
    }
    phase(if cbor { "serialise-cbor" } else { "serialise" });
    let safe = store.resources().all(|r| r.as_ref().filename().map(plain_relative).unwrap_or(true))
        && store.datasets().all(|s| s.as_ref().filename().map(plain_relative).unwrap_or(true));
    if safe {
        out.checks += 1;
        if let Err(p) = catch(|| store.to_json_string(&json_cfg()).map(|s| s.len())) {
            report_panic(out, &format!("{}: to_json_string of the loaded store", what), &p);
        }
    } else {
        out.label("serialise_skipped_path_outside_scratch");
    }
    phase(if cbor { "queries-cbor" } else { "queries" });
    for q in ["SELECT ANNOTATION ?a", "SELECT DATA ?d", "SELECT TEXT ?t", "SELECT RESOURCE ?r", "SELECT ANNOTATION ?a WHERE DATA \"s2\" \"pos\";"] {
        out.checks += 1;
        let r = catch(|| -> usize {
            let Ok(query) = Query::try_from(q) else { return 0 };
            match store.query(query) {
                Ok(iter) => iter.map(|r| r.iter().count()).sum(),
                Err(_) => 0,
            }
        });
        if let Err(p) = r {
            report_panic(out, &format!("{}: query {:?} on the loaded store", what, q), &p);
        }
    }
    phase("done");
}

fn label_result<T>(out: &mut Outcome, r: &Result<Result<T, StamError>, PanicInfo>, what: &str) {
    match r {
        Ok(Ok(_)) => out.label("outcome:ok"),
        Ok(Err(e)) => {
            out.label("outcome:err");
            out.label(&format!("err:{}", err_kind(e)));
        }
        Err(p) => {
            out.label("outcome:panic");
            report_panic(out, what, p);
        }
    }
}

fn write_docs(dir: &Scratch, docs: &DocSet) {
    for (name, bytes) in docs {
        if safe_name(name) {
            let _ = std::fs::write(dir.0.join(name), bytes);
        }
    }
}

/// run one entry point on a document set (first file = the document handed to the loader)
fn load_and_check(entry: Entry, docs: &DocSet, field: &str, work: &Path, out: &mut Outcome) {
    if docs.is_empty() {
        return;
    }
    let main = &docs[0].0;
    if !safe_name(main) {
        out.skip("unsafe main file name");
        return;
    }
    let fmt = if main.ends_with(".csv") {
        "csv"
    } else if main.ends_with(".cbor") {
        "cbor"
    } else if main.ends_with(".txt") {
        "txt"
    } else {
        "json"
    };
    let ctx = Ctx {
        fmt,
        field,
        input_len: docs.iter().map(|(_, b)| b.len()).sum(),
    };
    let dir = Scratch::new_in(work, "load");
    write_docs(&dir, docs);
    let cfg = || Config::default().with_use_include(true).with_workdir(dir.dir());
    match entry {
        Entry::StoreFromStr => {
            let Ok(s) = std::str::from_utf8(&docs[0].1) else {
                out.label("outcome:not-utf8");
                return;
            };
            let what = "AnnotationStore::from_str";
            let r = measured(&ctx, out, what, || AnnotationStore::from_str(s, cfg()));
            label_result(out, &r, what);
            if let Ok(Ok(store)) = &r {
                check_store(&ctx, store, out, what);
            }
        }
        Entry::StoreFromFile => {
            let f = dir.path(main);
            let what = "AnnotationStore::from_file";
            let r = measured(&ctx, out, what, || AnnotationStore::from_file(&f, cfg()));
            label_result(out, &r, what);
            if let Ok(Ok(store)) = &r {
                check_store(&ctx, store, out, what);
            }
        }
        Entry::AnnotateFromFile | Entry::BuilderFromStr => {
            // the store itself is a valid document unless a mutation hit it too
            let Some(storefile) = docs.iter().skip(1).find(|(n, _)| n.ends_with(".store.stam.json")) else {
                out.label("outcome:no-base-store");
                return;
            };
            let f = dir.path(&storefile.0);
            let base = measured(&ctx, out, "AnnotationStore::from_file (base store)", || AnnotationStore::from_file(&f, cfg()));
            let mut store = match base {
                Ok(Ok(s)) => s,
                Ok(Err(_)) => {
                    out.label("outcome:base-err");
                    return;
                }
                Err(p) => {
                    report_panic(out, "AnnotationStore::from_file (base store)", &p);
                    return;
                }
            };
            if entry == Entry::AnnotateFromFile {
                let what = "annotate_from_file";
                let r = measured(&ctx, out, what, || store.annotate_from_file(main).map(|_| ()));
                label_result(out, &r, what);
                if let Ok(Ok(())) = &r {
                    check_store(&ctx, &store, out, what);
                }
            } else {
                let Ok(s) = std::str::from_utf8(&docs[0].1) else {
                    out.label("outcome:not-utf8");
                    return;
                };
                let what = "AnnotationBuilder::from_json_str + annotate";
                let r = measured(&ctx, out, what, || AnnotationBuilder::from_json_str(s).and_then(|b| store.annotate(b)).map(|_| ()));
                label_result(out, &r, what);
                if let Ok(Ok(())) = &r {
                    check_store(&ctx, &store, out, what);
                }
            }
        }
        Entry::DatasetFromFile => {
            let what = "AnnotationDataSet::from_file";
            let r = measured(&ctx, out, what, || AnnotationDataSet::from_file(main, cfg()));
            label_result(out, &r, what);
            if let Ok(Ok(set)) = r {
                phase("reads");
                let r2 = catch(move || {
                    let mut set = set;
                    if set.id().is_none() {
                        set = set.with_id("c19-dataset");
                    }
                    let mut store = AnnotationStore::new(Config::default());
                    store.insert(set).map(|_| store)
                });
                match r2 {
                    Ok(Ok(store)) => check_store(&ctx, &store, out, what),
                    Ok(Err(_)) => out.label("dataset-not-insertable"),
                    Err(p) => report_panic(out, "inserting the loaded dataset into a store", &p),
                }
            }
        }
        Entry::ResourceFromFile => {
            let what = "TextResource::from_file";
            let r = measured(&ctx, out, what, || TextResource::from_file(main, cfg()));
            label_result(out, &r, what);
            if let Ok(Ok(res)) = r {
                phase("reads");
                let r2 = catch(move || {
                    let mut store = AnnotationStore::new(Config::default());
                    store.insert(res).map(|_| store)
                });
                match r2 {
                    Ok(Ok(store)) => check_store(&ctx, &store, out, what),
                    Ok(Err(_)) => out.label("resource-not-insertable"),
                    Err(p) => report_panic(out, "inserting the loaded resource into a store", &p),
                }
            }
        }
    }
}

fn mentions_device(docs: &DocSet) -> bool {
    // reading an endless device file is not a loader defect: file names into /dev, /proc, /sys are outside the domain
    docs.iter().any(|(n, b)| {
        let hay = |s: &[u8]| [&b"/dev/"[..], b"/proc/", b"/sys/"].iter().any(|p| s.windows(p.len()).any(|w| w == *p));
        hay(n.as_bytes()) || hay(b)
    })
}

const PARSE_SEEDS: [&str; 40] = [
    "0",
    "1",
    "12",
    "-0",
    "-1",
    "-12",
    "18446744073709551615",
    "18446744073709551616",
    "-9223372036854775808",
    "-9223372036854775809",
    "9223372036854775808",
    "+1",
    " 1",
    "1 ",
    "1.5",
    "-",
    "",
    "--1",
    "0x10",
    "١٢",
    "AnnotationStore",
    "annotationstore",
    "Annotation",
    "annotations",
    "TextResource",
    "textselection",
    "DataKey",
    "key",
    "TextSelector",
    "textselector",
    "text",
    "InternalRangedSelector",
    "MultiSelector",
    "json",
    "Json",
    "csv",
    "cbor",
    "CBOR",
    "json-compact",
    "ɐnnotation",
];

const OFFSET_SEEDS: [&str; 12] = [
    r#"{"@type":"Offset","begin":{"@type":"BeginAlignedCursor","value":0},"end":{"@type":"EndAlignedCursor","value":0}}"#,
    r#"{"@type":"Offset","begin":{"@type":"BeginAlignedCursor","value":3},"end":{"@type":"BeginAlignedCursor","value":5}}"#,
    r#"{"@type":"Offset","begin":{"@type":"EndAlignedCursor","value":-3},"end":{"@type":"EndAlignedCursor","value":-1}}"#,
    r#"{"begin":{"@type":"BeginAlignedCursor","value":3},"end":{"@type":"BeginAlignedCursor","value":5}}"#,
    r#"{"@type":"Offset","begin":{"@type":"BeginAlignedCursor","value":-1},"end":{"@type":"BeginAlignedCursor","value":5}}"#,
    r#"{"@type":"Offset","begin":{"@type":"EndAlignedCursor","value":1},"end":{"@type":"EndAlignedCursor","value":0}}"#,
    r#"{"@type":"Offset","begin":{"@type":"EndAlignedCursor","value":-9223372036854775808},"end":{"@type":"EndAlignedCursor","value":0}}"#,
    r#"{"@type":"Offset","begin":{"@type":"BeginAlignedCursor","value":18446744073709551616},"end":{"@type":"BeginAlignedCursor","value":5}}"#,
    r#"{"@type":"Offset","begin":3,"end":5}"#,
    r#"{"@type":"Offset","begin":{"@type":"FooCursor","value":3},"end":null}"#,
    r#"{"@type":"Offset","begin":{"value":3},"end":{"value":1e30}}"#,
    r#"[]"#,
];

const BUILDER_SEEDS: [&str; 8] = [
    r#"{"@type":"Annotation","@id":"A1","target":{"@type":"TextSelector","resource":"r","offset":{"@type":"Offset","begin":{"@type":"BeginAlignedCursor","value":0},"end":{"@type":"BeginAlignedCursor","value":5}}},"data":[{"@type":"AnnotationData","@id":"D1","set":"s","key":"pos","value":{"@type":"String","value":"noun"}}]}"#,
    r#"{"@type":"Annotation","target":{"@type":"ResourceSelector","resource":"r"},"data":[]}"#,
    r#"{"@type":"Annotation","target":{"@type":"MultiSelector","selectors":[{"@type":"AnnotationSelector","annotation":"A1"},{"@type":"DataKeySelector","annotationset":"s","key":"k"}]},"data":[{"set":"s","key":"n","value":{"@type":"Int","value":-9223372036854775808}}]}"#,
    r#"{"@type":"Annotation","target":{"@type":"AnnotationDataSelector","annotationset":"s","data":"!D18446744073709551615"},"data":[{"set":"s","key":"l","value":{"@type":"List","value":[{"@type":"Null"},{"@type":"Float","value":1e400}]}}]}"#,
    r#"{"@type":"Annotation","target":{"@type":"MultiSelector","selectors":[]}}"#,
    r#"{"@type":"Annotation","target":{"@type":"CompositeSelector","selectors":[{"@type":"CompositeSelector","selectors":[]}]},"data":null}"#,
    r#"{"target":{"@type":"InternalRangedSelector"}}"#,
    r#"{"@type":"Annotation","@id":"!A18446744073709551616","target":{"@type":"DataSetSelector","annotationset":""},"data":[{"@type":"AnnotationData","@id":"!D1000000000000","set":"!S4294967296"}]}"#,
];

const CURSOR_SEEDS: [&str; 6] = [
    r#"{"@type":"BeginAlignedCursor","value":3}"#,
    r#"{"@type":"EndAlignedCursor","value":-3}"#,
    r#"{"@type":"EndAlignedCursor","value":0}"#,
    r#"{"@type":"BeginAlignedCursor","value":-1}"#,
    r#"{"@type":"FooCursor","value":"x"}"#,
    r#"{"value":3}"#,
];

fn cycle(chars: &[char], n: usize, start: usize) -> String {
    if chars.is_empty() {
        return String::new();
    }
    (0..n).map(|i| chars[(start + i) % chars.len()]).collect()
}

/// A JSON seed made long and dense in multi-byte characters: every string that is not an "@type" is replaced by
/// `fill_len` characters of `fill`, the top-level object gets a leading "@id" of `lead_len` characters of `lead`,
/// and `phase` spaces in front shift every byte offset. With 3-byte characters and phases 0, 1, 2 every byte offset
/// inside a string falls inside a character for two of the three phases.
pub fn inflate(seed: &str, lead_len: usize, lead: &[char], fill_len: usize, fill: &[char], phase: usize) -> String {
    fn rec(j: &mut J, name: Option<&str>, fill_len: usize, fill: &[char], n: &mut usize) {
        match j {
            J::Str(s) => {
                if name != Some("@type") {
                    *s = cycle(fill, fill_len, *n);
                    *n += 1;
                }
            }
            J::Arr(a) => a.iter_mut().for_each(|x| rec(x, None, fill_len, fill, n)),
            J::Obj(m) => m.iter_mut().for_each(|(k, x)| rec(x, Some(k.as_str()), fill_len, fill, n)),
            _ => {}
        }
    }
    let Some(mut j) = J::parse(seed.as_bytes()) else { return format!("{}{}{}", " ".repeat(phase), cycle(lead, lead_len, 0), seed) };
    let mut n = 0;
    rec(&mut j, None, fill_len, fill, &mut n);
    if let J::Obj(m) = &mut j {
        if lead_len > 0 {
            m.retain(|(k, _)| k != "@id");
            m.insert(0, ("@id".to_string(), J::Str(cycle(lead, lead_len, 0))));
        }
    }
    format!("{}{}", " ".repeat(phase), j.write())
}

fn char_boundaries(s: &str) -> Vec<usize> {
    s.char_indices().map(|(i, _)| i).filter(|i| *i > 0).collect()
}

/// malformed long inputs for every JSON string parser, exhaustively over the positions that matter: (A) one dense
/// document per seed cut at *every* character boundary (excerpts taken relative to the error position or to the
/// end), (B) documents with a dense leading string of 60 / 400 / 1500 characters, shifted by 0..2 bytes, with a
/// truncation, a missing member or a retyped member (excerpts taken at a fixed byte offset)
fn enumerate_dense() -> Vec<Case> {
    let mut v = vec![];
    let mixed = ['Ü', '日', '😀'];
    let three = ['日'];
    let fill = ['é', '日', '😀', 'Ω'];
    let mut groups: Vec<(ParseKind, Vec<&'static str>)> = vec![
        (ParseKind::BuilderJson, BUILDER_SEEDS.to_vec()),
        (ParseKind::OffsetJson, OFFSET_SEEDS.to_vec()),
        (ParseKind::CursorJson, CURSOR_SEEDS.to_vec()),
    ];
    for (what, seeds) in groups.drain(..) {
        for seed in seeds {
            // (A)
            let doc = inflate(seed, 20, &mixed, 6, &fill, 0);
            for b in char_boundaries(&doc) {
                v.push(Case::Parse { what: what.clone(), input: doc[..b].to_string() });
            }
            // (B)
            let mut variants: Vec<String> = vec![];
            for lead_len in [60usize, 400, 1500] {
                for phase in 0..3 {
                    variants.push(inflate(seed, lead_len, &three, 6, &fill, phase));
                }
            }
            for phase in 0..4 {
                variants.push(inflate(seed, 90, &mixed, 6, &fill, phase));
            }
            for doc in variants {
                let bs = char_boundaries(&doc);
                if bs.is_empty() {
                    continue;
                }
                for k in [bs.len() / 2, 3 * bs.len() / 4, bs.len() - 1] {
                    v.push(Case::Parse { what: what.clone(), input: doc[..bs[k]].to_string() });
                }
                if let Some(J::Obj(m)) = J::parse(doc.as_bytes()) {
                    if m.len() > 1 {
                        let mut fewer = m.clone();
                        fewer.pop();
                        v.push(Case::Parse { what: what.clone(), input: J::Obj(fewer).write() });
                        let mut retyped = m.clone();
                        if let Some(last) = retyped.last_mut() {
                            last.1 = J::Bool(true);
                        }
                        v.push(Case::Parse { what: what.clone(), input: J::Obj(retyped).write() });
                    }
                }
                v.push(Case::Parse { what: what.clone(), input: format!("{}]", doc) });
            }
        }
    }
    // the plain-string parsers: dense strings alone, after and before a valid spelling
    for what in [ParseKind::Cursor, ParseKind::Type, ParseKind::SelectorKind, ParseKind::DataFormat] {
        for n in [50usize, 100, 400, 1500] {
            for phase in 0..3 {
                let dense = format!("{}{}", "x".repeat(phase), cycle(&three, n, 0));
                let dense2 = format!("{}{}", "1".repeat(phase), cycle(&mixed, n, 0));
                let spelling = match what {
                    ParseKind::Cursor => "-12",
                    ParseKind::Type => "TextResource",
                    ParseKind::SelectorKind => "TextSelector",
                    _ => "json",
                };
                v.push(Case::Parse { what: what.clone(), input: dense.clone() });
                v.push(Case::Parse { what: what.clone(), input: dense2.clone() });
                v.push(Case::Parse { what: what.clone(), input: format!("{}{}", spelling, dense) });
                v.push(Case::Parse { what: what.clone(), input: format!("{}{}", dense2, spelling) });
            }
        }
    }
    v
}

/// where the bytes of a text input fall (fixed-width excerpts in error paths cut at such offsets)
fn text_shape(prefix: &str, s: &str, out: &mut Outcome) {
    if s.len() >= 120 {
        out.label(&format!("{}:long", prefix));
        let non_ascii = s.bytes().filter(|b| *b >= 0x80).count();
        if 2 * non_ascii > s.len() {
            out.label(&format!("{}:long+dense-multibyte", prefix));
        }
    }
    for at in [120usize, 128, 256, 1024, 4096] {
        if s.len() > at && !s.is_char_boundary(at) {
            out.label(&format!("{}:multibyte-across-byte-{}", prefix, at));
        }
    }
}

fn run_parse(what: &ParseKind, input: &str, out: &mut Outcome) {
    out.label(&format!("parse:{:?}", what));
    text_shape("parse", input, out);
    phase("load");
    let r: Result<bool, PanicInfo> = match what {
        ParseKind::Cursor => catch(|| Cursor::try_from(input).is_ok()),
        ParseKind::Type => catch(|| Type::try_from(input).is_ok()),
        ParseKind::SelectorKind => catch(|| SelectorKind::try_from(input).is_ok()),
        ParseKind::DataFormat => catch(|| DataFormat::try_from(input).is_ok()),
        ParseKind::OffsetJson => catch(|| serde_json::from_str::<Offset>(input).is_ok()),
        ParseKind::BuilderJson => catch(|| AnnotationBuilder::from_json_str(input).is_ok()),
        ParseKind::CursorJson => catch(|| serde_json::from_str::<Cursor>(input).is_ok()),
    };
    phase("done");
    out.checks += 1;
    match &r {
        Ok(true) => out.label("outcome:ok"),
        Ok(false) => {
            out.label("outcome:err");
            if input.len() >= 120 {
                out.label("parse:long+rejected");
                for at in [120usize, 256] {
                    if input.len() > at && !input.is_char_boundary(at) {
                        out.label(&format!("parse:long+rejected+multibyte-across-byte-{}", at));
                    }
                }
            }
        }
        Err(p) => {
            out.label("outcome:panic");
            let shown: String = input.chars().take(300).collect();
            report_panic(out, &format!("parsing {:?} as {:?}", shown, what), p);
        }
    }
    let valid_seed = PARSE_SEEDS.contains(&input) || OFFSET_SEEDS.contains(&input) || BUILDER_SEEDS.contains(&input) || CURSOR_SEEDS.contains(&input);
    out.nontrivial = !valid_seed || matches!(r, Ok(false));
}

fn kinds_of(muts: &[Mutation]) -> String {
    let mut k: Vec<&'static str> = muts.iter().map(|m| m.kind()).collect();
    k.sort();
    k.dedup();
    k.join("+")
}

fn run_doc(hist: &History, mode: &Mode, muts: &[Mutation], work: &Path) -> Outcome {
    let mut out = Outcome::new();
    out.label(&format!("fmt:{}", mode.format()));
    out.label(&format!("mode:{}", mode.name()));
    let Some(base) = base_docs(hist, mode, work, &mut out) else { return out };
    let mut docs = base.clone();
    let mut applied = 0;
    for m in muts {
        let mut ls = vec![];
        if apply_l(&mut docs, m, &mut ls) {
            applied += 1;
            out.label(&format!("mut:{}", m.kind()));
            for l in &ls {
                out.label(l);
            }
        } else {
            out.label("mut:not-applicable");
        }
    }
    if docs.is_empty() {
        return out;
    }
    if applied > 0 {
        if let Some(Ok(text)) = docs.first().map(|d| std::str::from_utf8(&d.1)) {
            text_shape("doc", text, &mut out);
        }
    }
    if mentions_device(&docs) {
        out.skip("names a device file");
        return out;
    }
    // non-trivial: something changed in meaning, and every changed file still parses in its format
    let mut changed = false;
    let mut all_syntactic = true;
    for (name, bytes) in &docs {
        match base.iter().find(|(n, _)| n == name) {
            Some((_, old)) => {
                if differs(name, old, bytes) {
                    changed = true;
                    if !syntactic(name, bytes) {
                        all_syntactic = false;
                    }
                }
            }
            None => changed = true,
        }
    }
    if base.iter().any(|(n, _)| !docs.iter().any(|(m, _)| m == n)) {
        changed = true;
    }
    if applied == 0 || !changed {
        out.label("unchanged");
    } else {
        out.label("mutated");
        out.label(if all_syntactic { "syntax:valid" } else { "syntax:broken" });
    }
    out.nontrivial = changed && all_syntactic;
    let entry = match mode {
        Mode::JsonStr => Entry::StoreFromStr,
        Mode::JsonFile | Mode::JsonStandoff { .. } | Mode::JsonSubstore { .. } | Mode::Csv | Mode::Cbor => Entry::StoreFromFile,
        Mode::AnnotateFromFile => Entry::AnnotateFromFile,
        Mode::BuilderFromStr => Entry::BuilderFromStr,
        Mode::DatasetFile { .. } => Entry::DatasetFromFile,
        Mode::ResourceFile { .. } => Entry::ResourceFromFile,
    };
    load_and_check(entry, &docs, &kinds_of(muts), work, &mut out);
    if changed && out.labels.iter().any(|l| l == "outcome:ok") {
        out.label("mutated-and-ok");
    }
    out
}

/// run a case in this process (called by the worker and by the fuzz targets). The process's working directory
/// is a fresh directory for the duration of the case: the library resolves some file names against it (when a
/// configuration has no workdir), and neither may a case leave files behind nor may it see those of an earlier one.
pub fn run_local(case: &Case, work: &Path) -> Outcome {
    let case_dir = Scratch::new_in(work, "case");
    let _ = std::env::set_current_dir(&case_dir.0);
    let out = run_local_in(case, &case_dir.0);
    let _ = std::env::set_current_dir(work);
    drop(case_dir);
    out
}

fn run_local_in(case: &Case, work: &Path) -> Outcome {
    let mut out = Outcome::new();
    phase("prepare");
    match case {
        Case::Parse { what, input } => run_parse(what, input, &mut out),
        Case::Raw { target, data } => {
            let data = data.to_vec();
            out.label(&format!("raw:{}", target));
            match target.as_str() {
                "c19_json" => {
                    let docs = container_split(&data, "main.store.stam.json");
                    if mentions_device(&docs) {
                        out.skip("names a device file");
                        return out;
                    }
                    out.nontrivial = syntactic(&docs[0].0, &docs[0].1);
                    load_and_check(Entry::StoreFromFile, &docs, "raw", work, &mut out);
                    if docs.len() == 1 {
                        load_and_check(Entry::StoreFromStr, &docs, "raw", work, &mut out);
                        // the same bytes through the smaller entry points
                        for (name, entry) in [
                            ("x.annotationset.stam.json", Entry::DatasetFromFile),
                            ("x.resource.stam.json", Entry::ResourceFromFile),
                        ] {
                            let d = vec![(name.to_string(), docs[0].1.clone())];
                            load_and_check(entry, &d, "raw", work, &mut out);
                        }
                        if let Ok(s) = std::str::from_utf8(&docs[0].1) {
                            let mut o2 = Outcome::new();
                            run_parse(&ParseKind::BuilderJson, s, &mut o2);
                            run_parse(&ParseKind::OffsetJson, s, &mut o2);
                            o2.nontrivial = false;
                            o2.labels.clear();
                            out.merge(o2);
                        }
                    }
                }
                "c19_csv" => {
                    let docs = container_split(&data, "main.store.stam.csv");
                    if mentions_device(&docs) {
                        out.skip("names a device file");
                        return out;
                    }
                    out.nontrivial = syntactic(&docs[0].0, &docs[0].1);
                    load_and_check(Entry::StoreFromFile, &docs, "raw", work, &mut out);
                    if docs.len() == 1 {
                        let d = vec![("x.annotationset.stam.csv".to_string(), docs[0].1.clone())];
                        load_and_check(Entry::DatasetFromFile, &d, "raw", work, &mut out);
                        if let Ok(s) = std::str::from_utf8(&docs[0].1) {
                            let mut o2 = Outcome::new();
                            for k in [ParseKind::Cursor, ParseKind::Type, ParseKind::SelectorKind, ParseKind::DataFormat] {
                                run_parse(&k, s.trim_end_matches('\n'), &mut o2);
                            }
                            o2.nontrivial = false;
                            o2.labels.clear();
                            out.merge(o2);
                        }
                    }
                }
                "c19_cbor" => {
                    let docs = vec![("main.store.stam.cbor".to_string(), data)];
                    out.nontrivial = syntactic(&docs[0].0, &docs[0].1);
                    load_and_check(Entry::StoreFromFile, &docs, "raw", work, &mut out);
                }
                _ => out.skip("unknown raw target"),
            }
        }
        Case::Doc { hist, mode, muts } => {
            out = run_doc(hist, mode, muts, work);
            // which mutations are needed for an allocation finding? (names the field that carried the number)
            let numeric = |o: &Outcome| o.failures.iter().any(|f| f.facet == "alloc" || f.facet == "time");
            if numeric(&out) && muts.len() > 1 {
                let mut needed: Vec<&'static str> = vec![];
                for i in 0..muts.len() {
                    let mut fewer = muts.clone();
                    fewer.remove(i);
                    if !numeric(&run_doc(hist, mode, &fewer, work)) {
                        needed.push(muts[i].kind());
                    }
                }
                if !needed.is_empty() {
                    needed.sort();
                    needed.dedup();
                    let all = kinds_of(muts);
                    let refined = needed.join("+");
                    for f in out.failures.iter_mut() {
                        if f.facet == "alloc" || f.facet == "time" {
                            f.signature = f.signature.replace(&all, &refined);
                        }
                    }
                }
            }
        }
    }
    out
}

// ================================================================================================
// wire format between the check and its worker

#[derive(Serialize, Deserialize, Default, Debug)]
pub struct Wire {
    #[serde(default)]
    pub labels: Vec<String>,
    #[serde(default)]
    pub nontrivial: bool,
    #[serde(default)]
    pub failures: Vec<Failure>,
    #[serde(default)]
    pub skip: Option<String>,
    #[serde(default)]
    pub checks: u64,
    #[serde(default)]
    pub dontcare: u64,
    #[serde(default)]
    pub timeout: bool,
    /// phase in which the time ran out
    #[serde(default)]
    pub phase: String,
}

impl Wire {
    fn of(o: Outcome) -> Wire {
        Wire {
            labels: o.labels,
            nontrivial: o.nontrivial,
            failures: o.failures,
            skip: o.skip,
            checks: o.checks,
            dontcare: o.dontcare,
            timeout: false,
            phase: String::new(),
        }
    }
    fn into_outcome(self) -> Outcome {
        Outcome {
            labels: self.labels,
            nontrivial: self.nontrivial,
            failures: self.failures,
            skip: self.skip,
            checks: self.checks,
            dontcare: self.dontcare,
        }
    }
}

#[repr(C)]
struct RLimit {
    cur: u64,
    max: u64,
}

extern "C" {
    fn dup(fd: i32) -> i32;
    fn dup2(old: i32, new: i32) -> i32;
    fn getrlimit(resource: i32, rlim: *mut RLimit) -> i32;
    fn setrlimit(resource: i32, rlim: *const RLimit) -> i32;
}

/// unbounded recursion over files must hit the stack limit, not the (environment-specific) limit of open files
fn raise_nofile() {
    const RLIMIT_NOFILE: i32 = 7;
    if cfg!(all(target_os = "linux", target_pointer_width = "64")) {
        unsafe {
            let mut r = RLimit { cur: 0, max: 0 };
            if getrlimit(RLIMIT_NOFILE, &mut r) == 0 && r.cur < r.max {
                r.cur = r.max;
                let _ = setrlimit(RLIMIT_NOFILE, &r);
            }
        }
    }
}

/// after this, nothing the library does with "-" (stdin/stdout) can disturb the protocol
fn detach_stdio() -> (std::fs::File, std::fs::File) {
    use std::os::unix::io::{AsRawFd, FromRawFd};
    unsafe {
        let input = dup(0);
        let output = dup(1);
        let null_in = std::fs::File::open("/dev/null").expect("open /dev/null");
        let null_out = std::fs::OpenOptions::new().write(true).open("/dev/null").expect("open /dev/null");
        dup2(null_in.as_raw_fd(), 0);
        dup2(null_out.as_raw_fd(), 1);
        (std::fs::File::from_raw_fd(input), std::fs::File::from_raw_fd(output))
    }
}

fn truncate_stderr() {
    use std::os::unix::io::FromRawFd;
    let f = std::mem::ManuallyDrop::new(unsafe { std::fs::File::from_raw_fd(2) });
    let _ = f.set_len(0);
}

/// the child process: reads one case per line, answers one `Wire` per line. `dir` is its scratch directory
/// (created by the parent, which also opened `dir/stderr.log` as this process's stderr).
pub fn worker_main(dir: &str) -> i32 {
    let (input, mut output) = detach_stdio();
    install_panic_hook();
    raise_nofile();
    alloc::set_hard_cap(HARD_CAP);
    PHASE_LOG.store(true, Ordering::Relaxed);
    let work = PathBuf::from(dir);
    let (tx_case, rx_case) = std::sync::mpsc::channel::<String>();
    let (tx_res, rx_res) = std::sync::mpsc::channel::<String>();
    let work2 = work.clone();
    let runner = std::thread::Builder::new()
        .name("c19-case".into())
        .stack_size(16 << 20)
        .spawn(move || {
            for line in rx_case {
                let wire = match serde_json::from_str::<Case>(&line) {
                    Ok(case) => {
                        let out = match catch(|| run_local(&case, &work2)) {
                            Ok(o) => o,
                            Err(p) => {
                                let mut o = Outcome::new();
                                report_panic(&mut o, "running the case", &p);
                                o
                            }
                        };
                        Wire::of(out)
                    }
                    Err(e) => Wire {
                        skip: Some(format!("worker could not decode the case: {}", e)),
                        ..Wire::default()
                    },
                };
                if tx_res.send(serde_json::to_string(&wire).unwrap_or_else(|_| "{}".into())).is_err() {
                    break;
                }
            }
        });
    if runner.is_err() {
        let _ = std::fs::remove_dir_all(&work);
        return 4;
    }
    let mut reader = BufReader::new(input);
    let mut code = 0;
    loop {
        let mut line = String::new();
        match reader.read_line(&mut line) {
            Ok(0) | Err(_) => break,
            Ok(_) => {}
        }
        if line.trim().is_empty() {
            continue;
        }
        truncate_stderr();
        if tx_case.send(line).is_err() {
            code = 4;
            break;
        }
        let started = std::time::Instant::now();
        let answer = loop {
            match rx_res.recv_timeout(std::time::Duration::from_millis(200)) {
                Ok(s) => break Ok(s),
                Err(std::sync::mpsc::RecvTimeoutError::Timeout) => {
                    let (ph, since) = PHASE.lock().ok().and_then(|g| g.clone()).unwrap_or(("start".into(), started));
                    if started.elapsed().as_secs() >= CASE_TIMEOUT_S || (ph.ends_with("-cbor") && since.elapsed().as_secs() >= CBOR_USE_TIMEOUT_S) {
                        break Err(Some(ph));
                    }
                }
                Err(_) => break Err(None),
            }
        };
        match answer {
            Ok(s) => {
                if writeln!(output, "{}", s).is_err() || output.flush().is_err() {
                    break;
                }
            }
            Err(Some(ph)) => {
                let w = Wire {
                    timeout: true,
                    phase: ph,
                    ..Wire::default()
                };
                let _ = writeln!(output, "{}", serde_json::to_string(&w).unwrap());
                let _ = output.flush();
                code = 3;
                break;
            }
            Err(None) => {
                code = 4;
                break;
            }
        }
    }
    // let the case that is still running (if any) finish, so that it cannot re-create files after the clean-up
    drop(tx_case);
    if let Ok(runner) = runner {
        let t0 = std::time::Instant::now();
        while !runner.is_finished() && t0.elapsed().as_millis() < 3000 {
            std::thread::sleep(std::time::Duration::from_millis(10));
        }
    }
    SHUTTING_DOWN.store(true, Ordering::Relaxed);
    let _ = std::fs::remove_dir_all(&work);
    code
}

// ---- parent side

struct Worker {
    child: std::process::Child,
    stdin: std::process::ChildStdin,
    stdout: BufReader<std::process::ChildStdout>,
    dir: PathBuf,
}

enum Answer {
    Done(Wire),
    /// the worker died: (kind, phase, diagnostic)
    Died(String, String, String),
    /// the worker gave up on the case in this phase
    Timeout(String),
}

fn worker_binary() -> PathBuf {
    if let Ok(p) = std::env::var("C19_WORKER_BIN") {
        return PathBuf::from(p);
    }
    let mut p = std::env::current_exe().unwrap_or_default();
    p.pop();
    p.join("c19_corpus")
}

impl Worker {
    fn spawn() -> Result<Worker, String> {
        let bin = worker_binary();
        let n = COUNTER.fetch_add(1, Ordering::Relaxed);
        let dir = tmp_base().join(format!("stamverif-c19-{}-{}", std::process::id(), n));
        std::fs::create_dir_all(&dir).map_err(|e| format!("cannot create {}: {}", dir.display(), e))?;
        let log = std::fs::OpenOptions::new()
            .create(true)
            .append(true)
            .open(dir.join("stderr.log"))
            .map_err(|e| format!("cannot create the worker log: {}", e))?;
        let mut child = std::process::Command::new(&bin)
            .arg("worker")
            .arg(&dir)
            .stdin(std::process::Stdio::piped())
            .stdout(std::process::Stdio::piped())
            .stderr(std::process::Stdio::from(log))
            .spawn()
            .map_err(|e| format!("cannot start the worker {}: {}", bin.display(), e))?;
        let stdin = child.stdin.take().ok_or("no stdin")?;
        let stdout = BufReader::new(child.stdout.take().ok_or("no stdout")?);
        Ok(Worker { child, stdin, stdout, dir })
    }

    fn ask(&mut self, line: &str) -> Answer {
        let sent = self.stdin.write_all(line.as_bytes()).and_then(|_| self.stdin.write_all(b"\n")).and_then(|_| self.stdin.flush());
        let mut answer = String::new();
        let got = if sent.is_ok() { self.stdout.read_line(&mut answer).unwrap_or(0) } else { 0 };
        if got > 0 {
            if let Ok(w) = serde_json::from_str::<Wire>(&answer) {
                if w.timeout {
                    let _ = self.child.wait();
                    return Answer::Timeout(w.phase);
                }
                return Answer::Done(w);
            }
        }
        // the worker is gone (or answered garbage): find out why
        let _ = self.child.kill();
        let status = self.child.wait().ok();
        let log = std::fs::read(self.dir.join("stderr.log")).map(|b| String::from_utf8_lossy(&b).to_string()).unwrap_or_default();
        let kind = if log.contains("has overflowed its stack") {
            "stack-overflow".to_string()
        } else if log.contains("memory allocation of") {
            "alloc".to_string()
        } else {
            use std::os::unix::process::ExitStatusExt;
            match status {
                Some(s) => match (s.signal(), s.code()) {
                    (Some(sig), _) => format!("signal-{}", sig),
                    (_, Some(c)) => format!("exit-{}", c),
                    _ => "unknown".into(),
                },
                None => "unknown".into(),
            }
        };
        let phase = log.lines().rev().find_map(|l| l.strip_prefix("C19-PHASE ")).unwrap_or("start").to_string();
        let tail: String = {
            let lines: Vec<&str> = log.lines().filter(|l| !l.starts_with("C19-PHASE")).collect();
            match lines.iter().find(|l| l.contains("memory allocation of") || l.contains("has overflowed its stack")) {
                Some(l) => l.trim().to_string(),
                None => lines[lines.len().saturating_sub(4)..].join(" / "),
            }
        };
        Answer::Died(kind, phase, tail.chars().take(400).collect())
    }
}

impl Drop for Worker {
    fn drop(&mut self) {
        let _ = self.child.kill();
        let _ = self.child.wait();
        let _ = std::fs::remove_dir_all(&self.dir);
    }
}

thread_local! {
    static WORKER: RefCell<Option<Worker>> = RefCell::new(None);
}

fn infrastructure_failure(msg: &str) -> ! {
    println!("ERROR property=C19 {} (infrastructure problem, not a violation)", msg);
    std::process::exit(2)
}

fn ask_fresh(line: &str) -> Answer {
    match Worker::spawn() {
        Ok(mut w) => w.ask(line),
        Err(e) => infrastructure_failure(&e),
    }
}

fn format_of(case: &Case) -> &'static str {
    match case {
        Case::Doc { mode, .. } => mode.format(),
        Case::Raw { target, .. } => match target.as_str() {
            "c19_csv" => "csv",
            "c19_cbor" => "cbor",
            _ => "json",
        },
        Case::Parse { .. } => "string",
    }
}

/// run a case in a worker process; a dying worker becomes a failure of this one case
pub fn run_in_worker(case: &Case) -> Outcome {
    let line = match serde_json::to_string(case) {
        Ok(l) => l,
        Err(e) => {
            let mut o = Outcome::new();
            o.skip(&format!("case not serialisable: {}", e));
            return o;
        }
    };
    // engine worker threads keep one child each; the main thread (replays) uses a child per case so that
    // nothing outlives the process
    let persistent = std::thread::current().name() != Some("main");
    let answer = if persistent {
        WORKER.with(|w| {
            let mut w = w.borrow_mut();
            if w.is_none() {
                match Worker::spawn() {
                    Ok(x) => *w = Some(x),
                    Err(e) => infrastructure_failure(&e),
                }
            }
            let a = w.as_mut().unwrap().ask(&line);
            if !matches!(a, Answer::Done(_)) {
                *w = None; // drop => removes its directory
            }
            a
        })
    } else {
        ask_fresh(&line)
    };
    match answer {
        Answer::Done(w) => w.into_outcome(),
        Answer::Timeout(ph) if ph.ends_with("-cbor") => {
            let mut o = Outcome::new();
            o.label("fmt:cbor");
            o.label("outcome:ok");
            o.label("use-of-cbor-store-timed-out");
            o.nontrivial = true;
            o.fail(
                "hang",
                "cbor-unvalidated|hang",
                format!("using the store returned by the CBOR reader did not finish within {} s (phase {:?})", CBOR_USE_TIMEOUT_S, ph),
            );
            o
        }
        Answer::Timeout(_) => {
            let dir = verif_root().join("replays");
            let _ = std::fs::create_dir_all(&dir);
            let path = dir.join(format!("C19-timeout-{}.json", std::process::id()));
            let _ = std::fs::write(&path, serde_json::json!({"property": "C19", "seed": 0, "case": case, "failures": []}).to_string());
            println!(
                "INCONCLUSIVE property=C19 one case exceeded the wall-clock limit of {} s (not a violation); case saved at {}",
                CASE_TIMEOUT_S,
                path.display()
            );
            std::process::exit(2)
        }
        Answer::Died(kind, phase, tail) => {
            // attribute only what reproduces with this case alone in a fresh worker
            let again = ask_fresh(&line);
            let mut o = Outcome::new();
            o.label("outcome:abort");
            match again {
                Answer::Died(kind2, phase2, tail2) if kind2 == kind => {
                    if phase2 == "prepare" || phase2 == "start" {
                        // died while the *valid* documents were being produced: not a loader matter
                        o.label("stopped_at_foreign_divergence");
                        return o;
                    }
                    let stage = if phase2 == "load" { "load" } else { "use-after-load" };
                    o.nontrivial = true;
                    let sig = if phase2.ends_with("-cbor") {
                        // using a store that the (non-validating) CBOR reader returned
                        format!("cbor-unvalidated|abort|{}", kind)
                    } else {
                        format!("abort|{}|{}|{}", kind, format_of(case), stage)
                    };
                    o.fail("abort", sig, format!("the process died ({}) in phase {:?}: {}", kind2, phase2, tail2));
                }
                _ => {
                    o.fail(
                        "flaky",
                        format!("abort-not-reproducible|{}", kind),
                        format!("a worker died ({}, phase {:?}: {}) but the case alone does not reproduce it", kind, phase, tail),
                    );
                }
            }
            o
        }
    }
}

// ================================================================================================
// strategies

fn idx() -> BoxedStrategy<u16> {
    prop_oneof![6 => any::<u16>(), 1 => Just(0u16), 1 => Just(u16::MAX)].boxed()
}

fn file_idx() -> BoxedStrategy<u16> {
    prop_oneof![2 => Just(0u16), 3 => any::<u16>()].boxed()
}

fn field() -> BoxedStrategy<Field> {
    prop_oneof![
        4 => Just(Field::Any),
        2 => Just(Field::Id),
        1 => Just(Field::Include),
        2 => Just(Field::Ref),
        1 => Just(Field::Type),
        2 => Just(Field::Top),
        1 => Just(Field::Value),
    ]
    .boxed()
}

fn rename() -> BoxedStrategy<Mutation> {
    // (identifiers that stay free of the separators of the formats, mostly: the documents should still load)
    let part = || {
        (prop_oneof![3 => Just(0u8), 1 => 0u8..HOSTILE_PREFIX.len() as u8], proptest::collection::vec(prop_oneof![9 => 0u8..31, 1 => 31u8..HOSTILE_CHARS.len() as u8], 0..=12), prop_oneof![5 => Just(0u8), 2 => 1u8..=HOSTILE_FIT.len() as u8])
            .prop_map(|(pre, body, fit)| HStr { pre, body, num: 0, fit })
    };
    (part(), part(), any::<bool>()).prop_map(|(pre, post, values)| Mutation::Rename { pre, post, values }).boxed()
}

fn nchoice() -> BoxedStrategy<NChoice> {
    prop_oneof![3 => (0u8..4).prop_map(NChoice::Abs), 3 => (4u8..TEMP_N.len() as u8).prop_map(NChoice::Abs), 3 => (-2i8..=3).prop_map(NChoice::Rel)].boxed()
}

fn classic_temp() -> BoxedStrategy<StrChoice> {
    (prop_oneof![8 => 0u8..3, 2 => 3u8..8], nchoice()).prop_map(|(letter, n)| StrChoice::Temp { letter, n }).boxed()
}

/// index into HOSTILE_CHARS: the multi-byte ones (the first 31) more often than the ASCII ones
fn hchar() -> BoxedStrategy<u8> {
    prop_oneof![6 => 0u8..31, 2 => 31u8..HOSTILE_CHARS.len() as u8].boxed()
}

fn hbody() -> BoxedStrategy<Vec<u8>> {
    prop_oneof![
        6 => proptest::collection::vec(hchar(), 0..=4),
        3 => proptest::collection::vec(hchar(), 4..=16),
        1 => proptest::collection::vec(hchar(), 40..=90),
    ]
    .boxed()
}

/// any hostile string
fn hstr() -> BoxedStrategy<HStr> {
    (
        prop_oneof![1 => Just(0u8), 4 => 0u8..HOSTILE_PREFIX.len() as u8],
        hbody(),
        prop_oneof![3 => Just(0u8), 2 => 1u8..=TEMP_N.len() as u8],
        prop_oneof![5 => Just(0u8), 2 => 1u8..=HOSTILE_FIT.len() as u8],
    )
        .prop_map(|(pre, body, num, fit)| HStr { pre, body, num, fit })
        .boxed()
}

/// '!' followed by anything: what a temporary id looks like at first sight
fn bang_hstr() -> BoxedStrategy<HStr> {
    (
        // "!" three times, "!A" .. "!S", "!!" in HOSTILE_PREFIX
        prop_oneof![6 => 2u8..5, 3 => 5u8..10, 1 => Just(10u8), 1 => Just(26u8)],
        prop_oneof![1 => Just(vec![]), 6 => proptest::collection::vec(hchar(), 1..=3), 1 => proptest::collection::vec(hchar(), 4..=12)],
        prop_oneof![2 => Just(0u8), 3 => 1u8..=TEMP_N.len() as u8],
        prop_oneof![9 => Just(0u8), 1 => 1u8..=HOSTILE_FIT.len() as u8],
    )
        .prop_map(|(pre, body, num, fit)| HStr { pre, body, num, fit })
        .boxed()
}

/// temporary ids: well-formed `!A<n>` and everything that merely starts like one
fn temp_choice() -> BoxedStrategy<StrChoice> {
    prop_oneof![3 => classic_temp(), 2 => bang_hstr().prop_map(StrChoice::Hostile)].boxed()
}

fn str_choice() -> BoxedStrategy<StrChoice> {
    prop_oneof![
        4 => idx().prop_map(StrChoice::Harvest),
        3 => temp_choice(),
        3 => (0u8..SPECIAL_STR.len() as u8).prop_map(StrChoice::Special),
        1 => idx().prop_map(StrChoice::FileName),
        1 => Just(StrChoice::OwnFile),
        4 => hstr().prop_map(StrChoice::Hostile),
    ]
    .boxed()
}

fn byte_mutations() -> BoxedStrategy<Mutation> {
    prop_oneof![
        2 => (file_idx(), any::<u16>()).prop_map(|(file, at)| Mutation::Truncate { file, at }),
        3 => (file_idx(), any::<u16>(), 0u8..8).prop_map(|(file, pos, bit)| Mutation::FlipBit { file, pos, bit }),
        2 => (file_idx(), any::<u16>(), any::<u8>(), any::<u16>()).prop_map(|(file, src, len, dst)| Mutation::Splice { file, src, len, dst }),
        1 => (file_idx(), any::<u16>(), 0u8..INSERTS.len() as u8).prop_map(|(file, pos, what)| Mutation::Insert { file, pos, what }),
    ]
    .boxed()
}

fn file_mutations() -> BoxedStrategy<Mutation> {
    prop_oneof![
        2 => idx().prop_map(|file| Mutation::FileDrop { file }),
        1 => (idx(), idx()).prop_map(|(a, b)| Mutation::FileSwap { a, b }),
        3 => idx().prop_map(|file| Mutation::FileSelfInclude { file }),
        2 => (idx(), idx()).prop_map(|(a, b)| Mutation::FileMutualInclude { a, b }),
        1 => idx().prop_map(|file| Mutation::FileCopyMain { file }),
        3 => (idx(), hstr(), 0u8..3).prop_map(|(file, name, via)| Mutation::FileRename { file, name, via }),
    ]
    .boxed()
}

/// a ladder of temporary ids over one list: mostly the whole list, often grown to 16-48 items first, so that what each
/// rung costs adds up
fn ladder() -> BoxedStrategy<Mutation> {
    (
        file_idx(),
        prop_oneof![3 => Just(0u8), 4 => Just(1u8), 2 => Just(2u8), 1 => Just(3u8)],
        any::<u16>(),
        prop_oneof![2 => Just(0u8), 1 => Just(1u8), 2 => Just(2u8), 2 => Just(3u8), 3 => Just(4u8), 3 => Just(5u8)],
        (prop_oneof![4 => Just(0u16), 1 => any::<u16>()], prop_oneof![4 => Just(0u8), 1 => 2u8..=40]),
        prop_oneof![5 => Just(0u8), 1 => 1u8..=TEMP_LETTERS.len() as u8],
        0u8..LADDER_STEPS.len() as u8,
        prop_oneof![3 => Just(0u8), 1 => 1u8..3],
    )
        .prop_map(|(file, list, which, grow, (start, run), letter, step, jitter)| Mutation::JLadder { file, list, which, grow, start, run, letter, step, jitter })
        .boxed()
}

fn json_mutation() -> BoxedStrategy<Mutation> {
    prop_oneof![
        4 => ladder(),
        3 => (file_idx(), idx(), temp_choice()).prop_map(|(file, nth, val)| Mutation::JStr { file, field: Field::Id, nth, val }),
        7 => (file_idx(), 0u8..ID_LISTS.len() as u8, idx(), temp_choice()).prop_map(|(file, k, nth, val)| Mutation::JStr { file, field: Field::IdOf(k), nth, val }),
        2 => (file_idx(), 0u8..ID_LISTS.len() as u8, idx(), str_choice()).prop_map(|(file, k, nth, val)| Mutation::JStr { file, field: Field::IdOf(k), nth, val }),
        4 => (file_idx(), idx(), str_choice()).prop_map(|(file, nth, val)| Mutation::JStr { file, field: Field::Ref, nth, val }),
        1 => (file_idx(), idx(), str_choice()).prop_map(|(file, nth, val)| Mutation::JStr { file, field: Field::Include, nth, val }),
        2 => (file_idx(), idx(), str_choice()).prop_map(|(file, nth, val)| Mutation::JStr { file, field: Field::Id, nth, val }),
        3 => (file_idx(), field(), idx(), str_choice()).prop_map(|(file, field, nth, val)| Mutation::JStr { file, field, nth, val }),
        2 => (file_idx(), idx(), hstr()).prop_map(|(file, nth, h)| Mutation::JStr { file, field: Field::Value, nth, val: StrChoice::Hostile(h) }),
        3 => rename(),
        5 => (file_idx(), field(), idx()).prop_map(|(file, field, nth)| Mutation::JDelete { file, field, nth }),
        4 => (file_idx(), field(), idx()).prop_map(|(file, field, nth)| Mutation::JDuplicate { file, field, nth }),
        4 => (file_idx(), field(), idx(), 0u8..3).prop_map(|(file, field, nth, to)| Mutation::JMove { file, field, nth, to }),
        4 => (file_idx(), field(), idx(), 0u8..RETYPES).prop_map(|(file, field, nth, to)| Mutation::JRetype { file, field, nth, to }),
        6 => (file_idx(), idx(), 0u8..NUMS.len() as u8).prop_map(|(file, nth, val)| Mutation::JNum { file, nth, val }),
        3 => (file_idx(), prop_oneof![2 => Just(0u16), 1 => any::<u16>()], 0u8..ADD_KEYS.len() as u8, str_choice()).prop_map(|(file, nth, key, val)| Mutation::JAdd { file, nth, key, val }),
        3 => file_mutations(),
        4 => byte_mutations(),
    ]
    .boxed()
}

fn cell_choice() -> BoxedStrategy<CellChoice> {
    prop_oneof![
        3 => idx().prop_map(CellChoice::Harvest),
        6 => (0u8..SPECIAL_CELL.len() as u8).prop_map(CellChoice::Special),
        2 => (0u8..8, 0u8..TEMP_N.len() as u8).prop_map(|(letter, n)| CellChoice::Temp { letter, n }),
        3 => (0u8..SPECIAL_CELL.len() as u8).prop_map(CellChoice::Append),
        2 => idx().prop_map(CellChoice::AppendHarvest),
        2 => Just(CellChoice::DropLast),
        1 => (0u8..6).prop_map(CellChoice::Repeat),
        3 => prop_oneof![hstr(), bang_hstr()].prop_map(CellChoice::Hostile),
        2 => hstr().prop_map(CellChoice::AppendHostile),
        2 => hstr().prop_map(CellChoice::PrependHostile),
        1 => (hstr(), hstr()).prop_map(|(a, b)| CellChoice::Wrap(a, b)),
    ]
    .boxed()
}

fn csv_file_idx() -> BoxedStrategy<u16> {
    // the annotations file is the interesting one; the others get their share
    any::<u16>().boxed()
}

/// index into SELECTOR_NAMES: the simple kinds, the complex kinds, what is neither
fn sel_name() -> BoxedStrategy<u8> {
    prop_oneof![6 => 0u8..6, 3 => 6u8..9, 2 => 9u8..SELECTOR_NAMES.len() as u8].boxed()
}

/// the SelectorType cell of a row rewritten, the parallel columns following (or deliberately not)
fn csv_selector() -> BoxedStrategy<Mutation> {
    (
        idx(),
        prop_oneof![4 => Just(false), 1 => Just(true)],
        prop_oneof![
            6 => Just(SelEdit::Replace),
            3 => Just(SelEdit::Head),
            2 => Just(SelEdit::Prepend),
            2 => Just(SelEdit::Append),
            2 => any::<u16>().prop_map(SelEdit::At),
            2 => Just(SelEdit::DropHead),
            2 => (0u8..4).prop_map(SelEdit::RepeatHead),
        ],
        prop_oneof![
            2 => proptest::collection::vec(sel_name(), 1..=1),
            4 => proptest::collection::vec(sel_name(), 2..=3),
            1 => proptest::collection::vec(sel_name(), 4..=6),
            // one kind repeated
            1 => (sel_name(), 2usize..=4).prop_map(|(k, n)| vec![k; n]),
        ],
        prop_oneof![
            5 => Just(SelCols::Repair),
            2 => Just(SelCols::Keep),
            3 => (prop_oneof![1 => Just(0u8), 2 => 1u8..128], 0u8..5).prop_map(|(cols, how)| SelCols::RepairThen { cols, how }),
        ],
        any::<u16>(),
    )
        .prop_map(|(row, fresh, edit, types, cols, salt)| Mutation::CsvSel { row, fresh, edit, types, cols, salt })
        .boxed()
}

fn csv_mutation() -> BoxedStrategy<Mutation> {
    prop_oneof![
        6 => csv_selector(),
        12 => (csv_file_idx(), idx(), idx(), cell_choice()).prop_map(|(file, row, col, val)| Mutation::Cell { file, row, col, val }),
        1 => (csv_file_idx(), idx()).prop_map(|(file, row)| Mutation::RowDup { file, row }),
        1 => (csv_file_idx(), idx()).prop_map(|(file, row)| Mutation::RowDel { file, row }),
        1 => (csv_file_idx(), idx()).prop_map(|(file, row)| Mutation::RowSwap { file, row }),
        1 => (csv_file_idx(), idx()).prop_map(|(file, col)| Mutation::ColDel { file, col }),
        1 => (csv_file_idx(), idx()).prop_map(|(file, col)| Mutation::ColSwap { file, col }),
        1 => idx().prop_map(|file| Mutation::FileDrop { file }),
        1 => (idx(), idx()).prop_map(|(a, b)| Mutation::FileSwap { a, b }),
        3 => byte_mutations(),
        2 => rename(),
        1 => (idx(), hstr(), 0u8..3).prop_map(|(file, name, via)| Mutation::FileRename { file, name, via }),
    ]
    .boxed()
}

fn len_choice() -> BoxedStrategy<LenChoice> {
    prop_oneof![
        3 => prop_oneof![Just(1i8), Just(-1i8), Just(2i8), -4i8..=100].prop_map(LenChoice::Delta),
        6 => (0u8..HEAD_LENS.len() as u8).prop_map(LenChoice::Abs),
        1 => (0u8..62).prop_map(LenChoice::Shift),
        1 => Just(LenChoice::Indef),
    ]
    .boxed()
}

fn int_choice() -> BoxedStrategy<IntChoice> {
    prop_oneof![
        3 => (0u8..CBOR_INTS.len() as u8).prop_map(IntChoice::Abs),
        4 => prop_oneof![Just(1i8), Just(-1i8), -8i8..=8].prop_map(IntChoice::Rel),
        3 => idx().prop_map(IntChoice::Harvest),
    ]
    .boxed()
}

fn cbor_mutation() -> BoxedStrategy<Mutation> {
    prop_oneof![
        10 => (any::<u16>(), int_choice()).prop_map(|(nth, val)| Mutation::CInt { nth, val }),
        2 => any::<u16>().prop_map(|nth| Mutation::CDelete { nth }),
        2 => any::<u16>().prop_map(|nth| Mutation::CDup { nth }),
        2 => any::<u16>().prop_map(|nth| Mutation::CSwap { nth }),
        3 => (any::<u16>(), 0u8..8).prop_map(|(nth, to)| Mutation::CRetype { nth, to }),
        2 => (any::<u16>(), str_choice()).prop_map(|(nth, val)| Mutation::CStr { nth, val }),
        // lying length prefixes: every header of the document, and every path class of headers, gets its share
        3 => (any::<u16>(), len_choice()).prop_map(|(nth, len)| Mutation::CLen { class: None, nth, len }),
        4 => (any::<u16>(), any::<u16>(), len_choice()).prop_map(|(class, nth, len)| Mutation::CLen { class: Some(class), nth, len }),
        1 => rename(),
        2 => any::<u16>().prop_map(|at| Mutation::Truncate { file: 0, at }),
        4 => (any::<u16>(), 0u8..8).prop_map(|(pos, bit)| Mutation::FlipBit { file: 0, pos, bit }),
        2 => (any::<u16>(), any::<u8>(), any::<u16>()).prop_map(|(src, len, dst)| Mutation::Splice { file: 0, src, len, dst }),
    ]
    .boxed()
}

fn some_of(m: BoxedStrategy<Mutation>) -> BoxedStrategy<Vec<Mutation>> {
    // (variable-length vectors, so that shrinking can drop the mutations a failure does not need)
    prop_oneof![
        5 => proptest::collection::vec(m.clone(), 1..=1),
        4 => proptest::collection::vec(m.clone(), 1..=2),
        1 => proptest::collection::vec(m, 1..=3),
    ]
    .boxed()
}

fn hist_cfg(tier: Tier) -> HistCfg {
    HistCfg {
        max_ops: tier.pick(12, 28),
        text_max: 12,
        removal_weight: 2,
        protect_weight: 0,
        complex_weight: 2,
        ..HistCfg::default()
    }
}

fn parse_strategy() -> BoxedStrategy<Case> {
    let edit = |seeds: Vec<&'static str>| -> BoxedStrategy<String> {
        let seed = proptest::sample::select(seeds);
        prop_oneof![
            3 => seed.clone().prop_map(|s| s.to_string()),
            2 => (seed.clone(), proptest::sample::select(vec!["", " ", "-", "+", "0", "\u{0}", "é", "9", "e9", ";", "\n"]), any::<bool>()).prop_map(|(s, x, front)| if front { format!("{}{}", x, s) } else { format!("{}{}", s, x) }),
            1 => (seed.clone(), any::<u16>()).prop_map(|(s, at)| {
                let cs: Vec<char> = s.chars().collect();
                if cs.is_empty() { String::new() } else { cs[..pick(at, cs.len())].iter().collect() }
            }),
            1 => (seed.clone(), seed.clone()).prop_map(|(a, b)| format!("{}{}", a, b)),
            1 => seed.clone().prop_map(|s| s.to_uppercase()),
            1 => "\\PC{0,12}".prop_map(|s| s),
            1 => (proptest::sample::select(NUMS.to_vec()), any::<bool>()).prop_map(|(n, neg)| if neg && !n.starts_with('-') { format!("-{}", n) } else { n.to_string() }),
        ]
        .boxed()
    };
    let json_edit = |seeds: Vec<&'static str>| -> BoxedStrategy<String> {
        // structured edits of the seed through the JSON mutators
        (proptest::sample::select(seeds), proptest::collection::vec(json_mutation(), 0..=2))
            .prop_map(|(s, muts)| {
                let mut docs: DocSet = vec![("x.json".to_string(), s.as_bytes().to_vec())];
                for m in &muts {
                    apply(&mut docs, m);
                }
                docs.first().map(|d| String::from_utf8_lossy(&d.1).to_string()).unwrap_or_default()
            })
            .boxed()
    };
    // long inputs dense in multi-byte characters, malformed at varied positions: any excerpt of fixed byte width
    // that an error path takes falls inside a character more often than not
    let chars = |n: std::ops::RangeInclusive<usize>| proptest::collection::vec(hchar(), n).prop_map(|v| v.into_iter().map(|i| HOSTILE_CHARS[i as usize % HOSTILE_CHARS.len()]).collect::<Vec<char>>());
    let dense_json = move |seeds: Vec<&'static str>| -> BoxedStrategy<String> {
        (
            proptest::sample::select(seeds),
            (chars(1..=4), prop_oneof![2 => 0usize..=60, 4 => 60usize..=200, 2 => 200usize..=600, 1 => 1400usize..=1600]),
            (chars(1..=3), 0usize..=30),
            0usize..=3,
            proptest::collection::vec(json_mutation(), 0..=2),
            // 0: whole, 1: cut at a character boundary, 2: a stray token at a character boundary, 3: cut + closed again
            (0u8..=3, any::<u16>(), 0u8..INSERTS.len() as u8),
        )
            .prop_map(|(seed, (lead, lead_len), (fill, fill_len), phase, muts, (how, at, tok))| {
                let doc = inflate(seed, lead_len, &lead, fill_len, &fill, phase);
                let mut docs: DocSet = vec![("x.json".to_string(), doc.into_bytes())];
                for m in &muts {
                    apply(&mut docs, m);
                }
                let doc = docs.first().map(|d| String::from_utf8_lossy(&d.1).to_string()).unwrap_or_default();
                let bs = char_boundaries(&doc);
                if bs.is_empty() || how == 0 {
                    return doc;
                }
                let b = bs[pick(at, bs.len())];
                match how {
                    1 => doc[..b].to_string(),
                    2 => format!("{}{}{}", &doc[..b], INSERTS[tok as usize % INSERTS.len()], &doc[b..]),
                    _ => format!("{}\"}}", &doc[..b]),
                }
            })
            .boxed()
    };
    let dense_plain = |seeds: Vec<&'static str>| -> BoxedStrategy<String> {
        (proptest::sample::select(seeds), hstr(), hstr(), 0u8..4)
            .prop_map(|(seed, a, b, how)| {
                let (mut a, mut b) = (a, b);
                // (long more often than the general hostile string is)
                if a.fit == 0 && how % 2 == 0 {
                    a.fit = 1 + (a.pre % HOSTILE_FIT.len() as u8);
                }
                if b.fit == 0 && how == 3 {
                    b.fit = 1 + (b.pre % HOSTILE_FIT.len() as u8);
                }
                b.pre = 0;
                match how {
                    0 => a.render(),
                    1 => format!("{}{}", seed, a.render()),
                    2 => format!("{}{}", a.render(), seed),
                    _ => format!("{}{}{}", a.render(), seed, b.render()),
                }
            })
            .boxed()
    };
    prop_oneof![
        2 => edit(PARSE_SEEDS.to_vec()).prop_map(|input| Case::Parse { what: ParseKind::Cursor, input }),
        1 => edit(PARSE_SEEDS.to_vec()).prop_map(|input| Case::Parse { what: ParseKind::Type, input }),
        1 => edit(PARSE_SEEDS.to_vec()).prop_map(|input| Case::Parse { what: ParseKind::SelectorKind, input }),
        1 => edit(PARSE_SEEDS.to_vec()).prop_map(|input| Case::Parse { what: ParseKind::DataFormat, input }),
        2 => json_edit(OFFSET_SEEDS.to_vec()).prop_map(|input| Case::Parse { what: ParseKind::OffsetJson, input }),
        2 => json_edit(BUILDER_SEEDS.to_vec()).prop_map(|input| Case::Parse { what: ParseKind::BuilderJson, input }),
        1 => json_edit(CURSOR_SEEDS.to_vec()).prop_map(|input| Case::Parse { what: ParseKind::CursorJson, input }),
        1 => dense_plain(PARSE_SEEDS.to_vec()).prop_map(|input| Case::Parse { what: ParseKind::Cursor, input }),
        1 => dense_plain(PARSE_SEEDS.to_vec()).prop_map(|input| Case::Parse { what: ParseKind::Type, input }),
        1 => dense_plain(PARSE_SEEDS.to_vec()).prop_map(|input| Case::Parse { what: ParseKind::SelectorKind, input }),
        1 => dense_plain(PARSE_SEEDS.to_vec()).prop_map(|input| Case::Parse { what: ParseKind::DataFormat, input }),
        3 => dense_json(OFFSET_SEEDS.to_vec()).prop_map(|input| Case::Parse { what: ParseKind::OffsetJson, input }),
        4 => dense_json(BUILDER_SEEDS.to_vec()).prop_map(|input| Case::Parse { what: ParseKind::BuilderJson, input }),
        1 => dense_json(CURSOR_SEEDS.to_vec()).prop_map(|input| Case::Parse { what: ParseKind::CursorJson, input }),
    ]
    .boxed()
}

pub fn case_strategy(tier: Tier) -> BoxedStrategy<Case> {
    let h = || history_strategy(hist_cfg(tier));
    let json_modes = prop_oneof![
        6 => Just(Mode::JsonStr),
        2 => Just(Mode::JsonFile),
        4 => any::<bool>().prop_map(|json_resources| Mode::JsonStandoff { json_resources }),
        6 => (any::<u16>(), any::<bool>(), any::<bool>()).prop_map(|(cut, standoff, share)| Mode::JsonSubstore { cut, standoff, share }),
        2 => Just(Mode::AnnotateFromFile),
        2 => Just(Mode::BuilderFromStr),
        1 => Just(Mode::DatasetFile { csv: false }),
        1 => Just(Mode::ResourceFile { json: true }),
    ];
    prop_oneof![
        10 => (h(), json_modes, some_of(json_mutation())).prop_map(|(hist, mode, muts)| Case::Doc { hist, mode, muts }),
        5 => (h(), prop_oneof![8 => Just(Mode::Csv), 1 => Just(Mode::DatasetFile { csv: true })], some_of(csv_mutation())).prop_map(|(hist, mode, muts)| Case::Doc { hist, mode, muts }),
        5 => (h(), Just(Mode::Cbor), some_of(cbor_mutation())).prop_map(|(hist, mode, muts)| Case::Doc { hist, mode, muts }),
        1 => (h(), Just(Mode::ResourceFile { json: false }), some_of(byte_mutations())).prop_map(|(hist, mode, muts)| Case::Doc { hist, mode, muts }),
        2 => parse_strategy(),
    ]
    .boxed()
}

// ================================================================================================
// the property

impl Property for C19 {
    type Case = Case;
    fn id(&self) -> &'static str {
        "C19"
    }
    fn rule(&self) -> String {
        "case = a valid document set written from the final store of a generated history (STAM JSON: one document through from_str / from_file, resources and datasets in @include stand-off files, an included sub-store; STAM CSV store; CBOR; plus annotate_from_file, AnnotationBuilder::from_json_str + annotate, AnnotationDataSet::from_file, TextResource::from_file) with 1-3 mutations applied: structured JSON edits on an order-preserving tree (delete / duplicate / reorder / retype a member; numbers 0, -1, 2^31, 2^63, isize::MIN, 2^64, 10^30; strings replaced by ids of other items (dangling, forward and cyclic references, duplicate ids), by temporary ids !A<n> !D<n> !K<n> with n from 0 to 10^30 or relative to the list length, by file names (missing, own file, other file); a ladder of temporary ids !<L><k x step + jitter> laid over successive items (mostly all) of one list of annotations, data or keys, step from {1, 2, 1000, 60000, 65535, 65536, 65537, 10^6}, the list often grown to 16-48 items first by repeating its items; added members; self- and mutually-including files), CSV cell / row / column edits (unknown and mismatched selector kinds, ';' lists of unequal length, empty cells, huge offsets) and a column-aware rewrite of a row (or a new row) of the annotations table: the SelectorType cell becomes a list of 1-6 names drawn from all simple kinds, all complex kinds, unknown, lower-case and empty names (replaced, head retyped, head dropped, prepended, appended, a later position retyped, head repeated), while the parallel Target* / *Offset columns are rebuilt as ';' lists of the same length with values that exist in the document where the kind at that position reads the column, or are left alone, or get another length (shorter, longer, collapsed, emptied) in some or all columns, CBOR edits on a generic decoded tree (handles and lengths changed, elements deleted / duplicated / swapped / retyped; lying length prefixes: the definite-length headers of the document are enumerated with their path class - chain of container kinds, record positions kept, list positions not - and one of them, chosen by index over all headers or over the headers of one class, announces the real length +-d, 0 .. 2^16 .. 2^31 .. 2^32 .. 2^63 .. u64::MAX, the real length x 2^k or an indefinite length, the rest of the file unchanged) and byte edits (truncate, flip, splice, insert). Strings put into ids, references, keys, values, file names and CSV cells also come from a hostile alphabet: a prefix the library tests for ('!', '!A', '_:', 'http', 'file://', '#', ';' ...) followed by 0-90 characters of 1-4 bytes in upper / lower / title case, digits and marks, optionally a number, optionally stretched beyond 120 / 256 / 1024 / 4096 bytes; in CSV also before and after the ';' of a list; and one mutation renames every identifier of the document set consistently to such a string + id + such a string (the documents still load). Or a string for Cursor / Type / SelectorKind / DataFormat::try_from, Offset and Cursor JSON, AnnotationBuilder::from_json_str: valid spellings edited, and long inputs dense in multi-byte characters (every free string of a JSON seed replaced, a leading member of up to 1600 characters, 0-3 bytes of shift) that are malformed by the JSON mutators, by a cut or a stray token at a character boundary; enumerated: every seed document made dense and cut at every character boundary, and with a leading string of 60 / 400 / 1500 three-byte characters shifted by 0, 1, 2 bytes (every byte offset inside it falls inside a character for two of the three shifts) cut, with a member missing or retyped. Or a raw fuzz input. Every case runs in a child process with a counting allocator. Oracle: no panic; the child survives (no stack overflow, no failed allocation); peak live bytes during the load <= 64 MiB + 4096 x input bytes; allocation calls <= 10^6 + 10^3 x input bytes; if the loader returns Ok: the forward references of the store are sound (every handle names a live item, annotation selectors point backwards), then full observation, the model-free C01-C03 consistency battery, to_json_string and five queries complete without panic and find the store consistent. Whatever goes wrong when a store returned by the CBOR reader is used (it validates nothing) is grouped under the signature prefix cbor-unvalidated|. Non-trivial = the mutated documents differ in meaning from their parents and every changed file still parses syntactically in its format (so the loader gets past syntax); for strings: not one of the valid spellings. Distinct = distinct case JSON.".into()
    }
    fn assumptions(&self) -> Vec<String> {
        vec![
            "time proportional to the input is decided through the deterministic allocation-count proxy; a wall-clock time-out (30 s per case) is reported as inconclusive (exit 2), never as a violation".into(),
            "file names that point into /dev, /proc or /sys are outside the domain (reading an endless device is not a loader defect)".into(),
            "to_json_string of a loaded store is skipped when a stand-off file name in the document points outside the scratch directory (it could write there)".into(),
            "an Err result is accepted whatever its text; after Err nothing more is asked of the store".into(),
            "every load runs on its own thread with a 2 MiB stack (the default of a Rust thread); use of the loaded store on a 16 MiB thread".into(),
            "the CBOR documents that are mutated are the library's output re-encoded deterministically (map entries sorted, scratch path replaced): id maps are hash maps and come in a different order every time".into(),
            "using a store returned by the CBOR reader is given 8 s of wall-clock time (a ranged selector whose end was edited loops for 2^32 steps); running out of it is reported under cbor-unvalidated|hang, which the known finding covers".into(),
        ]
    }
    fn cases(&self, tier: Tier) -> u64 {
        tier.pick(80_000, 1_600_000)
    }
    fn strategy(&self, tier: Tier) -> BoxedStrategy<Case> {
        case_strategy(tier)
    }
    fn enumerate(&self, _tier: Tier) -> Vec<Case> {
        let mut v = vec![];
        for s in PARSE_SEEDS {
            for what in [ParseKind::Cursor, ParseKind::Type, ParseKind::SelectorKind, ParseKind::DataFormat] {
                v.push(Case::Parse { what, input: s.to_string() });
            }
        }
        for s in OFFSET_SEEDS {
            v.push(Case::Parse { what: ParseKind::OffsetJson, input: s.to_string() });
        }
        for s in BUILDER_SEEDS {
            v.push(Case::Parse { what: ParseKind::BuilderJson, input: s.to_string() });
        }
        for s in CURSOR_SEEDS {
            v.push(Case::Parse { what: ParseKind::CursorJson, input: s.to_string() });
        }
        v.extend(enumerate_dense());
        v
    }
    fn run(&self, case: &Case) -> Outcome {
        run_in_worker(case)
    }
    fn health(&self, labels: &std::collections::BTreeMap<String, u64>, evals: u64) -> Vec<String> {
        let mut v = vec![];
        let get = |k: &str| labels.get(k).copied().unwrap_or(0);
        let mutated = get("mutated");
        if evals > 2000 {
            let valid = get("syntax:valid");
            if (valid as f64) < 0.40 * evals as f64 {
                v.push(format!("only {} of {} cases are non-trivial mutated documents (< 40%)", valid, evals));
            }
            if (get("mutated-and-ok") as f64) < 0.15 * mutated.max(1) as f64 {
                v.push(format!("only {} of {} mutated document sets still load Ok (< 15%)", get("mutated-and-ok"), mutated));
            }
            for l in [
                "fmt:json",
                "fmt:csv",
                "fmt:cbor",
                "mut:json.tempid",
                "mut:json.include",
                "mut:csv.cell",
                "mut:csv.selector-list",
                "sel:simple-head+all-simple-after",
                "sel:complex-head+all-simple-after",
                "sel:complex-head-alone",
                "sel:complex-in-later-position",
                "sel:unknown-or-empty-entry",
                "selcols:same-length",
                "selcols:other-length",
                "mut:json.tempid-ladder",
                "ladder:annotations",
                "ladder:data",
                "ladder:keys",
                "ladder:rungs-16+",
                "ladder:step-65536",
                "mut:cbor.integer",
                "outcome:err",
                "mut:cbor.length-prefix",
                "headlen:2^31..2^32",
                "headlen:2^63..u64::MAX",
                "str:bang+multibyte-upper",
                "str:bang+letter+digits",
                "str:prefix+multibyte",
                "str:multibyte-next-to-semicolon",
                "str:renamed-consistently",
                "parse:long+rejected+multibyte-across-byte-120",
            ] {
                if get(l) == 0 {
                    v.push(format!("label {} never occurred", l));
                }
            }
        }
        v
    }
}

// ================================================================================================
// libFuzzer entry points (fuzz/fuzz_targets/c19_*.rs) and corpus helpers (src/bin/c19_corpus.rs)

struct FuzzState {
    known: Vec<Finding>,
    work: Scratch,
}

static FUZZ: std::sync::OnceLock<FuzzState> = std::sync::OnceLock::new();

extern "C" fn fuzz_cleanup() {
    if let Some(st) = FUZZ.get() {
        let _ = std::env::set_current_dir("/");
        let _ = std::fs::remove_dir_all(&st.work.0);
    }
}

extern "C" {
    fn atexit(cb: extern "C" fn()) -> i32;
}

pub fn fuzz_init() {
    install_panic_hook();
    unsafe {
        atexit(fuzz_cleanup);
    }
    // nothing the library does with "-" may block on the terminal
    let _ = detach_stdio();
    raise_nofile();
    alloc::set_hard_cap(HARD_CAP);
    FUZZ.get_or_init(|| FuzzState {
        known: load_findings("C19"),
        work: Scratch::new_in(&tmp_base(), &format!("stamverif-c19-fuzz-{}-", std::process::id())),
    });
}

pub fn fuzz_one(target: &str, data: &[u8]) {
    let st = FUZZ.get_or_init(|| FuzzState {
        known: load_findings("C19"),
        work: Scratch::new_in(&tmp_base(), &format!("stamverif-c19-fuzz-{}-", std::process::id())),
    });
    let case = Case::Raw {
        target: target.to_string(),
        data: Bytes::from_slice(data),
    };
    let out = match catch(|| run_local(&case, &st.work.0)) {
        Ok(o) => o,
        Err(p) => {
            let mut o = Outcome::new();
            report_panic(&mut o, "running the input", &p);
            o
        }
    };
    let unlisted: Vec<&Failure> = out.failures.iter().filter(|f| !st.known.iter().any(|k| !k.fixed && k.matches(f))).collect();
    if !unlisted.is_empty() {
        for f in &unlisted {
            eprintln!("C19 failure facet={} signature={} :: {}", f.facet, f.signature, f.detail);
        }
        // leave the scratch directory empty behind the crash
        let _ = std::fs::remove_dir_all(&st.work.0);
        std::process::abort();
    }
}

/// seed corpus: valid documents of `n` generated histories, as inputs of the three fuzz targets
pub fn emit_corpus(dir: &Path, n: usize) -> Result<usize, String> {
    use proptest::strategy::ValueTree;
    use proptest::test_runner::{Config as PConfig, RngAlgorithm, TestRng, TestRunner};
    install_panic_hook();
    let work = Scratch::new_in(&tmp_base(), &format!("stamverif-c19-emit-{}-", std::process::id()));
    let dir = &std::fs::canonicalize(dir).unwrap_or_else(|_| {
        let _ = std::fs::create_dir_all(dir);
        std::fs::canonicalize(dir).unwrap_or(dir.to_path_buf())
    });
    let _ = std::env::set_current_dir(&work.0);
    let mut runner = TestRunner::new_with_rng(PConfig::default(), TestRng::from_seed(RngAlgorithm::ChaCha, &[19u8; 32]));
    let strat = history_strategy(hist_cfg(Tier::Quick));
    let mut written = 0;
    for t in ["c19_json", "c19_csv", "c19_cbor"] {
        std::fs::create_dir_all(dir.join(t)).map_err(|e| e.to_string())?;
    }
    for i in 0..n {
        let hist = strat.new_tree(&mut runner).map_err(|e| e.to_string())?.current();
        let modes = [
            ("c19_json", Mode::JsonStr),
            ("c19_json", Mode::JsonStandoff { json_resources: i % 2 == 0 }),
            ("c19_json", Mode::JsonSubstore { cut: (i as u16).wrapping_mul(9973), standoff: i % 3 == 0, share: i % 2 == 1 }),
            ("c19_csv", Mode::Csv),
            ("c19_cbor", Mode::Cbor),
        ];
        for (k, (target, mode)) in modes.iter().enumerate() {
            if *target == "c19_json" && k != i % 3 {
                continue;
            }
            let mut out = Outcome::new();
            let Some(docs) = base_docs(&hist, mode, &work.0, &mut out) else { continue };
            let bytes = if *target == "c19_cbor" { docs[0].1.clone() } else { container_join(&docs) };
            std::fs::write(dir.join(target).join(format!("seed-{:03}-{}", i, mode.name())), bytes).map_err(|e| e.to_string())?;
            written += 1;
            if i < 9 {
                // the same documents with long non-ASCII identifiers everywhere (they still load), one of them in
                // the '!' + letter form of a temporary id: byte-level mutation does not invent multi-byte text
                let mut docs = docs;
                let fit = [0u8, 2, 4][i % 3];
                let dense = Mutation::Rename {
                    pre: HStr { pre: 0, body: vec![0, 17, 25, 2], num: 0, fit },
                    post: HStr { pre: 0, body: vec![14, 26, 3], num: 0, fit: 0 },
                    values: i % 2 == 0,
                };
                let bang = Mutation::JStr {
                    file: 0,
                    field: Field::IdOf((i % ID_LISTS.len()) as u8),
                    nth: 0,
                    val: StrChoice::Hostile(HStr { pre: 2, body: vec![[0u8, 2, 14, 26][i % 4], 17], num: (i % 3) as u8, fit: 0 }),
                };
                if apply(&mut docs, &dense) {
                    apply(&mut docs, &bang);
                    let bytes = if *target == "c19_cbor" { docs[0].1.clone() } else { container_join(&docs) };
                    std::fs::write(dir.join(target).join(format!("seed-{:03}-{}-nonascii", i, mode.name())), bytes).map_err(|e| e.to_string())?;
                    written += 1;
                }
            }
        }
    }
    Ok(written)
}

/// a harness replay file for a raw fuzz input
pub fn raw_replay(target: &str, data: &[u8]) -> String {
    let case = Case::Raw {
        target: target.to_string(),
        data: Bytes::from_slice(data),
    };
    serde_json::to_string_pretty(&serde_json::json!({"property": "C19", "seed": 0, "case": case, "failures": []})).unwrap_or_default()
}

/// development aid (`c19_corpus survey <n> <seed> [json|csv|cbor]`): run n generated cases, do not stop at failures,
/// print every distinct (facet, signature) with its count and first case, and the label distribution
pub fn survey(n: usize, seed: u64, only: Option<&str>) {
    use proptest::strategy::ValueTree;
    use proptest::test_runner::{Config as PConfig, RngAlgorithm, TestRng, TestRunner};
    install_panic_hook();
    let threads = 16usize;
    let results: std::sync::Mutex<(std::collections::BTreeMap<(String, String), (u64, String, String)>, std::collections::BTreeMap<String, u64>, u64)> = Default::default();
    std::thread::scope(|s| {
        for t in 0..threads {
            let results = &results;
            std::thread::Builder::new()
                .stack_size(64 << 20)
                .spawn_scoped(s, move || {
                    let mut sd = [0u8; 32];
                    sd[..8].copy_from_slice(&seed.to_le_bytes());
                    sd[8] = t as u8;
                    let mut runner = TestRunner::new_with_rng(PConfig::default(), TestRng::from_seed(RngAlgorithm::ChaCha, &sd));
                    let strat = case_strategy(Tier::Quick);
                    for _ in 0..n / threads {
                        let Ok(tree) = strat.new_tree(&mut runner) else { continue };
                        let case = tree.current();
                        if let Some(o) = only {
                            if format_of(&case) != o {
                                continue;
                            }
                        }
                        let out = run_in_worker(&case);
                        let mut g = results.lock().unwrap();
                        g.2 += 1;
                        for l in &out.labels {
                            *g.1.entry(l.clone()).or_default() += 1;
                        }
                        for f in &out.failures {
                            let e = g.0.entry((f.facet.clone(), f.signature.clone())).or_insert_with(|| (0, f.detail.clone(), serde_json::to_string(&case).unwrap_or_default()));
                            e.0 += 1;
                        }
                    }
                })
                .unwrap();
        }
    });
    let g = results.lock().unwrap();
    println!("cases: {}", g.2);
    for (l, c) in &g.1 {
        println!("  label {:45} {:7} {:5.1}%", l, c, 100.0 * *c as f64 / g.2.max(1) as f64);
    }
    for ((facet, sig), (count, detail, case)) in &g.0 {
        println!("FAIL x{} facet={} signature={}\n     {}\n     case={}", count, facet, sig, detail.chars().take(300).collect::<String>(), case);
    }
}

/// development aid (`c19_corpus show <replay file>`): print the document set a case hands to the loader
pub fn show(replay: &Path) -> Result<String, String> {
    install_panic_hook();
    let text = std::fs::read_to_string(replay).map_err(|e| e.to_string())?;
    let v: serde_json::Value = serde_json::from_str(&text).map_err(|e| e.to_string())?;
    let case: Case = serde_json::from_value(v.get("case").cloned().unwrap_or(v)).map_err(|e| e.to_string())?;
    let work = Scratch::new_in(&tmp_base(), &format!("stamverif-c19-show-{}-", std::process::id()));
    let _ = std::env::set_current_dir(&work.0);
    match &case {
        Case::Doc { hist, mode, muts } => {
            let mut out = Outcome::new();
            let Some(mut docs) = base_docs(hist, mode, &work.0, &mut out) else { return Err(format!("no documents: {:?}", out.labels)) };
            for m in muts {
                let ok = apply(&mut docs, m);
                eprintln!("mutation {:?}: {}", m, if ok { "applied" } else { "not applicable" });
            }
            Ok(String::from_utf8_lossy(&container_join(&docs)).to_string())
        }
        Case::Raw { data, .. } => Ok(String::from_utf8_lossy(&data.to_vec()).to_string()),
        Case::Parse { what, input } => Ok(format!("{:?}: {:?}", what, input)),
    }
}
