//! C10 Annotation data is a deduplicated vocabulary and data search equals a scan.

use crate::engine::*;
use crate::hist::*;
use crate::model::*;
use proptest::prelude::*;
use serde::{Deserialize, Serialize};
use stam::*;

pub struct C10;

#[derive(Clone, Debug, Serialize, Deserialize, PartialEq)]
pub enum OpSpec {
    Null,
    Any,
    Equals(String),
    EqualsInt(i64),
    EqualsFloat(f64),
    True,
    False,
    Gt(i64),
    Ge(i64),
    Lt(i64),
    Le(i64),
    GtF(f64),
    GeF(f64),
    LtF(f64),
    LeF(f64),
    DtExact(String),
    DtAfter(String),
    DtBefore(String),
    DtAtOrAfter(String),
    DtAtOrBefore(String),
    HasElement(String),
    HasElementInt(i64),
    HasElementFloat(f64),
    Not(Box<OpSpec>),
    And(Vec<OpSpec>),
    Or(Vec<OpSpec>),
}

fn dt(s: &str) -> chrono::DateTime<chrono::FixedOffset> {
    chrono::DateTime::parse_from_rfc3339(s).expect("valid rfc3339")
}

impl OpSpec {
    pub fn to_stam(&self) -> DataOperator<'static> {
        match self {
            OpSpec::Null => DataOperator::Null,
            OpSpec::Any => DataOperator::Any,
            OpSpec::Equals(s) => DataOperator::Equals(s.clone().into()),
            OpSpec::EqualsInt(i) => DataOperator::EqualsInt(*i as isize),
            OpSpec::EqualsFloat(f) => DataOperator::EqualsFloat(*f),
            OpSpec::True => DataOperator::True,
            OpSpec::False => DataOperator::False,
            OpSpec::Gt(i) => DataOperator::GreaterThan(*i as isize),
            OpSpec::Ge(i) => DataOperator::GreaterThanOrEqual(*i as isize),
            OpSpec::Lt(i) => DataOperator::LessThan(*i as isize),
            OpSpec::Le(i) => DataOperator::LessThanOrEqual(*i as isize),
            OpSpec::GtF(f) => DataOperator::GreaterThanFloat(*f),
            OpSpec::GeF(f) => DataOperator::GreaterThanOrEqualFloat(*f),
            OpSpec::LtF(f) => DataOperator::LessThanFloat(*f),
            OpSpec::LeF(f) => DataOperator::LessThanOrEqualFloat(*f),
            OpSpec::DtExact(s) => DataOperator::ExactDatetime(dt(s)),
            OpSpec::DtAfter(s) => DataOperator::AfterDatetime(dt(s)),
            OpSpec::DtBefore(s) => DataOperator::BeforeDatetime(dt(s)),
            OpSpec::DtAtOrAfter(s) => DataOperator::AtOrAfterDatetime(dt(s)),
            OpSpec::DtAtOrBefore(s) => DataOperator::AtOrBeforeDatetime(dt(s)),
            OpSpec::HasElement(s) => DataOperator::HasElement(s.clone().into()),
            OpSpec::HasElementInt(i) => DataOperator::HasElementInt(*i as isize),
            OpSpec::HasElementFloat(f) => DataOperator::HasElementFloat(*f),
            OpSpec::Not(o) => DataOperator::Not(Box::new(o.to_stam())),
            OpSpec::And(v) => DataOperator::And(v.iter().map(|o| o.to_stam()).collect()),
            OpSpec::Or(v) => DataOperator::Or(v.iter().map(|o| o.to_stam()).collect()),
        }
    }
    fn name(&self) -> &'static str {
        match self {
            OpSpec::Null => "Null",
            OpSpec::Any => "Any",
            OpSpec::Equals(_) => "Equals",
            OpSpec::EqualsInt(_) => "EqualsInt",
            OpSpec::EqualsFloat(_) => "EqualsFloat",
            OpSpec::True => "True",
            OpSpec::False => "False",
            OpSpec::Gt(_) => "GreaterThan",
            OpSpec::Ge(_) => "GreaterThanOrEqual",
            OpSpec::Lt(_) => "LessThan",
            OpSpec::Le(_) => "LessThanOrEqual",
            OpSpec::GtF(_) => "GreaterThanFloat",
            OpSpec::GeF(_) => "GreaterThanOrEqualFloat",
            OpSpec::LtF(_) => "LessThanFloat",
            OpSpec::LeF(_) => "LessThanOrEqualFloat",
            OpSpec::DtExact(_) => "ExactDatetime",
            OpSpec::DtAfter(_) => "AfterDatetime",
            OpSpec::DtBefore(_) => "BeforeDatetime",
            OpSpec::DtAtOrAfter(_) => "AtOrAfterDatetime",
            OpSpec::DtAtOrBefore(_) => "AtOrBeforeDatetime",
            OpSpec::HasElement(_) => "HasElement",
            OpSpec::HasElementInt(_) => "HasElementInt",
            OpSpec::HasElementFloat(_) => "HasElementFloat",
            OpSpec::Not(_) => "Not",
            OpSpec::And(_) => "And",
            OpSpec::Or(_) => "Or",
        }
    }

    /// Reference semantics written from the rustdoc of `DataOperator`: defined (Some) when the operator's type
    /// matches the value's type (or the operator is type-agnostic); None (don't care) for cross-type
    /// combinations whose outcome the documentation does not pin down.
    pub fn reference(&self, v: &Val) -> Option<bool> {
        use OpSpec::*;
        match (self, v) {
            (Any, _) => Some(true),
            (Null, Val::Null) => Some(true),
            (Null, _) => Some(false),
            (True, Val::Bool(b)) => Some(*b),
            (False, Val::Bool(b)) => Some(!*b),
            (True | False, _) => Some(false),
            (Equals(s), Val::Str(x)) => Some(s == x),
            // numeric / datetime values against a string: the string must denote the same number / instant
            // (the STAMQL documentation compares quoted literals with typed values this way)
            (Equals(s), Val::Int(x)) => Some(s.parse::<i64>().ok() == Some(*x)),
            (Equals(s), Val::Float(x)) => Some(s.parse::<f64>().map(|f| f == *x).unwrap_or(false)),
            (Equals(s), Val::Dt(x)) => Some(chrono::DateTime::parse_from_rfc3339(s).map(|d| d == dt(x)).unwrap_or(false)),
            (Equals(_), _) => None,
            (EqualsInt(i), Val::Int(x)) => Some(i == x),
            (Gt(i), Val::Int(x)) => Some(x > i),
            (Ge(i), Val::Int(x)) => Some(x >= i),
            (Lt(i), Val::Int(x)) => Some(x < i),
            (Le(i), Val::Int(x)) => Some(x <= i),
            (EqualsInt(_) | Gt(_) | Ge(_) | Lt(_) | Le(_), Val::Float(_)) => None,
            (EqualsInt(_) | Gt(_) | Ge(_) | Lt(_) | Le(_), _) => Some(false),
            (EqualsFloat(f), Val::Float(x)) => Some(x == f),
            (GtF(f), Val::Float(x)) => Some(x > f),
            (GeF(f), Val::Float(x)) => Some(x >= f),
            (LtF(f), Val::Float(x)) => Some(x < f),
            (LeF(f), Val::Float(x)) => Some(x <= f),
            (EqualsFloat(_) | GtF(_) | GeF(_) | LtF(_) | LeF(_), Val::Int(_)) => None,
            (EqualsFloat(_) | GtF(_) | GeF(_) | LtF(_) | LeF(_), _) => Some(false),
            (DtExact(s), Val::Dt(x)) => Some(dt(x) == dt(s)),
            (DtAfter(s), Val::Dt(x)) => Some(dt(x) > dt(s)),
            (DtBefore(s), Val::Dt(x)) => Some(dt(x) < dt(s)),
            (DtAtOrAfter(s), Val::Dt(x)) => Some(dt(x) >= dt(s)),
            (DtAtOrBefore(s), Val::Dt(x)) => Some(dt(x) <= dt(s)),
            (DtExact(_) | DtAfter(_) | DtBefore(_) | DtAtOrAfter(_) | DtAtOrBefore(_), _) => Some(false),
            (HasElement(s), Val::List(l)) => or3(l.iter().map(|e| Equals(s.clone()).reference(e))),
            (HasElementInt(i), Val::List(l)) => or3(l.iter().map(|e| EqualsInt(*i).reference(e))),
            (HasElementFloat(f), Val::List(l)) => or3(l.iter().map(|e| EqualsFloat(*f).reference(e))),
            (HasElement(_) | HasElementInt(_) | HasElementFloat(_), _) => Some(false),
            (Not(o), v) => o.reference(v).map(|b| !b),
            (And(os), v) => and3(os.iter().map(|o| o.reference(v))),
            (Or(os), v) => or3(os.iter().map(|o| o.reference(v))),
        }
    }
    fn cross_type(&self, v: &Val) -> bool {
        self.reference(v).is_none()
    }
}

fn and3(it: impl Iterator<Item = Option<bool>>) -> Option<bool> {
    let mut unknown = false;
    for x in it {
        match x {
            Some(false) => return Some(false),
            None => unknown = true,
            _ => {}
        }
    }
    if unknown {
        None
    } else {
        Some(true)
    }
}
fn or3(it: impl Iterator<Item = Option<bool>>) -> Option<bool> {
    let mut unknown = false;
    for x in it {
        match x {
            Some(true) => return Some(true),
            None => unknown = true,
            _ => {}
        }
    }
    if unknown {
        None
    } else {
        Some(false)
    }
}

#[derive(Clone, Debug, Serialize, Deserialize)]
pub struct Probe {
    /// None = any set
    pub set: Option<u16>,
    /// None = any key (a key is only given together with a set)
    pub key: Option<u16>,
    pub op: OpSpec,
}

#[derive(Clone, Debug, Serialize, Deserialize)]
pub struct Case {
    pub hist: History,
    pub probes: Vec<Probe>,
}

const DTS: [&str; 4] = [
    "2024-01-02T03:04:05+00:00",
    "2024-01-02T03:04:05+02:00",
    "1999-12-31T23:59:59-05:00",
    "2024-06-01T00:00:00.250+00:00",
];

fn leaf_op() -> BoxedStrategy<OpSpec> {
    let ints = prop_oneof![(-3i64..=3), Just(12i64), Just(i64::MAX), Just(i64::MIN)];
    let floats = proptest::sample::select(vec![0.0f64, 1.5, -2.25, 12.0, 1e10, 3.0, 1e-7, 2.0]);
    let strs = prop_oneof![
        proptest::sample::select(vec!["noun".to_string(), "verb".to_string(), "12".to_string(), "1.5".to_string(), "Noun".to_string(), "".to_string(), "true".to_string(), "yes".to_string(), "2024-01-02T03:04:05+00:00".to_string(), "3".to_string(), "-2".to_string()]),
        text_strategy(4),
    ];
    let dts = proptest::sample::select(DTS.iter().map(|s| s.to_string()).collect::<Vec<_>>());
    prop_oneof![
        1 => Just(OpSpec::Null),
        1 => Just(OpSpec::Any),
        4 => strs.clone().prop_map(OpSpec::Equals),
        2 => ints.clone().prop_map(OpSpec::EqualsInt),
        2 => floats.clone().prop_map(OpSpec::EqualsFloat),
        1 => Just(OpSpec::True),
        1 => Just(OpSpec::False),
        1 => ints.clone().prop_map(OpSpec::Gt),
        1 => ints.clone().prop_map(OpSpec::Ge),
        1 => ints.clone().prop_map(OpSpec::Lt),
        1 => ints.clone().prop_map(OpSpec::Le),
        1 => floats.clone().prop_map(OpSpec::GtF),
        1 => floats.clone().prop_map(OpSpec::GeF),
        1 => floats.clone().prop_map(OpSpec::LtF),
        1 => floats.clone().prop_map(OpSpec::LeF),
        1 => dts.clone().prop_map(OpSpec::DtExact),
        1 => dts.clone().prop_map(OpSpec::DtAfter),
        1 => dts.clone().prop_map(OpSpec::DtBefore),
        1 => dts.clone().prop_map(OpSpec::DtAtOrAfter),
        1 => dts.prop_map(OpSpec::DtAtOrBefore),
        1 => strs.prop_map(OpSpec::HasElement),
        1 => ints.prop_map(OpSpec::HasElementInt),
        1 => floats.prop_map(OpSpec::HasElementFloat),
    ]
    .boxed()
}

fn op_spec() -> BoxedStrategy<OpSpec> {
    let l1 = prop_oneof![
        6 => leaf_op(),
        1 => leaf_op().prop_map(|o| OpSpec::Not(Box::new(o))),
        1 => proptest::collection::vec(leaf_op(), 1..=3).prop_map(OpSpec::And),
        1 => proptest::collection::vec(leaf_op(), 1..=3).prop_map(OpSpec::Or),
    ]
    .boxed();
    prop_oneof![
        8 => l1.clone(),
        1 => l1.clone().prop_map(|o| OpSpec::Not(Box::new(o))),
        1 => proptest::collection::vec(l1.clone(), 1..=2).prop_map(OpSpec::And),
        1 => proptest::collection::vec(l1, 1..=2).prop_map(OpSpec::Or),
    ]
    .boxed()
}

fn dspec_() -> BoxedStrategy<DSpec> {
    (proptest::bool::weighted(0.3), 0u8..4, val_strategy(false))
        .prop_map(|(with_id, key, val)| DSpec { with_id, key, val })
        .boxed()
}

fn c10_ops(max: usize) -> BoxedStrategy<Vec<Op>> {
    let adspec = prop_oneof![
        5 => (prop_oneof![5 => any::<u16>().prop_map(SetRef::Live), 1 => Just(SetRef::Fresh)], proptest::bool::weighted(0.25), 0u8..4, val_strategy(false))
            .prop_map(|(set, with_id, key, val)| ADSpec::New { set, with_id, key, val }),
        2 => (any::<u16>(), any::<u16>()).prop_map(|(set, data)| ADSpec::Existing { set, data }),
    ];
    let annotate = (proptest::bool::weighted(0.3), any::<bool>(), any::<u16>(), proptest::collection::vec(adspec, 1..=3)).prop_map(
        |(with_id, by_handle, res, data)| Op::Annotate {
            with_id,
            sfx: 0,
            by_handle,
            target: SelSpec::Res { res },
            data,
        },
    );
    let op = prop_oneof![
        2 => (0u8..6, proptest::collection::vec(dspec_(), 0..=5)).prop_map(|(sfx, data)| Op::AddDataset { sfx, data }),
        8 => (any::<u16>(), dspec_()).prop_map(|(set, d)| Op::InsertData { set, d }),
        6 => annotate,
        3 => (any::<u16>(), any::<u16>(), any::<bool>()).prop_map(|(set, pick, strict)| Op::RemoveData { set, pick, strict, by_id: false }),
        3 => (any::<u16>(), any::<u16>(), any::<bool>()).prop_map(|(set, pick, strict)| Op::RemoveKey { set, pick, strict, by_id: false }),
    ];
    proptest::collection::vec(op, 0..=max).boxed()
}

fn sorted(mut v: Vec<(usize, usize)>) -> Vec<(usize, usize)> {
    v.sort();
    v
}

impl Property for C10 {
    type Case = Case;
    fn id(&self) -> &'static str {
        "C10"
    }
    fn rule(&self) -> String {
        "case = history of dataset/data operations (datasets with data, insert_data with/without ids, annotations carrying new/existing data incl. on-the-fly datasets, remove_data, remove_key) + probes (set|any, key|any, operator tree over all DataOperator variants incl. Not/And/Or and numeric strings vs numbers); after every step: insertion handles and the whole vocabulary equal the reference model (same (key,value) without id -> one item; keys unique), key.data() equals a scan, and every probe through store.find_data / dataset.find_data / key.data().filter_value / test_data equals (a) a full scan filtered by a reference test written from the rustdoc (three-valued: cross-type combinations are don't-care) and (b) a full scan filtered by the library's own DataValue::test (index path vs scan path). Non-trivial = a repeated (key,value) insertion, or a probe after a key/data removal, or an operator whose type differs from the value's; distinct = distinct case JSON.".into()
    }
    fn assumptions(&self) -> Vec<String> {
        vec![
            "NaN is not generated (NaN != NaN makes 'same value' undefined)".into(),
            "cross-type comparisons (integer operator on float value, Equals(string) on bool/null/list values, ...) are don't-care for the reference test; they are still checked differentially (search path vs DataValue::test). Equals(string) against int/float/datetime values is defined: the string must parse to the same number / instant".into(),
            "result order is not part of the claim: results are compared as sets, duplicates are reported".into(),
        ]
    }
    fn cases(&self, tier: Tier) -> u64 {
        tier.pick(800_000, 10_000_000)
    }
    fn strategy(&self, tier: Tier) -> BoxedStrategy<Case> {
        let prefix = (text_strategy(4), proptest::collection::vec(dspec_(), 1..=4))
            .prop_map(|(text, data)| vec![Op::AddResource { text, sfx: 0 }, Op::AddDataset { sfx: 0, data }]);
        let probe = (proptest::option::weighted(0.8, any::<u16>()), proptest::option::weighted(0.7, any::<u16>()), op_spec())
            .prop_map(|(set, key, op)| Probe { set, key: if set.is_some() { key } else { None }, op });
        (prefix, c10_ops(tier.pick(14, 30)), proptest::collection::vec(probe, 1..=6))
            .prop_map(|(mut p, ops, probes)| {
                p.extend(ops);
                Case {
                    hist: History { hostile: false, ops: p },
                    probes,
                }
            })
            .boxed()
    }

    fn run(&self, case: &Case) -> Outcome {
        let mut out = Outcome::new();
        let mut m = Machine::new(false);
        let mut after_removal = false;
        for op in &case.hist.ops {
            let step = m.apply(op);
            if step.skipped.is_some() {
                continue;
            }
            out.label(step.kind);
            if step.labels.contains(&"repeated_pair") {
                out.label("repeated_pair");
                out.nontrivial = true;
            }
            if let Some(p) = &step.panic {
                if op.is_removal() {
                    out.label("stopped_at_foreign_divergence");
                } else {
                    out.fail("panic", format!("{}|{}", step.kind, p.signature()), format!("{} panicked: {}", step.kind, p.msg));
                }
                return out;
            }
            if let Err(e) = &step.result {
                if op.is_removal() {
                    out.label("stopped_at_foreign_divergence");
                } else {
                    out.fail("accept", format!("{}", step.kind), format!("{} failed: {}", step.kind, e));
                }
                return out;
            }
            if let Some(mm) = &step.mismatch {
                out.fail("dedup", format!("handle|{}", step.kind), mm.clone());
                return out;
            }
            if op.is_removal() {
                after_removal = true;
            }
            // ---- vocabulary vs model
            let store = &m.store;
            let model = &m.model;
            let obs = match catch(|| {
                let mut sets = vec![];
                for s in store.datasets() {
                    let keys: Vec<(usize, Option<String>, Vec<usize>)> = s
                        .keys()
                        .map(|k| (k.handle().as_usize(), k.id().map(|x| x.to_string()), k.data().map(|d| d.handle().as_usize()).collect()))
                        .collect();
                    let data: Vec<(usize, Option<String>, usize, Val)> = s
                        .data()
                        .map(|d| (d.handle().as_usize(), d.id().map(|x| x.to_string()), d.key().handle().as_usize(), Val::from_stam(d.value())))
                        .collect();
                    sets.push((s.handle().as_usize(), s.id().map(|x| x.to_string()), keys, data));
                }
                let anns: Vec<(usize, Vec<(usize, usize)>)> = store
                    .annotations()
                    .map(|a| (a.handle().as_usize(), a.data().map(|d| (d.set().handle().as_usize(), d.handle().as_usize())).collect()))
                    .collect();
                (sets, anns)
            }) {
                Ok(o) => o,
                Err(p) => {
                    if after_removal {
                        out.label("stopped_at_foreign_divergence");
                    } else {
                        out.fail("panic", format!("observe|{}", p.signature()), format!("traversing datasets panicked: {}", p.msg));
                    }
                    return out;
                }
            };
            let (sets, anns) = obs;
            if sets.iter().map(|s| s.0).collect::<Vec<_>>() != model.live_sets()
                || anns.iter().map(|a| a.0).collect::<Vec<_>>() != model.live_anns()
            {
                out.label("stopped_at_foreign_divergence");
                return out;
            }
            for (sh, sid, keys, data) in &sets {
                let ms = model.set(*sh);
                out.checks += 4;
                if sid.as_deref() != Some(ms.id.as_str()) {
                    out.fail("vocabulary.set", "id", format!("set {} id {:?} expected {:?}", sh, sid, ms.id));
                }
                let got_keys: Vec<(usize, Option<String>)> = keys.iter().map(|k| (k.0, k.1.clone())).collect();
                let exp_keys: Vec<(usize, Option<String>)> = ms.live_keys().into_iter().map(|k| (k, ms.keys[k].clone())).collect();
                if got_keys != exp_keys {
                    if after_removal && got_keys.len() != exp_keys.len() {
                        out.label("stopped_at_foreign_divergence");
                        return out;
                    }
                    out.fail("vocabulary.keys", step.kind, format!("set {} keys {:?}, model expects {:?}", sh, got_keys, exp_keys));
                }
                let mut ids: Vec<&Option<String>> = keys.iter().map(|k| &k.1).collect();
                ids.sort();
                let n = ids.len();
                ids.dedup();
                if ids.len() != n {
                    out.fail("dedup.key", step.kind, format!("set {} has two keys with the same id: {:?}", sh, got_keys));
                }
                let exp_data: Vec<(usize, Option<String>, usize, Val)> = ms
                    .live_data()
                    .into_iter()
                    .map(|d| {
                        let md = ms.data[d].as_ref().unwrap();
                        (d, md.id.clone(), md.key, md.value.clone())
                    })
                    .collect();
                let same = data.len() == exp_data.len()
                    && data.iter().zip(exp_data.iter()).all(|(g, e)| g.0 == e.0 && g.1 == e.1 && g.2 == e.2 && g.3.same(&e.3));
                if !same {
                    if after_removal && data.len() != exp_data.len() {
                        out.label("stopped_at_foreign_divergence");
                        return out;
                    }
                    out.fail("vocabulary.data", step.kind, format!("set {} data {:?}, model expects {:?}", sh, data, exp_data));
                }
                // id-less data: no two with the same (key, value)
                for (i, a) in data.iter().enumerate() {
                    for b in data.iter().skip(i + 1) {
                        if a.1.is_none() && b.1.is_none() && a.2 == b.2 && a.3.same(&b.3) {
                            out.fail("dedup.pair", a.3.type_name(), format!("set {}: id-less data {} and {} carry the same (key {}, value {:?})", sh, a.0, b.0, a.2, a.3));
                        }
                    }
                }
                // key.data() == scan
                for (kh, _, kd) in keys {
                    out.checks += 1;
                    let scan: Vec<usize> = data.iter().filter(|d| d.2 == *kh).map(|d| d.0).collect();
                    if *kd != scan {
                        out.fail("key.data", step.kind, format!("key ({},{}) data() = {:?}, a scan gives {:?}", sh, kh, kd, scan));
                    }
                }
            }
            for (ah, ad) in &anns {
                out.checks += 1;
                if *ad != model.ann(*ah).data {
                    if op.is_removal() {
                        out.label("stopped_at_foreign_divergence");
                        return out;
                    }
                    out.fail("dedup.annotation", step.kind, format!("annotation {} refers to data {:?}, model expects {:?}", ah, ad, model.ann(*ah).data));
                }
            }
            if !out.failures.is_empty() {
                return out;
            }
            // ---- probes
            for probe in &case.probes {
                let live_sets = model.live_sets();
                let set_h: Option<usize> = match probe.set {
                    Some(i) if !live_sets.is_empty() => Some(live_sets[pick(i, live_sets.len())]),
                    _ => None,
                };
                let key_h: Option<usize> = match (set_h, probe.key) {
                    (Some(s), Some(k)) => {
                        let ks = model.set(s).live_keys();
                        if ks.is_empty() {
                            None
                        } else {
                            Some(ks[pick(k, ks.len())])
                        }
                    }
                    _ => None,
                };
                let sop = probe.op.to_stam();
                // scans
                let mut exp_lib = vec![];
                let mut exp_ref: Vec<((usize, usize), Option<bool>)> = vec![];
                let mut cross = false;
                for (sh, _, _, data) in &sets {
                    if set_h.is_some() && set_h != Some(*sh) {
                        continue;
                    }
                    for d in data {
                        if key_h.is_some() && key_h != Some(d.2) {
                            continue;
                        }
                        let libv = match catch(|| d.3.to_stam().test(&sop)) {
                            Ok(b) => b,
                            Err(p) => {
                                out.fail("panic", format!("DataValue::test|{}", p.signature()), format!("DataValue::test panicked: {}", p.msg));
                                return out;
                            }
                        };
                        if libv {
                            exp_lib.push((*sh, d.0));
                        }
                        let r = probe.op.reference(&d.3);
                        if probe.op.cross_type(&d.3) {
                            cross = true;
                        }
                        exp_ref.push(((*sh, d.0), r));
                    }
                }
                if cross {
                    out.label("cross_type");
                    out.nontrivial = true;
                }
                if after_removal {
                    out.nontrivial = true;
                    out.label("probe_after_removal");
                }
                out.label(probe.op.name());
                let mut results: Vec<(&'static str, Vec<(usize, usize)>)> = vec![];
                let collect = |it: Box<dyn Iterator<Item = ResultItem<AnnotationData>> + '_>| -> Vec<(usize, usize)> {
                    it.map(|d| (d.set().handle().as_usize(), d.handle().as_usize())).collect()
                };
                let r = catch(|| match (set_h, key_h) {
                    (Some(s), Some(k)) => collect(store.find_data(AnnotationDataSetHandle::new(s), DataKeyHandle::new(k), sop.clone())),
                    (Some(s), None) => collect(store.find_data(AnnotationDataSetHandle::new(s), false, sop.clone())),
                    _ => collect(store.find_data(false, false, sop.clone())),
                });
                match r {
                    Ok(v) => results.push(("store.find_data", v)),
                    Err(p) => out.fail("panic", format!("store.find_data|{}", p.signature()), format!("find_data panicked: {}", p.msg)),
                }
                // by public id as well
                if let Some(s) = set_h {
                    let sid = model.set(s).id.clone();
                    let r = catch(|| match key_h {
                        Some(k) => {
                            let kid = model.set(s).keys[k].clone().unwrap();
                            collect(store.find_data(sid.as_str(), kid.as_str(), sop.clone()))
                        }
                        None => collect(store.find_data(sid.as_str(), false, sop.clone())),
                    });
                    match r {
                        Ok(v) => results.push(("store.find_data(ids)", v)),
                        Err(p) => out.fail("panic", format!("store.find_data|{}", p.signature()), format!("find_data panicked: {}", p.msg)),
                    }
                    if let Some(ds) = store.dataset(AnnotationDataSetHandle::new(s)) {
                        let r = catch(|| match key_h {
                            Some(k) => collect(ds.find_data(DataKeyHandle::new(k), sop.clone())),
                            None => collect(ds.find_data(false, sop.clone())),
                        });
                        match r {
                            Ok(v) => results.push(("dataset.find_data", v)),
                            Err(p) => out.fail("panic", format!("dataset.find_data|{}", p.signature()), format!("find_data panicked: {}", p.msg)),
                        }
                        if let Some(k) = key_h {
                            if let Some(key) = ds.key(DataKeyHandle::new(k)) {
                                let r = catch(|| {
                                    key.data()
                                        .filter_value(sop.clone())
                                        .map(|d| (d.set().handle().as_usize(), d.handle().as_usize()))
                                        .collect::<Vec<_>>()
                                });
                                match r {
                                    Ok(v) => results.push(("key.data.filter_value", v)),
                                    Err(p) => out.fail("panic", format!("key.data|{}", p.signature()), format!("key.data().filter_value panicked: {}", p.msg)),
                                }
                            }
                        }
                        let t = catch(|| match key_h {
                            Some(k) => ds.test_data(DataKeyHandle::new(k), sop.clone()),
                            None => ds.test_data(false, sop.clone()),
                        });
                        if let Ok(t) = t {
                            out.checks += 1;
                            if t != !exp_lib.is_empty() {
                                out.fail("test_data", format!("dataset|{}", probe.op.name()), format!("dataset.test_data = {} but the scan finds {:?}", t, exp_lib));
                            }
                        }
                    }
                }
                let t = catch(|| match (set_h, key_h) {
                    (Some(s), Some(k)) => store.test_data(AnnotationDataSetHandle::new(s), DataKeyHandle::new(k), sop.clone()),
                    (Some(s), None) => store.test_data(AnnotationDataSetHandle::new(s), false, sop.clone()),
                    _ => store.test_data(false, false, sop.clone()),
                });
                if let Ok(t) = t {
                    out.checks += 1;
                    if t != !exp_lib.is_empty() {
                        out.fail("test_data", format!("store|{}", probe.op.name()), format!("store.test_data = {} but the scan finds {:?}", t, exp_lib));
                    }
                }
                let exp_lib_sorted = sorted(exp_lib.clone());
                for (entry, got) in &results {
                    out.checks += 2;
                    let gs = sorted(got.clone());
                    let mut gd = gs.clone();
                    gd.dedup();
                    if gd.len() != gs.len() {
                        out.fail("find_data.dup", format!("{}|{}", entry, probe.op.name()), format!("{} returned an item twice: {:?}", entry, got));
                    }
                    if gd != exp_lib_sorted {
                        out.fail(
                            "find_data.scan",
                            format!("{}|{}|{}", entry, probe.op.name(), if key_h.is_some() { "key" } else if set_h.is_some() { "set" } else { "any" }),
                            format!("{} with {:?} (set {:?}, key {:?}) returned {:?}; a full scan with DataValue::test selects {:?}", entry, probe.op, set_h, key_h, gs, exp_lib_sorted),
                        );
                    }
                    // reference semantics
                    for (item, r) in &exp_ref {
                        match r {
                            None => out.dontcare += 1,
                            Some(b) => {
                                out.checks += 1;
                                let has = gd.contains(item);
                                if has != *b {
                                    let v = sets.iter().find(|s| s.0 == item.0).and_then(|s| s.3.iter().find(|d| d.0 == item.1)).map(|d| d.3.clone());
                                    out.fail(
                                        "find_data.meaning",
                                        format!("{}|{}|{}", probe.op.name(), v.as_ref().map(|v| v.type_name()).unwrap_or("?"), if has { "extra" } else { "missing" }),
                                        format!("{} with {:?}: item {:?} (value {:?}) {} although the documented test says {}", entry, probe.op, item, v, if has { "is returned" } else { "is not returned" }, b),
                                    );
                                }
                            }
                        }
                    }
                }
            }
            // ---- a key that does not resolve (never added, or removed) selects nothing, whatever the other keys hold
            if let Some(probe) = case.probes.first() {
                let sop = probe.op.to_stam();
                for s in model.live_sets() {
                    let ms = model.set(s);
                    let sid = ms.id.clone();
                    let mut absent: Vec<String> = crate::hist::KEYS.iter().chain(crate::hist::BARE_KEYS.iter()).map(|k| k.to_string()).filter(|k| ms.key_by_id(k).is_none()).collect();
                    absent.push("no-such-key".to_string());
                    absent.truncate(3);
                    let removed_handles: Vec<usize> = (0..ms.keys.len()).filter(|k| ms.keys[*k].is_none()).chain(std::iter::once(ms.keys.len() + 2)).take(2).collect();
                    let Some(ds) = store.dataset(AnnotationDataSetHandle::new(s)) else { continue };
                    let mut answers: Vec<(String, Result<(usize, bool), PanicInfo>)> = vec![];
                    for k in &absent {
                        answers.push((format!("store.find_data({:?}, {:?})", sid, k), catch(|| (store.find_data(sid.as_str(), k.as_str(), sop.clone()).count(), store.test_data(sid.as_str(), k.as_str(), sop.clone())))));
                        answers.push((format!("dataset.find_data({:?})", k), catch(|| (ds.find_data(k.as_str(), sop.clone()).count(), ds.test_data(k.as_str(), sop.clone())))));
                    }
                    for k in &removed_handles {
                        let kh = DataKeyHandle::new(*k);
                        answers.push((format!("dataset.find_data(stale key handle {})", k), catch(|| (ds.find_data(kh, sop.clone()).count(), ds.test_data(kh, sop.clone())))));
                    }
                    if !answers.is_empty() {
                        out.label("probe_unresolvable_key");
                    }
                    for (what, r) in answers {
                        out.checks += 1;
                        match r {
                            Ok((0, false)) => {}
                            Ok((n, t)) => out.fail("find_data.scan", format!("unresolvable-key|{}", probe.op.name()), format!("{} with {:?} on set {} returned {} items (test_data = {}) although the key does not exist", what, probe.op, s, n, t)),
                            Err(p) => out.fail("panic", format!("find_data-unresolvable-key|{}", p.signature()), format!("{} panicked: {}", what, p.msg)),
                        }
                    }
                }
            }
            if !out.failures.is_empty() {
                return out;
            }
        }
        out
    }
}
