//! C08 helper: running queries through stam (text / built / re-printed form, with bound context
//! variables), the transcription of which (type, constraint, position) combinations the engine
//! implements, and the iterator-API chains of the `forms` facet.

use super::spec::*;
use crate::engine::{catch, PanicInfo};
use stam::*;
use std::collections::BTreeSet;

pub const MAXROWS: usize = 4000;

#[derive(Clone, Debug)]
pub enum Ans {
    Rows(Vec<Vec<It>>),
    Err(String),
    Panic(PanicInfo),
}

impl Ans {
    pub fn rows(&self) -> Option<&Vec<Vec<It>>> {
        match self {
            Ans::Rows(r) => Some(r),
            _ => None,
        }
    }
    pub fn show(&self) -> String {
        match self {
            Ans::Rows(r) => show_rows(r),
            Ans::Err(e) => format!("Err({})", e),
            Ans::Panic(p) => format!("panic at {}:{}: {}", p.file, p.line, p.msg),
        }
    }
}

pub fn item_of(item: &QueryResultItem) -> It {
    match item {
        QueryResultItem::None => It::None,
        QueryResultItem::TextSelection(t) => It::T(t.resource().handle().as_usize(), t.begin(), t.end()),
        QueryResultItem::Annotation(a) => It::A(a.handle().as_usize()),
        QueryResultItem::TextResource(r) => It::R(r.handle().as_usize()),
        QueryResultItem::DataKey(k) => It::K(k.set().handle().as_usize(), k.handle().as_usize()),
        QueryResultItem::AnnotationData(d) => It::D(d.set().handle().as_usize(), d.handle().as_usize()),
        QueryResultItem::AnnotationDataSet(s) => It::S(s.handle().as_usize()),
        QueryResultItem::AnnotationSubStore(_) => It::None,
    }
}

/// the store item for a result key (None if it does not exist)
pub fn materialise<'s>(store: &'s AnnotationStore, it: &It) -> Option<QueryResultItem<'s>> {
    Some(match it {
        It::A(a) => QueryResultItem::Annotation(store.annotation(AnnotationHandle::new(*a))?),
        It::D(s, d) => QueryResultItem::AnnotationData(
            store.annotationdata(AnnotationDataSetHandle::new(*s), AnnotationDataHandle::new(*d))?,
        ),
        It::K(s, k) => QueryResultItem::DataKey(store.key(AnnotationDataSetHandle::new(*s), DataKeyHandle::new(*k))?),
        It::S(s) => QueryResultItem::AnnotationDataSet(store.dataset(AnnotationDataSetHandle::new(*s))?),
        It::R(r) => QueryResultItem::TextResource(store.resource(TextResourceHandle::new(*r))?),
        It::T(r, b, e) => {
            let res = store.resource(TextResourceHandle::new(*r))?;
            QueryResultItem::TextSelection(res.textselection(&Offset::simple(*b, *e)).ok()?)
        }
        It::None => return None,
    })
}

fn collect_rows<'s>(iter: QueryIter<'s>, depth: usize) -> Vec<Vec<It>> {
    let mut rows = vec![];
    for row in iter.take(MAXROWS) {
        let mut v: Vec<It> = row.iter().map(item_of).collect();
        while v.len() < depth {
            v.push(It::None);
        }
        rows.push(v);
    }
    rows
}

#[derive(Clone, Copy, Debug, PartialEq, Eq)]
pub enum Form {
    /// STAMQL text printed by the harness, parsed by `Query::parse`
    Text,
    /// `Query::new` + `with_constraint` + `with_subquery`
    Built,
    /// the built query printed by `Query::to_string` and parsed again
    Printed,
}

/// Run the nested SELECT over `levels` with the variables of `env` bound as context variables.
pub fn run_levels(store: &AnnotationStore, levels: &[Lvl], env: &[(String, It)], form: Form) -> Ans {
    let depth = levels.len();
    let text = match form {
        Form::Text => print_levels(levels),
        Form::Built => String::new(),
        Form::Printed => match catch(|| build_levels(levels).to_string()) {
            Ok(Ok(s)) => s,
            Ok(Err(e)) => return Ans::Err(format!("to_string: {}", e)),
            Err(p) => return Ans::Panic(p),
        },
    };
    if std::env::var("C08_DEBUG").is_ok() {
        eprintln!("RUN {:?} {} env={:?}", form, print_levels(levels), env);
    }
    let r = catch(|| {
        let mut q: Query = match form {
            Form::Built => build_levels(levels),
            _ => match Query::parse(text.as_str()) {
                Ok((q, rest)) => {
                    if !rest.trim().is_empty() {
                        return Err(format!("parse left over {:?} of {:?}", rest, text));
                    }
                    q
                }
                Err(e) => return Err(format!("parse of {:?}: {}", text, e)),
            },
        };
        for (name, it) in env {
            match materialise(store, it) {
                Some(item) => q.bind_from_result(name.as_str(), &item),
                None => return Err(format!("context item {} does not exist", it.show())),
            }
        }
        match store.query(q) {
            Ok(iter) => Ok(collect_rows(iter, depth)),
            Err(e) => Err(format!("query: {}", e)),
        }
    });
    match r {
        Ok(Ok(rows)) => Ans::Rows(rows),
        Ok(Err(e)) => Ans::Err(e),
        Err(p) => Ans::Panic(p),
    }
}

/// single-level convenience: the items of the one column
pub fn run_level(store: &AnnotationStore, lvl: &Lvl, env: &[(String, It)], form: Form) -> Result<Vec<It>, Ans> {
    match run_levels(store, std::slice::from_ref(lvl), env, form) {
        Ans::Rows(rows) => Ok(rows.into_iter().map(|mut r| r.remove(0)).collect()),
        other => Err(other),
    }
}

/// The level with its first constraint given as a *handle collection* (`Constraint::Annotations` / `Resources`) where
/// the constraint has an obvious equivalent of that kind: `ID x` / `[ ID a OR ID b ]` in an ANNOTATION query are the
/// annotations a, b themselves (`Annotations(.., Normal, AnnotationDepth::Zero)`), in a RESOURCE query
/// `Resources(..)`; `ANNOTATION [AS METADATA] x` / `[ ANNOTATION a OR ANNOTATION b ]` in an ANNOTATION, DATA or KEY
/// query is `Annotations(.., qualifier, AnnotationDepth::One)`. None: no such equivalent (or an id does not resolve).
pub fn run_level_collection(store: &AnnotationStore, lvl: &Lvl, env: &[(String, It)]) -> Option<(Ans, String)> {
    let first = lvl.cons.first()?;
    let arms: Vec<&CC> = match first {
        CC::Union(arms) => arms.iter().collect(),
        c => vec![c],
    };
    let rt = lvl.rtype % 6;
    let coll: Constraint;
    let desc: String;
    if arms.iter().all(|a| matches!(a, CC::Id { .. })) {
        let ids: Vec<&str> = arms.iter().map(|a| if let CC::Id { id } = a { id.as_str() } else { "" }).collect();
        match rt {
            T_ANN => {
                let mut hs: Vec<AnnotationHandle> = vec![];
                for id in ids {
                    let h = store.annotation(id)?.handle();
                    if !hs.contains(&h) {
                        hs.push(h);
                    }
                }
                desc = format!("Constraint::Annotations({:?}, Normal, Zero)", hs.iter().map(|h| h.as_usize()).collect::<Vec<_>>());
                coll = Constraint::Annotations(Handles::from_iter(hs.into_iter(), store), SelectionQualifier::Normal, AnnotationDepth::Zero);
            }
            T_RES => {
                let mut hs: Vec<TextResourceHandle> = vec![];
                for id in ids {
                    let h = store.resource(id)?.handle();
                    if !hs.contains(&h) {
                        hs.push(h);
                    }
                }
                desc = format!("Constraint::Resources({:?}, Normal)", hs.iter().map(|h| h.as_usize()).collect::<Vec<_>>());
                coll = Constraint::Resources(Handles::from_iter(hs.into_iter(), store), SelectionQualifier::Normal);
            }
            _ => return None,
        }
    } else if matches!(rt, T_ANN | T_DATA | T_KEY) {
        let mut hs: Vec<AnnotationHandle> = vec![];
        let mut qual: Option<bool> = None;
        for a in &arms {
            match a {
                CC::Annotation { id, meta, rec: false, .. } => {
                    if qual.is_some() && qual != Some(*meta) {
                        return None;
                    }
                    qual = Some(*meta);
                    let h = store.annotation(id.as_str())?.handle();
                    if !hs.contains(&h) {
                        hs.push(h);
                    }
                }
                _ => return None,
            }
        }
        let meta = qual?;
        desc = format!("Constraint::Annotations({:?}, {}, One)", hs.iter().map(|h| h.as_usize()).collect::<Vec<_>>(), if meta { "Metadata" } else { "Normal" });
        coll = Constraint::Annotations(
            Handles::from_iter(hs.into_iter(), store),
            if meta { SelectionQualifier::Metadata } else { SelectionQualifier::Normal },
            AnnotationDepth::One,
        );
    } else {
        return None;
    }
    let r = catch(|| {
        let mut q = Query::new(QueryType::Select, Some(rtype_of(lvl.rtype)), Some(lvl.name.as_str())).with_constraint(coll);
        for c in &lvl.cons[1..] {
            q = q.with_constraint(c.build());
        }
        for (name, it) in env {
            match materialise(store, it) {
                Some(item) => q.bind_from_result(name.as_str(), &item),
                None => return Err(format!("context item {} does not exist", it.show())),
            }
        }
        match store.query(q) {
            Ok(iter) => Ok(collect_rows(iter, 1)),
            Err(e) => Err(format!("query: {}", e)),
        }
    });
    Some((
        match r {
            Ok(Ok(rows)) => Ans::Rows(rows),
            Ok(Err(e)) => Ans::Err(e),
            Err(p) => Ans::Panic(p),
        },
        desc,
    ))
}

// ------------------------------------------------------------------------------------------
// which (result type, constraint, position) combinations the engine implements
// (transcribed from init_state_* / update_state_* of src/api/query.rs; used to classify, never as an oracle:
//  a combination listed as unimplemented that does answer is compared like any other)

#[derive(Clone, Copy, Debug, PartialEq, Eq)]
pub enum Impl {
    Yes,
    /// Err("... not implemented ..."), which the iterator swallows: no results
    No,
    /// todo!()
    Todo,
}

pub fn implemented(rt: u8, c: &CC, primary: bool) -> Impl {
    use Impl::*;
    let yes = |b: bool| if b { Yes } else { No };
    match c {
        CC::Limit { .. } => return Yes,
        CC::Union(arms) => {
            if rt % 6 == T_TEXT {
                return if primary { Todo } else { No };
            }
            // the arms are always evaluated as primary constraints
            for a in arms {
                match implemented(rt, a, true) {
                    Yes => {}
                    other => return other,
                }
            }
            return Yes;
        }
        _ => {}
    }
    match rt % 6 {
        T_ANN => match c {
            CC::Id { .. } => yes(primary),
            CC::DataKey { meta, .. } => yes(!*meta),
            CC::KeyValue { meta, .. } => yes(primary || !*meta),
            CC::Value { .. } => Yes,
            CC::Text { mode, .. } => {
                if *mode % 3 == 2 && primary {
                    Todo
                } else {
                    Yes
                }
            }
            CC::Resource { offset, .. } | CC::VarResource { offset, .. } => yes(offset.is_none()),
            CC::DataSet { meta, .. } => yes(primary || !*meta),
            CC::Annotation { meta, rec, .. } | CC::VarAnnotation { meta, rec, .. } => {
                if primary {
                    yes(!(*meta && *rec))
                } else {
                    yes(*meta || !*rec)
                }
            }
            CC::VarDataSet { .. } => yes(primary),
            CC::VarKey { meta, .. } | CC::VarData { meta, .. } => yes(!*meta),
            CC::VarText { .. } | CC::Relation { .. } => Yes,
            _ => No,
        },
        T_DATA => match c {
            CC::DataKey { meta, .. } => yes(primary && !*meta),
            CC::KeyValue { meta, .. } => yes(!*meta),
            CC::Value { .. } => Yes,
            CC::DataSet { meta, .. } => yes(primary && !*meta),
            CC::Annotation { .. } => yes(primary),
            CC::VarAnnotation { meta, .. } => yes(primary || !*meta),
            CC::VarKey { meta, .. } => yes(!*meta),
            CC::VarDataSet { .. } => yes(primary),
            CC::VarData { meta, .. } => yes(primary && !*meta),
            CC::VarText { .. } => yes(primary),
            _ => No,
        },
        T_KEY => match c {
            CC::DataSet { meta, .. } => yes(primary && !*meta),
            CC::Annotation { .. } | CC::VarAnnotation { .. } => yes(primary),
            CC::VarKey { meta, .. } | CC::VarData { meta, .. } => yes(primary && !*meta),
            CC::VarDataSet { .. } => yes(primary),
            _ => No,
        },
        T_SET => match c {
            CC::Id { .. } | CC::DataSet { .. } => yes(primary),
            CC::VarDataSet { .. } => yes(primary),
            CC::VarKey { meta, .. } | CC::VarData { meta, .. } => yes(primary && !*meta),
            _ => No,
        },
        T_TEXT => match c {
            CC::Resource { offset, .. } | CC::VarResource { offset, .. } => yes(primary || offset.is_none()),
            CC::Annotation { .. } | CC::VarAnnotation { .. } => yes(primary),
            CC::DataKey { .. } | CC::KeyValue { .. } | CC::Value { .. } => Yes,
            CC::VarKey { meta, .. } => yes(!*meta),
            CC::VarData { meta, .. } => yes(primary || !*meta),
            CC::Text { mode, .. } => yes(*mode % 3 != 2 || !primary),
            CC::Relation { .. } => Yes,
            CC::VarText { .. } => yes(primary),
            _ => No,
        },
        _ => match c {
            CC::Id { .. } => yes(primary),
            CC::Resource { offset, .. } => yes(primary && offset.is_none()),
            CC::DataKey { .. } | CC::VarKey { .. } | CC::VarData { .. } => Yes,
            CC::KeyValue { meta, .. } => yes(primary || *meta),
            _ => No,
        },
    }
}

/// the first constraint of a level that the engine does not implement in its position
pub fn first_unimplemented(lvl: &Lvl) -> Option<(usize, Impl)> {
    for (i, c) in lvl.cons.iter().enumerate() {
        match implemented(lvl.rtype, c, i == 0) {
            Impl::Yes => {}
            other => return Some((i, other)),
        }
    }
    None
}

// ------------------------------------------------------------------------------------------
// iterator-API chains (forms facet)

fn ann_it(a: &ResultItem<Annotation>) -> It {
    It::A(a.handle().as_usize())
}
fn data_it(d: &ResultItem<AnnotationData>) -> It {
    It::D(d.set().handle().as_usize(), d.handle().as_usize())
}
fn key_it(k: &ResultItem<DataKey>) -> It {
    It::K(k.set().handle().as_usize(), k.handle().as_usize())
}
fn text_it(t: &ResultTextSelection) -> It {
    It::T(t.resource().handle().as_usize(), t.begin(), t.end())
}

type BoxA<'s> = Box<dyn Iterator<Item = ResultItem<'s, Annotation>> + 's>;
type BoxD<'s> = Box<dyn Iterator<Item = ResultItem<'s, AnnotationData>> + 's>;
type BoxK<'s> = Box<dyn Iterator<Item = ResultItem<'s, DataKey>> + 's>;
type BoxT<'s> = Box<dyn Iterator<Item = ResultTextSelection<'s>> + 's>;
type BoxR<'s> = Box<dyn Iterator<Item = ResultItem<'s, TextResource>> + 's>;
type BoxS<'s> = Box<dyn Iterator<Item = ResultItem<'s, AnnotationDataSet>> + 's>;

/// What the chain computes; `Unsupported`: no obvious chain for one of the constraints, `Missing`: a referent
/// (id) does not exist, so the chain cannot even be written down.
pub enum Chain {
    Items(Vec<It>, String),
    Unsupported,
    Missing,
    Panic(PanicInfo, String),
}

/// `universe.filter_x(..).filter_y(..)` for a single level without variables. Returns the items and a
/// description of the chain.
pub fn chain(store: &AnnotationStore, lvl: &Lvl) -> Chain {
    if lvl.cons.iter().any(|c| c.uses_var() || c.is_limit()) {
        return Chain::Unsupported;
    }
    let mut desc = String::new();
    let r = catch(|| chain_inner(store, lvl, &mut desc));
    match r {
        Ok(Some(Ok(items))) => Chain::Items(items, desc),
        Ok(Some(Err(()))) => Chain::Missing,
        Ok(None) => Chain::Unsupported,
        Err(p) => Chain::Panic(p, desc),
    }
}

fn union_items(store: &AnnotationStore, rt: u8, arms: &[CC], desc: &mut String) -> Option<Result<BTreeSet<It>, ()>> {
    let mut all: BTreeSet<It> = BTreeSet::new();
    desc.push_str("{");
    for a in arms {
        let l = Lvl { rtype: rt, optional: false, name: "u".into(), cons: vec![a.clone()] };
        match chain_inner(store, &l, desc)? {
            Ok(items) => all.extend(items),
            Err(()) => {} // an arm whose referent does not exist contributes nothing
        }
        desc.push_str(" | ");
    }
    desc.push_str("}");
    Some(Ok(all))
}

fn chain_inner(store: &AnnotationStore, lvl: &Lvl, desc: &mut String) -> Option<Result<Vec<It>, ()>> {
    let key_of = |set: &str, key: &str| store.key(set, key);
    match lvl.rtype % 6 {
        T_ANN => {
            desc.push_str("store.annotations()");
            let mut it: BoxA = Box::new(store.annotations());
            for c in &lvl.cons {
                it = match c {
                    CC::Id { id } => match store.annotation(id.as_str()) {
                        Some(a) => {
                            desc.push_str(".filter_one(annotation)");
                            Box::new(it.filter_one(&a))
                        }
                        None => return Some(Err(())),
                    },
                    CC::DataKey { set, key, meta: false, .. } => match key_of(set, key) {
                        Some(k) => {
                            desc.push_str(".filter_key(key)");
                            Box::new(it.filter_key(&k))
                        }
                        None => return Some(Err(())),
                    },
                    CC::KeyValue { set, key, op, meta: false, .. } => match key_of(set, key) {
                        Some(k) => {
                            desc.push_str(".filter_key_value(key, op)");
                            Box::new(it.filter_key_value(&k, op.dop().to_stam()))
                        }
                        None => return Some(Err(())),
                    },
                    CC::Value { op } => {
                        desc.push_str(".filter_value(op)");
                        Box::new(it.filter_value(op.dop().to_stam()))
                    }
                    CC::Text { w, mode } => match mode % 3 {
                        0 => {
                            desc.push_str(".filter_text(w, true, \" \")");
                            Box::new(it.filter_text(w.clone(), true, " "))
                        }
                        1 => {
                            desc.push_str(".filter_text(w, false, \" \")");
                            Box::new(it.filter_text(w.clone(), false, " "))
                        }
                        _ => {
                            desc.push_str(".filter_text_regex(re, \" \")");
                            Box::new(it.filter_text_regex(Regex::new(w).ok()?, " "))
                        }
                    },
                    CC::Resource { id, meta, .. } => match store.resource(id.as_str()) {
                        Some(r) => {
                            if *meta {
                                desc.push_str(".filter_resource_as_metadata(resource)");
                                Box::new(it.filter_resource_as_metadata(&r))
                            } else {
                                desc.push_str(".filter_resource(resource)");
                                Box::new(it.filter_resource(&r))
                            }
                        }
                        None => return Some(Err(())),
                    },
                    CC::DataSet { id, meta: false, .. } => match store.dataset(id.as_str()) {
                        Some(s) => {
                            desc.push_str(".filter_set(dataset)");
                            Box::new(it.filter_set(&s))
                        }
                        None => return Some(Err(())),
                    },
                    CC::DataSet { id, meta: true, .. } => match store.dataset(id.as_str()) {
                        Some(s) => {
                            desc.push_str(".filter_any(dataset.annotations())");
                            Box::new(it.filter_any(s.annotations().to_handles(store)))
                        }
                        None => return Some(Err(())),
                    },
                    CC::Annotation { id, meta, rec, .. } => match store.annotation(id.as_str()) {
                        Some(x) => {
                            if *meta {
                                desc.push_str(".filter_annotation_in_targets(x, depth)");
                                Box::new(it.filter_annotation_in_targets(&x, if *rec { AnnotationDepth::Max } else { AnnotationDepth::One }))
                            } else {
                                desc.push_str(".filter_annotation(x)");
                                Box::new(it.filter_annotation(&x))
                            }
                        }
                        None => return Some(Err(())),
                    },
                    CC::Union(arms) => match union_items(store, T_ANN, arms, desc)? {
                        Ok(set) => {
                            desc.push_str(".filter(in union)");
                            Box::new(it.filter(move |a| set.contains(&ann_it(a))))
                        }
                        Err(()) => return Some(Err(())),
                    },
                    _ => return None,
                };
            }
            Some(Ok(it.map(|a| ann_it(&a)).collect()))
        }
        T_DATA => {
            desc.push_str("store.data()");
            let mut it: BoxD = Box::new(store.data());
            for c in &lvl.cons {
                it = match c {
                    CC::DataKey { set, key, meta: false, .. } => match key_of(set, key) {
                        Some(k) => {
                            desc.push_str(".filter_key(key)");
                            Box::new(it.filter_key(&k))
                        }
                        None => return Some(Err(())),
                    },
                    CC::KeyValue { set, key, op, meta: false, .. } => match key_of(set, key) {
                        Some(k) => {
                            desc.push_str(".filter_key(key).filter_value(op)");
                            Box::new(it.filter_key(&k).filter_value(op.dop().to_stam()))
                        }
                        None => return Some(Err(())),
                    },
                    CC::Value { op } => {
                        desc.push_str(".filter_value(op)");
                        Box::new(it.filter_value(op.dop().to_stam()))
                    }
                    CC::DataSet { id, meta: false, .. } => match store.dataset(id.as_str()) {
                        Some(s) => {
                            desc.push_str(".filter_set(dataset)");
                            Box::new(it.filter_set(&s))
                        }
                        None => return Some(Err(())),
                    },
                    CC::Annotation { id, meta: false, .. } => match store.annotation(id.as_str()) {
                        Some(x) => {
                            desc.push_str(".filter_annotation(x)");
                            Box::new(it.filter_annotation(&x))
                        }
                        None => return Some(Err(())),
                    },
                    CC::Annotation { id, meta: true, .. } => match store.annotation(id.as_str()) {
                        Some(x) => {
                            desc.push_str(".filter_any(x.data_as_metadata())");
                            Box::new(it.filter_any(x.data_as_metadata().to_handles(store)))
                        }
                        None => return Some(Err(())),
                    },
                    CC::Union(arms) => match union_items(store, T_DATA, arms, desc)? {
                        Ok(set) => {
                            desc.push_str(".filter(in union)");
                            Box::new(it.filter(move |d| set.contains(&data_it(d))))
                        }
                        Err(()) => return Some(Err(())),
                    },
                    _ => return None,
                };
            }
            Some(Ok(it.map(|d| data_it(&d)).collect()))
        }
        T_KEY => {
            desc.push_str("store.keys()");
            let mut it: BoxK = Box::new(store.keys());
            for c in &lvl.cons {
                it = match c {
                    CC::DataSet { id, meta: false, .. } => match store.dataset(id.as_str()) {
                        Some(s) => {
                            desc.push_str(".filter_set(dataset)");
                            Box::new(it.filter_set(&s))
                        }
                        None => return Some(Err(())),
                    },
                    CC::Annotation { id, meta: false, .. } => match store.annotation(id.as_str()) {
                        Some(x) => {
                            desc.push_str(".filter_annotation(x)");
                            Box::new(it.filter_annotation(&x))
                        }
                        None => return Some(Err(())),
                    },
                    CC::Annotation { id, meta: true, .. } => match store.annotation(id.as_str()) {
                        Some(x) => {
                            desc.push_str(".filter_any(x.keys_as_metadata())");
                            Box::new(it.filter_any(x.keys_as_metadata().to_handles(store)))
                        }
                        None => return Some(Err(())),
                    },
                    CC::Union(arms) => match union_items(store, T_KEY, arms, desc)? {
                        Ok(set) => {
                            desc.push_str(".filter(in union)");
                            Box::new(it.filter(move |k| set.contains(&key_it(k))))
                        }
                        Err(()) => return Some(Err(())),
                    },
                    _ => return None,
                };
            }
            Some(Ok(it.map(|k| key_it(&k)).collect()))
        }
        T_SET => {
            desc.push_str("store.datasets()");
            let mut it: BoxS = Box::new(store.datasets());
            for c in &lvl.cons {
                it = match c {
                    CC::Id { id } | CC::DataSet { id, .. } => match store.dataset(id.as_str()) {
                        Some(s) => {
                            desc.push_str(".filter_handle(dataset)");
                            Box::new(it.filter_handle(s.handle()))
                        }
                        None => return Some(Err(())),
                    },
                    CC::Union(arms) => match union_items(store, T_SET, arms, desc)? {
                        Ok(set) => {
                            desc.push_str(".filter(in union)");
                            Box::new(it.filter(move |s| set.contains(&It::S(s.handle().as_usize()))))
                        }
                        Err(()) => return Some(Err(())),
                    },
                    _ => return None,
                };
            }
            Some(Ok(it.map(|s| It::S(s.handle().as_usize())).collect()))
        }
        T_RES => {
            desc.push_str("store.resources()");
            let mut it: BoxR = Box::new(store.resources());
            for c in &lvl.cons {
                it = match c {
                    CC::Id { id } | CC::Resource { id, .. } => match store.resource(id.as_str()) {
                        Some(r) => {
                            desc.push_str(".filter_one(resource)");
                            Box::new(it.filter_one(&r))
                        }
                        None => return Some(Err(())),
                    },
                    CC::DataKey { set, key, meta, .. } => match key_of(set, key) {
                        Some(k) => {
                            if *meta {
                                desc.push_str(".filter_key_in_metadata(key)");
                                Box::new(it.filter_key_in_metadata(&k))
                            } else {
                                desc.push_str(".filter_key_on_text(key)");
                                Box::new(it.filter_key_on_text(&k))
                            }
                        }
                        None => return Some(Err(())),
                    },
                    CC::KeyValue { set, key, op, meta, .. } => match key_of(set, key) {
                        Some(k) => {
                            if *meta {
                                desc.push_str(".filter_key_value_in_metadata(key, op)");
                                Box::new(it.filter_key_value_in_metadata(&k, op.dop().to_stam()))
                            } else {
                                desc.push_str(".filter_key_value_on_text(key, op)");
                                Box::new(it.filter_key_value_on_text(&k, op.dop().to_stam()))
                            }
                        }
                        None => return Some(Err(())),
                    },
                    CC::Union(arms) => match union_items(store, T_RES, arms, desc)? {
                        Ok(set) => {
                            desc.push_str(".filter(in union)");
                            Box::new(it.filter(move |r| set.contains(&It::R(r.handle().as_usize()))))
                        }
                        Err(()) => return Some(Err(())),
                    },
                    _ => return None,
                };
            }
            Some(Ok(it.map(|r| It::R(r.handle().as_usize())).collect()))
        }
        _ => {
            // TEXT: the universe of the chain is what the first constraint determines in the query as well
            let mut cons = lvl.cons.iter();
            let mut it: BoxT = match cons.clone().next() {
                Some(CC::Resource { id, offset: None, .. }) => match store.resource(id.as_str()) {
                    Some(r) => {
                        cons.next();
                        desc.push_str("resource.textselections()");
                        Box::new(r.textselections())
                    }
                    None => return Some(Err(())),
                },
                Some(CC::Annotation { id, .. }) => match store.annotation(id.as_str()) {
                    Some(a) => {
                        cons.next();
                        desc.push_str("annotation.textselections()");
                        Box::new(a.textselections())
                    }
                    None => return Some(Err(())),
                },
                Some(CC::Text { w, mode: 0 }) => {
                    cons.next();
                    desc.push_str("store.find_text(w)");
                    Box::new(store.find_text(w.as_str()))
                }
                _ => {
                    desc.push_str("store.annotations().textselections()");
                    Box::new(store.annotations().textselections())
                }
            };
            for c in cons {
                it = match c {
                    CC::Resource { id, offset: None, .. } => match store.resource(id.as_str()) {
                        Some(r) => {
                            desc.push_str(".filter_resource(resource)");
                            Box::new(it.filter_resource(&r))
                        }
                        None => return Some(Err(())),
                    },
                    CC::Annotation { id, .. } => match store.annotation(id.as_str()) {
                        Some(x) => {
                            desc.push_str(".filter_annotation(x)");
                            Box::new(it.filter_annotation(&x))
                        }
                        None => return Some(Err(())),
                    },
                    CC::DataKey { set, key, .. } => match key_of(set, key) {
                        Some(k) => {
                            desc.push_str(".filter_key(key)");
                            Box::new(it.filter_key(&k))
                        }
                        None => return Some(Err(())),
                    },
                    CC::KeyValue { set, key, op, .. } => match key_of(set, key) {
                        Some(k) => {
                            desc.push_str(".filter_key_value(key, op)");
                            Box::new(it.filter_key_value(&k, op.dop().to_stam()))
                        }
                        None => return Some(Err(())),
                    },
                    CC::Value { op } => {
                        desc.push_str(".filter_value(op)");
                        Box::new(it.filter_value(op.dop().to_stam()))
                    }
                    CC::Text { w, mode } => match mode % 3 {
                        0 => {
                            desc.push_str(".filter_text(w, true)");
                            Box::new(it.filter_text(w.clone(), true))
                        }
                        1 => {
                            desc.push_str(".filter_text(w, false)");
                            Box::new(it.filter_text(w.clone(), false))
                        }
                        _ => {
                            desc.push_str(".filter_text_regex(re)");
                            Box::new(it.filter_text_regex(Regex::new(w).ok()?))
                        }
                    },
                    _ => return None,
                };
            }
            Some(Ok(it.map(|t| text_it(&t)).collect()))
        }
    }
}
