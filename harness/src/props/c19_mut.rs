//! C19: document model (order-preserving JSON tree, CSV table, generic CBOR tree) and the mutators that
//! turn a valid serialisation into a hostile one. Everything here is independent of stam.

use crate::engine::pick;
use serde::{Deserialize, Serialize};

/// a set of files; the first one is the main document handed to the loader
pub type DocSet = Vec<(String, Vec<u8>)>;

// ================================================================================================
// JSON tree: keeps member order and duplicate members, numbers as raw text (so that 10^30 survives)

#[derive(Clone, Debug, PartialEq)]
pub enum J {
    Null,
    Bool(bool),
    Num(String),
    Str(String),
    Arr(Vec<J>),
    Obj(Vec<(String, J)>),
}

impl<'de> Deserialize<'de> for J {
    fn deserialize<D: serde::Deserializer<'de>>(d: D) -> Result<J, D::Error> {
        struct V;
        impl<'de> serde::de::Visitor<'de> for V {
            type Value = J;
            fn expecting(&self, f: &mut std::fmt::Formatter) -> std::fmt::Result {
                write!(f, "any JSON value")
            }
            fn visit_bool<E>(self, b: bool) -> Result<J, E> {
                Ok(J::Bool(b))
            }
            fn visit_i64<E>(self, v: i64) -> Result<J, E> {
                Ok(J::Num(v.to_string()))
            }
            fn visit_u64<E>(self, v: u64) -> Result<J, E> {
                Ok(J::Num(v.to_string()))
            }
            fn visit_f64<E>(self, v: f64) -> Result<J, E> {
                Ok(J::Num(format!("{:?}", v)))
            }
            fn visit_str<E>(self, s: &str) -> Result<J, E> {
                Ok(J::Str(s.to_owned()))
            }
            fn visit_string<E>(self, s: String) -> Result<J, E> {
                Ok(J::Str(s))
            }
            fn visit_unit<E>(self) -> Result<J, E> {
                Ok(J::Null)
            }
            fn visit_none<E>(self) -> Result<J, E> {
                Ok(J::Null)
            }
            fn visit_seq<A: serde::de::SeqAccess<'de>>(self, mut a: A) -> Result<J, A::Error> {
                let mut v = vec![];
                while let Some(x) = a.next_element::<J>()? {
                    v.push(x);
                }
                Ok(J::Arr(v))
            }
            fn visit_map<A: serde::de::MapAccess<'de>>(self, mut m: A) -> Result<J, A::Error> {
                let mut v = vec![];
                while let Some(k) = m.next_key::<String>()? {
                    let x = m.next_value::<J>()?;
                    v.push((k, x));
                }
                Ok(J::Obj(v))
            }
        }
        d.deserialize_any(V)
    }
}

impl J {
    /// None unless the bytes are exactly one syntactically valid JSON value
    pub fn parse(bytes: &[u8]) -> Option<J> {
        serde_json::from_slice::<J>(bytes).ok()
    }
    pub fn write(&self) -> String {
        let mut s = String::new();
        self.write_into(&mut s);
        s
    }
    fn write_into(&self, out: &mut String) {
        match self {
            J::Null => out.push_str("null"),
            J::Bool(b) => out.push_str(if *b { "true" } else { "false" }),
            J::Num(n) => out.push_str(n),
            J::Str(s) => out.push_str(&serde_json::to_string(s).unwrap_or_else(|_| "\"\"".into())),
            J::Arr(a) => {
                out.push('[');
                for (i, x) in a.iter().enumerate() {
                    if i > 0 {
                        out.push(',');
                    }
                    x.write_into(out);
                }
                out.push(']');
            }
            J::Obj(m) => {
                out.push('{');
                for (i, (k, x)) in m.iter().enumerate() {
                    if i > 0 {
                        out.push(',');
                    }
                    out.push_str(&serde_json::to_string(k).unwrap_or_else(|_| "\"\"".into()));
                    out.push(':');
                    x.write_into(out);
                }
                out.push('}');
            }
        }
    }
    pub fn get(&self, key: &str) -> Option<&J> {
        match self {
            J::Obj(m) => m.iter().find(|(k, _)| k == key).map(|(_, v)| v),
            _ => None,
        }
    }
    pub fn get_mut(&mut self, key: &str) -> Option<&mut J> {
        match self {
            J::Obj(m) => m.iter_mut().find(|(k, _)| k == key).map(|(_, v)| v),
            _ => None,
        }
    }
    pub fn set(&mut self, key: &str, val: J) {
        if let J::Obj(m) = self {
            if let Some(e) = m.iter_mut().find(|(k, _)| k == key) {
                e.1 = val;
            } else {
                m.push((key.to_string(), val));
            }
        }
    }
    /// insert a member at the position the writer of the library would use (after @type/@id)
    pub fn insert_front(&mut self, key: &str, val: J) {
        if let J::Obj(m) = self {
            let pos = if key == "@id" {
                m.iter().take_while(|(k, _)| k == "@type").count()
            } else {
                m.iter().take_while(|(k, _)| k == "@type" || k == "@id").count()
            };
            m.insert(pos, (key.to_string(), val));
        }
    }
    pub fn remove(&mut self, key: &str) -> Option<J> {
        if let J::Obj(m) = self {
            if let Some(i) = m.iter().position(|(k, _)| k == key) {
                return Some(m.remove(i).1);
            }
        }
        None
    }
    pub fn as_str(&self) -> Option<&str> {
        match self {
            J::Str(s) => Some(s),
            _ => None,
        }
    }
    pub fn as_arr(&self) -> Option<&Vec<J>> {
        match self {
            J::Arr(a) => Some(a),
            _ => None,
        }
    }
    pub fn as_arr_mut(&mut self) -> Option<&mut Vec<J>> {
        match self {
            J::Arr(a) => Some(a),
            _ => None,
        }
    }
    fn child(&self, i: usize) -> Option<&J> {
        match self {
            J::Arr(a) => a.get(i),
            J::Obj(m) => m.get(i).map(|(_, v)| v),
            _ => None,
        }
    }
    fn child_mut(&mut self, i: usize) -> Option<&mut J> {
        match self {
            J::Arr(a) => a.get_mut(i),
            J::Obj(m) => m.get_mut(i).map(|(_, v)| v),
            _ => None,
        }
    }
    fn at(&self, path: &[usize]) -> Option<&J> {
        let mut cur = self;
        for i in path {
            cur = cur.child(*i)?;
        }
        Some(cur)
    }
    fn at_mut(&mut self, path: &[usize]) -> Option<&mut J> {
        let mut cur = self;
        for i in path {
            cur = cur.child_mut(*i)?;
        }
        Some(cur)
    }
    /// paths (child indices from the root) of all non-root nodes satisfying `pred(member name, value)`, in document order
    fn paths(&self, pred: &dyn Fn(Option<&str>, &J) -> bool) -> Vec<Vec<usize>> {
        fn rec(j: &J, cur: &mut Vec<usize>, pred: &dyn Fn(Option<&str>, &J) -> bool, out: &mut Vec<Vec<usize>>) {
            match j {
                J::Arr(a) => {
                    for (i, x) in a.iter().enumerate() {
                        cur.push(i);
                        if pred(None, x) {
                            out.push(cur.clone());
                        }
                        rec(x, cur, pred, out);
                        cur.pop();
                    }
                }
                J::Obj(m) => {
                    for (i, (k, x)) in m.iter().enumerate() {
                        cur.push(i);
                        if pred(Some(k), x) {
                            out.push(cur.clone());
                        }
                        rec(x, cur, pred, out);
                        cur.pop();
                    }
                }
                _ => {}
            }
        }
        let mut out = vec![];
        rec(self, &mut vec![], pred, &mut out);
        out
    }
    fn strings(&self, out: &mut Vec<String>) {
        match self {
            J::Str(s) => {
                if !out.contains(s) {
                    out.push(s.clone());
                }
            }
            J::Arr(a) => a.iter().for_each(|x| x.strings(out)),
            J::Obj(m) => m.iter().for_each(|(_, x)| x.strings(out)),
            _ => {}
        }
    }
}

// ================================================================================================
// CSV table (RFC 4180 reading; None when not syntactically a table with equally long records)

pub fn csv_parse(bytes: &[u8]) -> Option<Vec<Vec<String>>> {
    let text = std::str::from_utf8(bytes).ok()?;
    let mut rows: Vec<Vec<String>> = vec![];
    let mut row: Vec<String> = vec![];
    let mut cell = String::new();
    let mut chars = text.chars().peekable();
    let mut in_quotes = false;
    let mut cell_started_quoted = false;
    let mut any = false;
    while let Some(c) = chars.next() {
        any = true;
        if in_quotes {
            if c == '"' {
                if chars.peek() == Some(&'"') {
                    chars.next();
                    cell.push('"');
                } else {
                    in_quotes = false;
                }
            } else {
                cell.push(c);
            }
        } else {
            match c {
                '"' if cell.is_empty() && !cell_started_quoted => {
                    in_quotes = true;
                    cell_started_quoted = true;
                }
                ',' => {
                    row.push(std::mem::take(&mut cell));
                    cell_started_quoted = false;
                }
                '\r' => {
                    if chars.peek() == Some(&'\n') {
                        chars.next();
                    }
                    row.push(std::mem::take(&mut cell));
                    cell_started_quoted = false;
                    rows.push(std::mem::take(&mut row));
                }
                '\n' => {
                    row.push(std::mem::take(&mut cell));
                    cell_started_quoted = false;
                    rows.push(std::mem::take(&mut row));
                }
                _ => cell.push(c),
            }
        }
    }
    if in_quotes {
        return None;
    }
    if !cell.is_empty() || !row.is_empty() || cell_started_quoted {
        row.push(cell);
        rows.push(row);
    }
    if !any || rows.is_empty() {
        return None;
    }
    // blank lines are skipped by readers
    rows.retain(|r| !(r.len() == 1 && r[0].is_empty()));
    let n = rows.first()?.len();
    if rows.iter().any(|r| r.len() != n) {
        return None;
    }
    Some(rows)
}

pub fn csv_write(rows: &[Vec<String>]) -> String {
    let mut out = String::new();
    for r in rows {
        for (i, c) in r.iter().enumerate() {
            if i > 0 {
                out.push(',');
            }
            if c.contains(|ch| ch == ',' || ch == '"' || ch == '\n' || ch == '\r') || c.starts_with(' ') || c.ends_with(' ') {
                out.push('"');
                out.push_str(&c.replace('"', "\"\""));
                out.push('"');
            } else {
                out.push_str(c);
            }
        }
        out.push('\n');
    }
    out
}

// ================================================================================================
// generic CBOR tree (hand-written so that the check does not share a decoder with the library)

#[derive(Clone, Debug, PartialEq)]
pub enum C {
    U(u64),
    /// negative integer -1-n
    N(u64),
    B(Vec<u8>),
    T(String),
    A(Vec<C>),
    /// stam dialect: the array of a `Config` declares one element more than it holds (the slot of the
    /// serialisation mode is written by an encoder that emits nothing)
    Cfg(Vec<C>),
    M(Vec<(C, C)>),
    Tag(u64, Box<C>),
    /// major type 7 with its additional information and argument (simple values, floats)
    S(u8, u64),
    /// indefinite-length containers / strings are kept verbatim as (major, items)
    IndefA(Vec<C>),
    IndefM(Vec<(C, C)>),
    IndefS(u8, Vec<C>),
}

const CBOR_MAX_DEPTH: usize = 96;

/// declared length of the array that encodes a stam `Config` (highest field index 106)
const STAM_CONFIG_LEN: u64 = 107;

struct CDec<'a> {
    b: &'a [u8],
    p: usize,
    /// read the dialect stam writes (see `C::Cfg`)
    dialect: bool,
}

impl<'a> CDec<'a> {
    fn byte(&mut self) -> Option<u8> {
        let x = *self.b.get(self.p)?;
        self.p += 1;
        Some(x)
    }
    fn arg(&mut self, info: u8) -> Option<u64> {
        Some(match info {
            0..=23 => info as u64,
            24 => self.byte()? as u64,
            25 => {
                let s = self.b.get(self.p..self.p + 2)?;
                self.p += 2;
                u16::from_be_bytes([s[0], s[1]]) as u64
            }
            26 => {
                let s = self.b.get(self.p..self.p + 4)?;
                self.p += 4;
                u32::from_be_bytes([s[0], s[1], s[2], s[3]]) as u64
            }
            27 => {
                let s = self.b.get(self.p..self.p + 8)?;
                self.p += 8;
                u64::from_be_bytes([s[0], s[1], s[2], s[3], s[4], s[5], s[6], s[7]])
            }
            _ => return None,
        })
    }
    fn item(&mut self, depth: usize) -> Option<C> {
        if depth > CBOR_MAX_DEPTH {
            return None;
        }
        let h = self.byte()?;
        let (major, info) = (h >> 5, h & 0x1f);
        if info == 31 {
            return match major {
                2 | 3 => {
                    let mut chunks = vec![];
                    loop {
                        if *self.b.get(self.p)? == 0xff {
                            self.p += 1;
                            break;
                        }
                        let c = self.item(depth + 1)?;
                        match (&c, major) {
                            (C::B(_), 2) | (C::T(_), 3) => chunks.push(c),
                            _ => return None,
                        }
                    }
                    Some(C::IndefS(major, chunks))
                }
                4 => {
                    let mut v = vec![];
                    loop {
                        if *self.b.get(self.p)? == 0xff {
                            self.p += 1;
                            break;
                        }
                        v.push(self.item(depth + 1)?);
                    }
                    Some(C::IndefA(v))
                }
                5 => {
                    let mut v = vec![];
                    loop {
                        if *self.b.get(self.p)? == 0xff {
                            self.p += 1;
                            break;
                        }
                        let k = self.item(depth + 1)?;
                        let x = self.item(depth + 1)?;
                        v.push((k, x));
                    }
                    Some(C::IndefM(v))
                }
                _ => None,
            };
        }
        if major == 7 {
            let a = self.arg(info)?;
            return Some(C::S(info, a));
        }
        let a = self.arg(info)?;
        Some(match major {
            0 => C::U(a),
            1 => C::N(a),
            2 => {
                let n = usize::try_from(a).ok()?;
                let s = self.b.get(self.p..self.p.checked_add(n)?)?;
                self.p += n;
                C::B(s.to_vec())
            }
            3 => {
                let n = usize::try_from(a).ok()?;
                let s = self.b.get(self.p..self.p.checked_add(n)?)?;
                self.p += n;
                C::T(std::str::from_utf8(s).ok()?.to_string())
            }
            4 => {
                if a > self.b.len() as u64 {
                    return None;
                }
                let mut v = Vec::new();
                if self.dialect && a == STAM_CONFIG_LEN {
                    for _ in 0..a - 1 {
                        v.push(self.item(depth + 1)?);
                    }
                    return Some(C::Cfg(v));
                }
                for _ in 0..a {
                    v.push(self.item(depth + 1)?);
                }
                C::A(v)
            }
            5 => {
                if a > self.b.len() as u64 {
                    return None;
                }
                let mut v = Vec::new();
                for _ in 0..a {
                    let k = self.item(depth + 1)?;
                    let x = self.item(depth + 1)?;
                    v.push((k, x));
                }
                C::M(v)
            }
            6 => C::Tag(a, Box::new(self.item(depth + 1)?)),
            _ => return None,
        })
    }
}

fn cbor_head(out: &mut Vec<u8>, major: u8, a: u64) {
    let m = major << 5;
    if a < 24 {
        out.push(m | a as u8);
    } else if a <= 0xff {
        out.push(m | 24);
        out.push(a as u8);
    } else if a <= 0xffff {
        out.push(m | 25);
        out.extend_from_slice(&(a as u16).to_be_bytes());
    } else if a <= 0xffff_ffff {
        out.push(m | 26);
        out.extend_from_slice(&(a as u32).to_be_bytes());
    } else {
        out.push(m | 27);
        out.extend_from_slice(&a.to_be_bytes());
    }
}

impl C {
    /// None unless the bytes are exactly one well-formed CBOR item (nesting up to 96 levels)
    pub fn parse(bytes: &[u8]) -> Option<C> {
        let mut d = CDec { b: bytes, p: 0, dialect: false };
        let c = d.item(0)?;
        if d.p != bytes.len() {
            return None;
        }
        Some(c)
    }
    /// the same for the dialect stam writes (a generic decoder cannot read its files: see `C::Cfg`)
    pub fn parse_stam(bytes: &[u8]) -> Option<C> {
        let mut d = CDec { b: bytes, p: 0, dialect: true };
        let c = d.item(0)?;
        if d.p != bytes.len() {
            return None;
        }
        Some(c)
    }
    /// deterministic form of a file written by stam: map entries sorted by their encoded key (id maps are
    /// hash maps and come in a different order every time), text containing `from` rewritten to `to`
    pub fn canonical(&mut self, from: &str, to: &str) {
        match self {
            C::T(s) => {
                if !from.is_empty() && s.contains(from) {
                    *s = s.replace(from, to);
                }
            }
            C::M(v) | C::IndefM(v) => {
                for (k, x) in v.iter_mut() {
                    k.canonical(from, to);
                    x.canonical(from, to);
                }
                v.sort_by_key(|(k, _)| k.write());
            }
            _ => {
                for c in self.children_mut() {
                    c.canonical(from, to);
                }
            }
        }
    }
    pub fn write(&self) -> Vec<u8> {
        let mut out = vec![];
        self.write_into(&mut out);
        out
    }
    fn write_into(&self, out: &mut Vec<u8>) {
        match self {
            C::U(a) => cbor_head(out, 0, *a),
            C::N(a) => cbor_head(out, 1, *a),
            C::B(b) => {
                cbor_head(out, 2, b.len() as u64);
                out.extend_from_slice(b);
            }
            C::T(s) => {
                cbor_head(out, 3, s.len() as u64);
                out.extend_from_slice(s.as_bytes());
            }
            C::A(v) => {
                cbor_head(out, 4, v.len() as u64);
                v.iter().for_each(|x| x.write_into(out));
            }
            C::Cfg(v) => {
                cbor_head(out, 4, v.len() as u64 + 1);
                v.iter().for_each(|x| x.write_into(out));
            }
            C::M(v) => {
                cbor_head(out, 5, v.len() as u64);
                v.iter().for_each(|(k, x)| {
                    k.write_into(out);
                    x.write_into(out)
                });
            }
            C::Tag(t, x) => {
                cbor_head(out, 6, *t);
                x.write_into(out);
            }
            C::S(info, a) => {
                out.push(0xe0 | info);
                match info {
                    24 => out.push(*a as u8),
                    25 => out.extend_from_slice(&(*a as u16).to_be_bytes()),
                    26 => out.extend_from_slice(&(*a as u32).to_be_bytes()),
                    27 => out.extend_from_slice(&a.to_be_bytes()),
                    _ => {}
                }
            }
            C::IndefA(v) => {
                out.push(0x9f);
                v.iter().for_each(|x| x.write_into(out));
                out.push(0xff);
            }
            C::IndefM(v) => {
                out.push(0xbf);
                v.iter().for_each(|(k, x)| {
                    k.write_into(out);
                    x.write_into(out)
                });
                out.push(0xff);
            }
            C::IndefS(major, v) => {
                out.push((major << 5) | 31);
                v.iter().for_each(|x| x.write_into(out));
                out.push(0xff);
            }
        }
    }
    fn children_mut(&mut self) -> Vec<&mut C> {
        match self {
            C::A(v) | C::Cfg(v) | C::IndefA(v) | C::IndefS(_, v) => v.iter_mut().collect(),
            C::M(v) | C::IndefM(v) => v.iter_mut().flat_map(|(k, x)| [k, x]).collect(),
            C::Tag(_, x) => vec![x.as_mut()],
            _ => vec![],
        }
    }
    fn children(&self) -> Vec<&C> {
        match self {
            C::A(v) | C::Cfg(v) | C::IndefA(v) | C::IndefS(_, v) => v.iter().collect(),
            C::M(v) | C::IndefM(v) => v.iter().flat_map(|(k, x)| [k, x]).collect(),
            C::Tag(_, x) => vec![x.as_ref()],
            _ => vec![],
        }
    }
    /// number of nodes satisfying pred (document order, root included)
    fn count(&self, pred: &dyn Fn(&C) -> bool) -> usize {
        let mut n = if pred(self) { 1 } else { 0 };
        for c in self.children() {
            n += c.count(pred);
        }
        n
    }
    /// the k-th node satisfying pred
    fn nth_mut(&mut self, k: &mut usize, pred: &dyn Fn(&C) -> bool) -> Option<&mut C> {
        if pred(self) {
            if *k == 0 {
                return Some(self);
            }
            *k -= 1;
        }
        for c in self.children_mut() {
            if let Some(x) = c.nth_mut(k, pred) {
                return Some(x);
            }
        }
        None
    }
    fn ints(&self, out: &mut Vec<u64>) {
        if let C::U(a) = self {
            if !out.contains(a) {
                out.push(*a);
            }
        }
        for c in self.children() {
            c.ints(out);
        }
    }
}

// ================================================================================================
// mutations

pub const NUMS: [&str; 22] = [
    "0",
    "-1",
    "1",
    "2",
    "65535",
    "65536",
    "2147483648",
    "4294967295",
    "4294967296",
    "9223372036854775807",
    "9223372036854775808",
    "18446744073709551615",
    "18446744073709551616",
    "-9223372036854775808",
    "-9223372036854775809",
    "1000000000000000000000000000000",
    "-1000000000000000000000000000000",
    "1.5",
    "-0",
    "-0.0",
    "1e400",
    "1e30",
];

/// handle numbers for temporary ids (`!A<n>`): 0 to 10^12 and beyond
pub const TEMP_N: [&str; 21] = [
    "0",
    "1",
    "2",
    "3",
    "7",
    "64",
    "1000",
    "65535",
    "65536",
    "65537",
    "100000",
    "5000000",
    "4294967295",
    "4294967296",
    "1000000000000",
    "9223372036854775807",
    "9223372036854775808",
    "18446744073709551615",
    "18446744073709551616",
    "1000000000000000000000000000000",
    "00",
];

pub const TEMP_LETTERS: [&str; 8] = ["A", "D", "K", "R", "S", "I", "X", "a"];

pub const SPECIAL_STR: [&str; 30] = [
    "",
    "-",
    "nonexistent",
    "nonexistent.txt",
    "nonexistent.json",
    ".",
    "..",
    "!",
    "!A",
    "!A-1",
    "!Ax",
    "!A 1",
    "!A+1",
    "!1",
    "Annotation",
    "AnnotationStore",
    "AnnotationDataSet",
    "TextResource",
    "AnnotationData",
    "DataKey",
    "TextSelector",
    "AnnotationSelector",
    "MultiSelector",
    "BeginAlignedCursor",
    "EndAlignedCursor",
    "Offset",
    "https://example.org/x",
    "file://x",
    "\u{0}",
    "xxxxxxxxxxxxxxxxxxxxxxxxxxxxxxxxxxxxxxxxxxxxxxxxxxxxxxxxxxxxxxxxxxxxxxxxxxxxxxxxxxxxxxxxxxxxxxxxxxxxxxxxxxxxxxxxxxxxxxxxxxxxxxxxxxxxxxxxxxxxxxxxxxxxxxxxxxxxxxxxxxxxxxxxxxxxxxxxxxxxxxxxxxxxxxxxxxxxxxxxxxxxxxxxxxxxxxxxxxxxxxxxxxxxxxxxxxxxxxxxxxxxxxxxxxxxxxxxxxxxxxxxxxxxxxxxxxx",
];

pub const SPECIAL_CELL: [&str; 44] = [
    "",
    "0",
    "-0",
    "-1",
    "1",
    "99999999999999999999",
    "18446744073709551615",
    "9223372036854775808",
    "-9223372036854775808",
    "-9223372036854775809",
    "1.5",
    " 1",
    "+1",
    "1;2",
    ";",
    ";;",
    "FooSelector",
    "TextSelector",
    "AnnotationSelector",
    "ResourceSelector",
    "DataSetSelector",
    "DataKeySelector",
    "AnnotationDataSelector",
    "MultiSelector",
    "CompositeSelector",
    "DirectionalSelector",
    "InternalRangedSelector",
    "MultiSelector;TextSelector",
    "CompositeSelector;DataKeySelector",
    "DirectionalSelector;AnnotationDataSelector",
    "MultiSelector;AnnotationSelector;AnnotationSelector",
    "MultiSelector;MultiSelector;TextSelector",
    "CompositeSelector;DataSetSelector;ResourceSelector",
    "AnnotationStore",
    "TextResource",
    "AnnotationDataSet",
    "Annotation",
    "-",
    "nonexistent.txt",
    "\"",
    "a,b",
    "line\nbreak",
    "!A0",
    "!D70000",
];

pub const RETYPES: u8 = 12;
pub const ADD_KEYS: [&str; 14] = [
    "@include",
    "@id",
    "@type",
    "text",
    "resources",
    "annotationsets",
    "annotations",
    "keys",
    "data",
    "target",
    "offset",
    "value",
    "selectors",
    "unknown-member",
];

pub const INSERTS: [&str; 12] = ["{", "}", "[", "]", "\"", ",", ":", "\n", "null", "##### x\n", "\u{feff}", "\\"];

pub const CBOR_INTS: [u64; 16] = [
    0,
    1,
    2,
    23,
    24,
    255,
    256,
    65535,
    65536,
    4294967295,
    4294967296,
    9223372036854775807,
    9223372036854775808,
    u64::MAX,
    100,
    1000,
];

/// what a hostile string may start with: the prefixes the library tests for (and then slices after)
pub const HOSTILE_PREFIX: [&str; 28] = [
    "", "", "!", "!", "!", "!A", "!D", "!K", "!R", "!S", "!!", "_:", "_", "http", "http:", "http://", "https://", "file://", "urn:", "#", "@", "-", ".", "/", ";", "\u{feff}", "!\u{301}", " ",
];

/// the hostile alphabet: upper / lower / title case letters, digits and marks of 1, 2, 3 and 4 bytes, and the
/// separators of the formats
pub const HOSTILE_CHARS: [char; 48] = [
    // 2 bytes
    'Ü', 'É', 'Ω', 'Д', 'Ď', 'ǅ', 'é', 'ß', 'ı', 'İ', '٣', '\u{301}', '\u{a0}', 'µ',
    // 3 bytes
    'Ⅷ', 'Ａ', '９', '日', 'ẞ', '€', '\u{2028}', '\u{200b}', '\u{feff}', 'ﬁ', 'Ⓐ',
    // 4 bytes
    '😀', '𝔘', '𝟗', '𐐀', '𐐨', '\u{e0041}',
    // 1 byte
    'A', 'Z', 'a', 'x', '0', '1', '9', '!', '_', ':', ';', ',', '/', ' ', '"', '\\', '\u{0}',
];

/// byte lengths a hostile string is stretched to (just beyond the places where excerpts get cut)
pub const HOSTILE_FIT: [usize; 8] = [124, 130, 200, 260, 300, 520, 1030, 4100];

#[derive(Clone, Debug, Serialize, Deserialize, PartialEq, Default)]
pub struct HStr {
    /// HOSTILE_PREFIX[pre]
    pub pre: u8,
    /// indices into HOSTILE_CHARS
    pub body: Vec<u8>,
    /// 0: nothing, else TEMP_N[num-1] appended
    pub num: u8,
    /// 0: as is, else the body is repeated until the string has at least HOSTILE_FIT[fit-1] bytes
    pub fit: u8,
}

impl HStr {
    pub fn render(&self) -> String {
        let mut s = HOSTILE_PREFIX[self.pre as usize % HOSTILE_PREFIX.len()].to_string();
        let ch = |i: u8| HOSTILE_CHARS[i as usize % HOSTILE_CHARS.len()];
        for i in &self.body {
            s.push(ch(*i));
        }
        if self.fit > 0 {
            let want = HOSTILE_FIT[(self.fit as usize - 1) % HOSTILE_FIT.len()];
            // (an empty body is stretched with a 2-, a 3- and a 4-byte character)
            let cycle: Vec<char> = if self.body.is_empty() { vec!['é', '日', '😀'] } else { self.body.iter().map(|i| ch(*i)).collect() };
            let mut k = 0;
            while s.len() < want {
                s.push(cycle[k % cycle.len()]);
                k += 1;
            }
        }
        if self.num > 0 {
            s.push_str(TEMP_N[(self.num as usize - 1) % TEMP_N.len()]);
        }
        s
    }
}

/// classification of a string that was put into a document (for the label counts)
pub fn string_features(s: &str, out: &mut Vec<String>) {
    let mut push = |l: &str| {
        let l = format!("str:{}", l);
        if !out.contains(&l) {
            out.push(l);
        }
    };
    if !s.is_ascii() {
        push("non-ascii");
    }
    if let Some(rest) = s.strip_prefix('!') {
        match rest.chars().next() {
            None => push("bang+nothing"),
            Some(c) if !c.is_ascii() && c.is_uppercase() => push("bang+multibyte-upper"),
            Some(c) if !c.is_ascii() => push("bang+multibyte-other"),
            Some(c) if c.is_ascii_uppercase() => {
                let tail = &rest[1..];
                if tail.is_empty() {
                    push("bang+letter");
                } else if tail.bytes().all(|b| b.is_ascii_digit()) {
                    push("bang+letter+digits");
                } else if !tail.is_ascii() {
                    push("bang+letter+multibyte");
                } else {
                    push("bang+letter+other");
                }
            }
            Some(_) => push("bang+ascii-other"),
        }
    }
    for p in ["_:", "http", "file://", "urn:", "#", "@"] {
        if let Some(rest) = s.strip_prefix(p) {
            if rest.chars().next().map(|c| !c.is_ascii()).unwrap_or(false) {
                push("prefix+multibyte");
            }
        }
    }
    if s.contains(';') && !s.is_ascii() {
        let b = s.as_bytes();
        if (0..b.len()).any(|i| b[i] == b';' && ((i > 0 && b[i - 1] >= 0x80) || (i + 1 < b.len() && b[i + 1] >= 0x80))) {
            push("multibyte-next-to-semicolon");
        }
    }
    for at in [120usize, 128, 256, 1024, 4096] {
        if s.len() > at && !s.is_char_boundary(at) {
            push(&format!("multibyte-across-byte-{}", at));
        }
    }
    if s.len() >= 120 {
        push("long");
    }
}

/// lengths a CBOR header may announce
pub const HEAD_LENS: [u64; 30] = [
    0,
    1,
    2,
    23,
    24,
    255,
    256,
    65535,
    65536,
    65537,
    1 << 20,
    1 << 24,
    1 << 28,
    (1 << 31) - 1,
    1 << 31,
    (1 << 32) - 1,
    1 << 32,
    (1 << 32) + 1,
    1 << 40,
    1 << 48,
    1 << 56,
    1 << 59,
    1 << 60,
    (1 << 63) / 24,
    1 << 62,
    (1 << 63) - 1,
    1 << 63,
    (1 << 63) + 1,
    u64::MAX - 1,
    u64::MAX,
];

#[derive(Clone, Debug, Serialize, Deserialize, PartialEq)]
pub enum LenChoice {
    /// real length + d ("a bit more / less than there is")
    Delta(i8),
    /// HEAD_LENS[i]
    Abs(u8),
    /// real length * 2^k
    Shift(u8),
    /// indefinite length (the content is followed by a break)
    Indef,
}

#[derive(Clone, Debug, Serialize, Deserialize, PartialEq)]
pub enum Field {
    /// any node
    Any,
    /// "@id" members
    Id,
    /// "@include" members
    Include,
    /// members that refer to another item: resource, annotation, annotationset, set, key, data (and "@id" inside an annotation's data list)
    Ref,
    /// "@type" members
    Type,
    /// members of the top-level object
    Top,
    /// "@id" of the elements of one kind of list: 0 annotations, 1 data, 2 keys, 3 resources, 4 annotationsets
    IdOf(u8),
    /// string-valued "value" and "text" members (data values, resource texts)
    Value,
}

pub const ID_LISTS: [&str; 5] = ["annotations", "data", "keys", "resources", "annotationsets"];

/// distance between the numbers of successive temporary ids of a ladder (`Mutation::JLadder`)
pub const LADDER_STEPS: [u64; 8] = [1, 2, 1000, 60000, 65535, 65536, 65537, 1_000_000];
/// number of items the list is grown to (its items repeated cyclically) before the ladder is laid over it
pub const LADDER_GROW: [usize; 6] = [0, 8, 16, 24, 32, 48];
/// the lists a ladder can be laid over: annotations, data of a data set, keys of a data set, data list of an annotation
pub const LADDER_LISTS: [&str; 4] = ["annotations", "data", "keys", "annotation-data"];

/// every spelling a SelectorType entry can have: the six simple kinds, the three complex kinds, and what is none of them
pub const SELECTOR_NAMES: [&str; 18] = [
    "TextSelector",
    "AnnotationSelector",
    "ResourceSelector",
    "DataSetSelector",
    "DataKeySelector",
    "AnnotationDataSelector",
    "MultiSelector",
    "CompositeSelector",
    "DirectionalSelector",
    "InternalRangedSelector",
    "FooSelector",
    "",
    "textselector",
    "resource",
    "multi",
    "TextSelector ",
    "Ünknown",
    "DIRECTIONALSELECTOR",
];

/// the columns of an annotations table that run parallel to SelectorType
pub const SELECTOR_COLUMNS: [&str; 7] = ["TargetResource", "TargetAnnotation", "TargetDataSet", "BeginOffset", "EndOffset", "TargetKey", "TargetData"];

/// how the list of selector types of a row is rewritten (`old` = the entries the cell had, `new` = the drawn names)
#[derive(Clone, Debug, Serialize, Deserialize, PartialEq)]
pub enum SelEdit {
    /// new
    Replace,
    /// new[0] + old[1..]: the head retyped, the rest as it was
    Head,
    /// new + old
    Prepend,
    /// old + new
    Append,
    /// old with the entry at this position (never the head when there is more than one) := new[0]
    At(u16),
    /// old[1..]: the head lost
    DropHead,
    /// old[0] repeated 2 + n times
    RepeatHead(u8),
}

/// what happens to the parallel columns of the row
#[derive(Clone, Debug, Serialize, Deserialize, PartialEq)]
pub enum SelCols {
    /// nothing
    Keep,
    /// every column becomes a list as long as the list of types, with a fitting value of the document (an existing
    /// resource, earlier annotation, data set with one of its keys / data, offsets) where the kind at that position
    /// reads the column and an empty entry elsewhere
    Repair,
    /// the same, then the lists of the columns selected by the bits of `cols` (0 = all) get another length:
    /// how 0: last entry dropped, 1: last entry repeated, 2: collapsed to the first non-empty entry, 3: emptied,
    /// 4: first entry dropped
    RepairThen { cols: u8, how: u8 },
}

#[derive(Clone, Debug, Serialize, Deserialize, PartialEq)]
pub enum NChoice {
    Abs(u8),
    /// number of elements of the nearest enclosing list + d
    Rel(i8),
}

#[derive(Clone, Debug, Serialize, Deserialize, PartialEq)]
pub enum StrChoice {
    /// the k-th distinct string that occurs anywhere in the document set (ids of other items, file names, types)
    Harvest(u16),
    Temp { letter: u8, n: NChoice },
    Special(u8),
    /// name of the k-th file of the document set
    FileName(u16),
    /// name of the file that is being mutated
    OwnFile,
    /// a string from the hostile alphabet
    Hostile(HStr),
}

#[derive(Clone, Debug, Serialize, Deserialize, PartialEq)]
pub enum CellChoice {
    Harvest(u16),
    Special(u8),
    Temp { letter: u8, n: u8 },
    /// cell + ";" + special
    Append(u8),
    /// cell + ";" + harvested
    AppendHarvest(u16),
    /// drop the last ';'-separated element
    DropLast,
    /// the cell repeated n times, ';'-separated
    Repeat(u8),
    Hostile(HStr),
    /// cell + ";" + hostile
    AppendHostile(HStr),
    /// hostile + ";" + cell
    PrependHostile(HStr),
    /// hostile + cell + hostile (no separator)
    Wrap(HStr, HStr),
}

#[derive(Clone, Debug, Serialize, Deserialize, PartialEq)]
pub enum IntChoice {
    Abs(u8),
    Rel(i8),
    Harvest(u16),
}

#[derive(Clone, Debug, Serialize, Deserialize, PartialEq)]
pub enum Mutation {
    // ---- JSON, structured
    JDelete { file: u16, field: Field, nth: u16 },
    JDuplicate { file: u16, field: Field, nth: u16 },
    /// to: 0 front of its parent, 1 back, 2 swap with the next sibling
    JMove { file: u16, field: Field, nth: u16, to: u8 },
    JRetype { file: u16, field: Field, nth: u16, to: u8 },
    /// the nth number of the document := NUMS[val]
    JNum { file: u16, nth: u16, val: u8 },
    JStr { file: u16, field: Field, nth: u16, val: StrChoice },
    /// add member ADD_KEYS[key] to the nth object (0 = the top-level object)
    JAdd { file: u16, nth: u16, key: u8, val: StrChoice },
    // ---- file level (@include of missing, self-referential and mutually recursive files)
    FileDrop { file: u16 },
    FileSwap { a: u16, b: u16 },
    FileSelfInclude { file: u16 },
    FileMutualInclude { a: u16, b: u16 },
    FileCopyMain { file: u16 },
    /// a stand-off file gets a hostile name (its extension kept); via 0: the "@include" members / Filename cells that
    /// named it follow, 1: they follow as "./name", 2: they keep the old name
    FileRename { file: u16, name: HStr, via: u8 },
    // ---- bytes
    Truncate { file: u16, at: u16 },
    FlipBit { file: u16, pos: u16, bit: u8 },
    Splice { file: u16, src: u16, len: u8, dst: u16 },
    Insert { file: u16, pos: u16, what: u8 },
    // ---- CSV
    Cell { file: u16, row: u16, col: u16, val: CellChoice },
    RowDup { file: u16, row: u16 },
    RowDel { file: u16, row: u16 },
    RowSwap { file: u16, row: u16 },
    ColDel { file: u16, col: u16 },
    ColSwap { file: u16, col: u16 },
    /// column-aware: the SelectorType cell of a row of the annotations table (with `fresh` a new row) is rewritten into
    /// a list built from SELECTOR_NAMES[types], the parallel columns follow as `cols` says; `salt` varies the values
    CsvSel { row: u16, fresh: bool, edit: SelEdit, types: Vec<u8>, cols: SelCols, salt: u16 },
    // ---- JSON: a ladder of temporary ids over successive items of one list. The `which`-th list of kind
    // LADDER_LISTS[list] is grown to LADDER_GROW[grow] items, then the items start .. start + run (run 0 = to the
    // end) get "@id" := "!" + letter + (k * LADDER_STEPS[step] + jitter_k); letter 0 = the letter of the list
    JLadder { file: u16, list: u8, which: u16, grow: u8, start: u16, run: u8, letter: u8, step: u8, jitter: u8 },
    // ---- CBOR, structured (decode to a generic tree, edit, re-encode)
    CInt { nth: u16, val: IntChoice },
    CDelete { nth: u16 },
    CDup { nth: u16 },
    CSwap { nth: u16 },
    CRetype { nth: u16, to: u8 },
    CStr { nth: u16, val: StrChoice },
    /// change the declared length of the nth array/map/string header without touching the content
    /// (replays of earlier versions; `CLen` is what the generator produces)
    CHead { nth: u16, delta: i8 },
    /// one definite-length header (array, map, text, bytes) of the document announces another length; everything
    /// else is written as it was, so that decoding proceeds up to that header. `class`: None = the nth header of
    /// the document, Some(c) = the nth header of the c-th distinct path class (see `C::headers`)
    CLen { class: Option<u16>, nth: u16, len: LenChoice },
    // ---- all formats: every identifier of the document set renamed consistently to pre + id + post (the
    // documents still load, now with long non-ASCII identifiers everywhere); with `values` also the string values
    Rename { pre: HStr, post: HStr, values: bool },
}

impl Mutation {
    pub fn kind(&self) -> &'static str {
        match self {
            Mutation::JDelete { .. } => "json.delete",
            Mutation::JDuplicate { .. } => "json.duplicate",
            Mutation::JMove { .. } => "json.reorder",
            Mutation::JRetype { .. } => "json.retype",
            Mutation::JNum { .. } => "json.integer",
            Mutation::JStr { val: StrChoice::Temp { .. }, .. } => "json.tempid",
            Mutation::JStr { field: Field::Include, .. } => "json.include",
            Mutation::JStr { field: Field::Ref, .. } => "json.reference",
            Mutation::JStr { field: Field::Id | Field::IdOf(_), .. } => "json.id",
            Mutation::JStr { .. } => "json.string",
            Mutation::JAdd { .. } => "json.add",
            Mutation::FileDrop { .. } => "file.missing",
            Mutation::FileSwap { .. } => "file.swap",
            Mutation::FileSelfInclude { .. } => "file.self-include",
            Mutation::FileMutualInclude { .. } => "file.mutual-include",
            Mutation::FileCopyMain { .. } => "file.copy-main",
            Mutation::FileRename { .. } => "file.rename",
            Mutation::Truncate { .. } => "bytes.truncate",
            Mutation::FlipBit { .. } => "bytes.flip",
            Mutation::Splice { .. } => "bytes.splice",
            Mutation::Insert { .. } => "bytes.insert",
            Mutation::Cell { .. } => "csv.cell",
            Mutation::RowDup { .. } | Mutation::RowDel { .. } | Mutation::RowSwap { .. } => "csv.row",
            Mutation::ColDel { .. } | Mutation::ColSwap { .. } => "csv.column",
            Mutation::CsvSel { .. } => "csv.selector-list",
            Mutation::JLadder { .. } => "json.tempid-ladder",
            Mutation::CInt { .. } => "cbor.integer",
            Mutation::CDelete { .. } | Mutation::CDup { .. } | Mutation::CSwap { .. } => "cbor.structure",
            Mutation::CRetype { .. } => "cbor.retype",
            Mutation::CStr { .. } => "cbor.string",
            Mutation::CHead { .. } | Mutation::CLen { .. } => "cbor.length-prefix",
            Mutation::Rename { .. } => "all.rename",
        }
    }
}

fn is_ref_key(k: &str) -> bool {
    matches!(k, "resource" | "annotation" | "annotationset" | "set" | "key" | "data")
}

fn field_pred(field: &Field) -> Box<dyn Fn(Option<&str>, &J) -> bool> {
    match field {
        Field::Any | Field::Top => Box::new(|_, _| true),
        Field::Id => Box::new(|k, _| k == Some("@id")),
        Field::Include => Box::new(|k, _| k == Some("@include")),
        Field::Ref => Box::new(|k, v| k.map(is_ref_key).unwrap_or(false) && matches!(v, J::Str(_))),
        Field::Type => Box::new(|k, _| k == Some("@type")),
        Field::IdOf(_) => Box::new(|k, _| k == Some("@id")),
        Field::Value => Box::new(|k, v| matches!(k, Some("value") | Some("text")) && matches!(v, J::Str(_))),
    }
}

fn select(j: &J, field: &Field, nth: u16) -> Option<Vec<usize>> {
    let mut paths = j.paths(&*field_pred(field));
    restrict(j, field, &mut paths);
    if paths.is_empty() {
        return None;
    }
    let i = pick(nth, paths.len());
    Some(paths.swap_remove(i))
}

/// name of the member that holds the list whose element holds the node at `path` (for "@id" members)
fn list_name(j: &J, path: &[usize]) -> Option<String> {
    if path.len() < 3 {
        return None;
    }
    let holder = j.at(&path[..path.len() - 3])?;
    match holder {
        J::Obj(m) => m.get(path[path.len() - 3]).and_then(|(k, v)| if matches!(v, J::Arr(_)) { Some(k.clone()) } else { None }),
        _ => None,
    }
}

fn restrict(j: &J, field: &Field, paths: &mut Vec<Vec<usize>>) {
    match field {
        Field::Top => paths.retain(|p| p.len() == 1),
        Field::IdOf(k) => {
            let want = ID_LISTS[*k as usize % ID_LISTS.len()];
            paths.retain(|p| list_name(j, p).as_deref() == Some(want));
        }
        _ => {}
    }
}

fn harvest(docs: &DocSet) -> Vec<String> {
    let mut out = vec![];
    for (name, bytes) in docs {
        if !out.contains(name) {
            out.push(name.clone());
        }
        if name.ends_with(".json") {
            if let Some(j) = J::parse(bytes) {
                j.strings(&mut out);
            }
        } else if name.ends_with(".csv") {
            if let Some(rows) = csv_parse(bytes) {
                for c in rows.into_iter().flatten() {
                    if !c.is_empty() && !out.contains(&c) {
                        out.push(c);
                    }
                }
            }
        }
    }
    out
}

fn enclosing_list_len(j: &J, path: &[usize]) -> usize {
    for cut in (0..path.len()).rev() {
        if let Some(J::Arr(a)) = j.at(&path[..cut]) {
            return a.len();
        }
    }
    0
}

fn temp_id(letter: u8, n: &str) -> String {
    format!("!{}{}", TEMP_LETTERS[letter as usize % TEMP_LETTERS.len()], n)
}

fn resolve_str(choice: &StrChoice, docs: &DocSet, own: &str, list_len: usize) -> String {
    match choice {
        StrChoice::Harvest(k) => {
            let h = harvest(docs);
            if h.is_empty() {
                String::new()
            } else {
                h[pick(*k, h.len())].clone()
            }
        }
        StrChoice::Temp { letter, n } => match n {
            NChoice::Abs(i) => temp_id(*letter, TEMP_N[*i as usize % TEMP_N.len()]),
            NChoice::Rel(d) => temp_id(*letter, &(list_len as i64 + *d as i64).max(0).to_string()),
        },
        StrChoice::Special(i) => SPECIAL_STR[*i as usize % SPECIAL_STR.len()].to_string(),
        StrChoice::FileName(k) => docs[pick(*k, docs.len())].0.clone(),
        StrChoice::OwnFile => own.to_string(),
        StrChoice::Hostile(h) => h.render(),
    }
}

fn retype(old: &J, to: u8) -> J {
    match to % RETYPES {
        0 => J::Null,
        1 => J::Bool(true),
        2 => J::Num("0".into()),
        3 => J::Str(String::new()),
        4 => J::Str("x".into()),
        5 => J::Arr(vec![]),
        6 => J::Obj(vec![]),
        7 => J::Arr(vec![old.clone()]),
        8 => J::Obj(vec![("value".into(), old.clone())]),
        9 => match old {
            J::Num(n) => J::Str(n.clone()),
            J::Str(s) if s.parse::<f64>().is_ok() && !s.is_empty() && s.trim() == s && !s.starts_with('+') && s.chars().all(|c| c.is_ascii_digit() || c == '-' || c == '.') && J::parse(s.as_bytes()).is_some() => J::Num(s.clone()),
            J::Arr(a) => a.first().cloned().unwrap_or(J::Null),
            J::Obj(m) => m.first().map(|(_, v)| v.clone()).unwrap_or(J::Null),
            J::Bool(b) => J::Str(b.to_string()),
            J::Null => J::Str("null".into()),
            other => other.clone(),
        },
        10 => J::Num("1.5".into()),
        _ => J::Bool(false),
    }
}

fn file_index(docs: &DocSet, file: u16, ext: &[&str]) -> Option<usize> {
    let cands: Vec<usize> = docs
        .iter()
        .enumerate()
        .filter(|(_, (n, _))| ext.is_empty() || ext.iter().any(|e| n.ends_with(e)))
        .map(|(i, _)| i)
        .collect();
    if cands.is_empty() {
        return None;
    }
    Some(cands[pick(file, cands.len())])
}

fn with_json(docs: &mut DocSet, file: u16, f: impl FnOnce(&mut J, &DocSet, &str) -> bool) -> bool {
    let Some(i) = file_index(docs, file, &[".json"]) else { return false };
    let Some(mut j) = J::parse(&docs[i].1) else { return false };
    let own = docs[i].0.clone();
    let snapshot = docs.clone();
    if !f(&mut j, &snapshot, &own) {
        return false;
    }
    docs[i].1 = j.write().into_bytes();
    true
}

fn with_csv(docs: &mut DocSet, file: u16, f: impl FnOnce(&mut Vec<Vec<String>>, &DocSet) -> bool) -> bool {
    let Some(i) = file_index(docs, file, &[".csv"]) else { return false };
    let Some(mut rows) = csv_parse(&docs[i].1) else { return false };
    let snapshot = docs.clone();
    if !f(&mut rows, &snapshot) {
        return false;
    }
    docs[i].1 = csv_write(&rows).into_bytes();
    true
}

fn with_cbor(docs: &mut DocSet, f: impl FnOnce(&mut C, &DocSet) -> bool) -> bool {
    let Some(i) = file_index(docs, 0, &[".cbor"]) else { return false };
    let Some(mut c) = C::parse_stam(&docs[i].1) else { return false };
    let snapshot = docs.clone();
    if !f(&mut c, &snapshot) {
        return false;
    }
    docs[i].1 = c.write();
    true
}

/// apply one mutation; false when it had nothing to act on
pub fn apply(docs: &mut DocSet, m: &Mutation) -> bool {
    apply_l(docs, m, &mut vec![])
}

/// ';'-separated elements of a CSV cell renamed
fn rename_list(cell: &str, pre: &str, post: &str) -> String {
    cell.split(';').map(|e| if e.is_empty() { String::new() } else { format!("{}{}{}", pre, e, post) }).collect::<Vec<_>>().join(";")
}

/// columns of the STAM CSV files that hold identifiers
const CSV_ID_COLUMNS: [&str; 9] = ["Id", "AnnotationData", "AnnotationDataSet", "TargetResource", "TargetAnnotation", "TargetDataSet", "TargetKey", "TargetData", "Key"];

// ---- the annotations table of a STAM CSV document set and what its rows can refer to

const ANNOTATION_COLUMNS: [&str; 11] = ["Id", "AnnotationData", "AnnotationDataSet", "SelectorType", "TargetResource", "TargetAnnotation", "TargetDataSet", "BeginOffset", "EndOffset", "TargetKey", "TargetData"];

/// index and rows of the annotations table: the first CSV file whose header has a SelectorType column; an empty file
/// that is named like one (a store without annotations) counts as a table with nothing but the header
fn annotations_table(docs: &DocSet) -> Option<(usize, Vec<Vec<String>>)> {
    for (i, (name, bytes)) in docs.iter().enumerate() {
        if !name.ends_with(".csv") {
            continue;
        }
        match csv_parse(bytes) {
            Some(rows) => {
                if rows[0].iter().any(|h| h == "SelectorType") {
                    return Some((i, rows));
                }
            }
            None => {
                if name.contains(".annotations.") && bytes.iter().all(|b| b.is_ascii_whitespace()) {
                    return Some((i, vec![ANNOTATION_COLUMNS.iter().map(|c| c.to_string()).collect()]));
                }
            }
        }
    }
    None
}

/// which columns a selector kind reads: 0 text, 1 annotation, 2 resource, 3 data set, 4 key, 5 data, 6 complex; None = not a kind
pub fn sel_class(name: &str) -> Option<u8> {
    Some(match name {
        "TextSelector" | "textselector" | "text" => 0,
        "AnnotationSelector" | "annotationselector" | "annotation" => 1,
        "ResourceSelector" | "resourceselector" | "resource" => 2,
        "DataSetSelector" | "datasetselector" | "set" | "annotationset" | "dataset" => 3,
        "DataKeySelector" | "datakeyselector" | "key" => 4,
        "AnnotationDataSelector" | "annotationdataselector" | "dataselector" | "data" => 5,
        "MultiSelector" | "multiselector" | "multi" | "CompositeSelector" | "compositeselector" | "composite" | "DirectionalSelector" | "directionalselector" | "directional" => 6,
        _ => return None,
    })
}

struct SelPools {
    resources: Vec<String>,
    /// (id, keys, data ids)
    sets: Vec<(String, Vec<String>, Vec<String>)>,
    /// ids of the rows before the one that is rewritten
    annotations: Vec<String>,
}

impl SelPools {
    fn of(docs: &DocSet, table: &[Vec<String>], row: usize) -> SelPools {
        let mut p = SelPools { resources: vec![], sets: vec![], annotations: vec![] };
        let push = |v: &mut Vec<String>, x: &str| {
            if !x.is_empty() && !v.iter().any(|y| y == x) {
                v.push(x.to_string());
            }
        };
        for (_, bytes) in docs.iter().filter(|(n, _)| n.ends_with(".csv")) {
            let Some(rows) = csv_parse(bytes) else { continue };
            let pos = |name: &str| rows[0].iter().position(|h| h == name);
            let (Some(t), Some(id), Some(f)) = (pos("Type"), pos("Id"), pos("Filename")) else { continue };
            for r in rows.iter().skip(1) {
                match r[t].as_str() {
                    "TextResource" => push(&mut p.resources, &r[id]),
                    "AnnotationDataSet" if !r[id].is_empty() => {
                        let (mut keys, mut data) = (vec![], vec![]);
                        if let Some(set) = docs.iter().find(|(n, _)| *n == r[f]).and_then(|(_, b)| csv_parse(b)) {
                            let spos = |name: &str| set[0].iter().position(|h| h == name);
                            if let (Some(sid), Some(skey)) = (spos("Id"), spos("Key")) {
                                for x in set.iter().skip(1) {
                                    push(&mut keys, &x[skey]);
                                    push(&mut data, &x[sid]);
                                }
                            }
                        }
                        if !p.sets.iter().any(|s| s.0 == r[id]) {
                            p.sets.push((r[id].clone(), keys, data));
                        }
                    }
                    _ => {}
                }
            }
        }
        // without a manifest: what the table itself names
        let pos = |name: &str| table[0].iter().position(|h| h == name);
        if p.resources.is_empty() {
            if let Some(c) = pos("TargetResource") {
                table.iter().skip(1).flat_map(|r| r[c].split(';')).for_each(|x| push(&mut p.resources, x));
            }
        }
        if p.sets.is_empty() {
            if let Some(c) = pos("TargetDataSet") {
                let mut ids = vec![];
                table.iter().skip(1).flat_map(|r| r[c].split(';')).for_each(|x| push(&mut ids, x));
                p.sets = ids.into_iter().map(|i| (i, vec![], vec![])).collect();
            }
        }
        if let Some(c) = pos("Id") {
            table.iter().take(row).skip(1).for_each(|r| push(&mut p.annotations, &r[c]));
        }
        p
    }

    /// values for SELECTOR_COLUMNS at a position whose entry is of this class
    fn values(&self, class: Option<u8>, h: usize) -> [String; 7] {
        const OFFSETS: [(&str, &str); 5] = [("0", "-0"), ("0", "1"), ("-1", "-0"), ("1", "2"), ("0", "0")];
        let of = |v: &Vec<String>, h: usize| if v.is_empty() { String::new() } else { v[h % v.len()].clone() };
        let mut out: [String; 7] = Default::default();
        let set = if self.sets.is_empty() { None } else { Some(&self.sets[h % self.sets.len()]) };
        match class {
            Some(0) => {
                out[0] = of(&self.resources, h);
                let o = OFFSETS[(h / 7) % OFFSETS.len()];
                out[3] = o.0.to_string();
                out[4] = o.1.to_string();
            }
            Some(1) => {
                out[1] = of(&self.annotations, h);
                if h % 3 == 0 {
                    let o = OFFSETS[(h / 7) % OFFSETS.len()];
                    out[3] = o.0.to_string();
                    out[4] = o.1.to_string();
                }
            }
            Some(2) => out[0] = of(&self.resources, h),
            Some(3) => out[2] = set.map(|s| s.0.clone()).unwrap_or_default(),
            Some(4) => {
                out[2] = set.map(|s| s.0.clone()).unwrap_or_default();
                out[5] = set.map(|s| of(&s.1, h / 3)).unwrap_or_default();
            }
            Some(5) => {
                out[2] = set.map(|s| s.0.clone()).unwrap_or_default();
                out[6] = set.map(|s| of(&s.2, h / 5)).unwrap_or_default();
            }
            _ => {}
        }
        out
    }
}


/// the same, and `labels` receives what is worth counting about the mutation (which kind of header, which kind of string)
pub fn apply_l(docs: &mut DocSet, m: &Mutation, labels: &mut Vec<String>) -> bool {
    if docs.is_empty() {
        return false;
    }
    match m {
        Mutation::Rename { pre, post, values } => {
            let (pre, post) = (pre.render(), post.render());
            if pre.is_empty() && post.is_empty() {
                return false;
            }
            let mut any = false;
            for i in 0..docs.len() {
                let name = docs[i].0.clone();
                if name.ends_with(".json") {
                    let Some(mut j) = J::parse(&docs[i].1) else { continue };
                    let paths = j.paths(&|k, v| matches!(v, J::Str(_)) && k.map(|k| k == "@id" || is_ref_key(k) || (*values && k == "value")).unwrap_or(false));
                    for p in &paths {
                        if let Some(J::Str(s)) = j.at_mut(p) {
                            *s = format!("{}{}{}", pre, s, post);
                            any = true;
                        }
                    }
                    if !paths.is_empty() {
                        docs[i].1 = j.write().into_bytes();
                    }
                } else if name.ends_with(".csv") {
                    let Some(mut rows) = csv_parse(&docs[i].1) else { continue };
                    if rows.len() < 2 {
                        continue;
                    }
                    let header = rows[0].clone();
                    let mut hit = false;
                    for r in rows.iter_mut().skip(1) {
                        for (c, cell) in r.iter_mut().enumerate() {
                            let h = header.get(c).map(|h| h.as_str()).unwrap_or("");
                            if (CSV_ID_COLUMNS.contains(&h) || (*values && h == "Value")) && !cell.is_empty() {
                                *cell = rename_list(cell, &pre, &post);
                                hit = true;
                            }
                        }
                    }
                    if hit {
                        docs[i].1 = csv_write(&rows).into_bytes();
                        any = true;
                    }
                } else if name.ends_with(".cbor") {
                    // every text that occurs at least twice outside the configuration (an id and its entry in the id
                    // map; resource texts and values occur once), file names excepted
                    let Some(mut c) = C::parse_stam(&docs[i].1) else { continue };
                    fn count(c: &C, seen: &mut Vec<(String, usize)>) {
                        match c {
                            C::Cfg(_) => {}
                            C::T(s) => match seen.iter_mut().find(|(x, _)| x == s) {
                                Some(e) => e.1 += 1,
                                None => seen.push((s.clone(), 1)),
                            },
                            _ => c.children().into_iter().for_each(|x| count(x, seen)),
                        }
                    }
                    fn rec(c: &mut C, pre: &str, post: &str, seen: &[(String, usize)], n: &mut usize) {
                        match c {
                            C::Cfg(_) => {}
                            C::T(s) => {
                                let twice = seen.iter().any(|(x, k)| x == s && *k >= 2);
                                if twice && !s.is_empty() && !s.contains('/') && !s.contains(".stam.") && !s.ends_with(".txt") {
                                    *s = format!("{}{}{}", pre, s, post);
                                    *n += 1;
                                }
                            }
                            _ => {
                                for x in c.children_mut() {
                                    rec(x, pre, post, seen, n);
                                }
                            }
                        }
                    }
                    let mut seen = vec![];
                    count(&c, &mut seen);
                    let mut n = 0;
                    rec(&mut c, &pre, &post, &seen, &mut n);
                    if n > 0 {
                        docs[i].1 = c.write();
                        any = true;
                    }
                }
            }
            if any {
                string_features(&format!("{}x{}", pre, post), labels);
                labels.push("str:renamed-consistently".into());
            }
            any
        }
        Mutation::FileRename { file, name, via } => {
            if docs.len() < 2 {
                return false;
            }
            let i = 1 + pick(*file, docs.len() - 1);
            let old = docs[i].0.clone();
            let ext = old.find('.').map(|p| &old[p..]).unwrap_or("");
            let mut stem: String = name.render().chars().filter(|c| !matches!(c, '/' | '\\' | '\0')).collect();
            while stem.len() + ext.len() > 110 {
                stem.pop();
            }
            let new = format!("{}{}", stem, ext);
            if new == old || !safe_name(&new) || docs.iter().any(|(n, _)| *n == new) {
                return false;
            }
            docs[i].0 = new.clone();
            let refer = match via % 3 {
                0 => Some(new.clone()),
                1 => Some(format!("./{}", new)),
                _ => None,
            };
            if let Some(refer) = refer {
                for k in 0..docs.len() {
                    if docs[k].0.ends_with(".json") {
                        let Some(mut j) = J::parse(&docs[k].1) else { continue };
                        let paths = j.paths(&|key, v| key == Some("@include") && matches!(v, J::Str(x) if *x == old));
                        for p in &paths {
                            if let Some(J::Str(x)) = j.at_mut(p) {
                                *x = refer.clone();
                            }
                        }
                        if !paths.is_empty() {
                            docs[k].1 = j.write().into_bytes();
                        }
                    } else if docs[k].0.ends_with(".csv") {
                        let Some(mut rows) = csv_parse(&docs[k].1) else { continue };
                        let mut hit = false;
                        for cell in rows.iter_mut().flatten() {
                            if *cell == old {
                                *cell = refer.clone();
                                hit = true;
                            }
                        }
                        if hit {
                            docs[k].1 = csv_write(&rows).into_bytes();
                        }
                    }
                }
            }
            string_features(&new, labels);
            true
        }
        Mutation::CHead { nth, delta } => apply_l(docs, &Mutation::CLen { class: None, nth: *nth, len: LenChoice::Delta(*delta) }, labels),
        Mutation::JDelete { file, field, nth } => with_json(docs, *file, |j, _, _| {
            let Some(path) = select(j, field, *nth) else { return false };
            let (last, parent) = path.split_last().unwrap();
            match j.at_mut(parent) {
                Some(J::Arr(a)) => {
                    a.remove(*last);
                }
                Some(J::Obj(m)) => {
                    m.remove(*last);
                }
                _ => return false,
            }
            true
        }),
        Mutation::JDuplicate { file, field, nth } => with_json(docs, *file, |j, _, _| {
            let Some(path) = select(j, field, *nth) else { return false };
            let (last, parent) = path.split_last().unwrap();
            match j.at_mut(parent) {
                Some(J::Arr(a)) => {
                    let x = a[*last].clone();
                    a.insert(*last + 1, x);
                }
                Some(J::Obj(m)) => {
                    let x = m[*last].clone();
                    m.insert(*last + 1, x);
                }
                _ => return false,
            }
            true
        }),
        Mutation::JMove { file, field, nth, to } => with_json(docs, *file, |j, _, _| {
            let Some(path) = select(j, field, *nth) else { return false };
            let (last, parent) = path.split_last().unwrap();
            fn mv<T>(v: &mut Vec<T>, i: usize, to: u8) -> bool {
                if v.len() < 2 {
                    return false;
                }
                match to % 3 {
                    0 => {
                        if i == 0 {
                            return false;
                        }
                        let x = v.remove(i);
                        v.insert(0, x);
                    }
                    1 => {
                        if i + 1 == v.len() {
                            return false;
                        }
                        let x = v.remove(i);
                        v.push(x);
                    }
                    _ => {
                        if i + 1 >= v.len() {
                            return false;
                        }
                        v.swap(i, i + 1);
                    }
                }
                true
            }
            match j.at_mut(parent) {
                Some(J::Arr(a)) => mv(a, *last, *to),
                Some(J::Obj(m)) => mv(m, *last, *to),
                _ => false,
            }
        }),
        Mutation::JRetype { file, field, nth, to } => with_json(docs, *file, |j, _, _| {
            let Some(path) = select(j, field, *nth) else { return false };
            let Some(node) = j.at_mut(&path) else { return false };
            let new = retype(node, *to);
            if new == *node {
                return false;
            }
            *node = new;
            true
        }),
        Mutation::JNum { file, nth, val } => with_json(docs, *file, |j, _, _| {
            let paths = j.paths(&|_, v| matches!(v, J::Num(_)));
            if paths.is_empty() {
                return false;
            }
            let path = &paths[pick(*nth, paths.len())];
            let new = J::Num(NUMS[*val as usize % NUMS.len()].to_string());
            let node = j.at_mut(path).unwrap();
            if *node == new {
                return false;
            }
            *node = new;
            true
        }),
        Mutation::JStr { file, field, nth, val } => with_json(docs, *file, |j, snapshot, own| {
            let pred = field_pred(field);
            let mut paths = j.paths(&|k, v| pred(k, v) && matches!(v, J::Str(_)));
            restrict(j, field, &mut paths);
            if paths.is_empty() {
                return false;
            }
            let path = paths[pick(*nth, paths.len())].clone();
            let len = enclosing_list_len(j, &path);
            let text = resolve_str(val, snapshot, own, len);
            let new = J::Str(text.clone());
            let node = j.at_mut(&path).unwrap();
            if *node == new {
                return false;
            }
            *node = new;
            string_features(&text, labels);
            true
        }),
        Mutation::JAdd { file, nth, key, val } => with_json(docs, *file, |j, snapshot, own| {
            let mut paths = vec![vec![]];
            paths.extend(j.paths(&|_, v| matches!(v, J::Obj(_))));
            if !matches!(j, J::Obj(_)) {
                paths.remove(0);
            }
            if paths.is_empty() {
                return false;
            }
            let path = paths[pick(*nth, paths.len())].clone();
            let k = ADD_KEYS[*key as usize % ADD_KEYS.len()];
            let len = enclosing_list_len(j, &path);
            let text = resolve_str(val, snapshot, own, len);
            string_features(&text, labels);
            let v = J::Str(text);
            let Some(node) = j.at_mut(&path) else { return false };
            node.insert_front(k, v);
            true
        }),
        Mutation::FileDrop { file } => {
            if docs.len() < 2 {
                return false;
            }
            let i = 1 + pick(*file, docs.len() - 1);
            docs.remove(i);
            true
        }
        Mutation::FileSwap { a, b } => {
            if docs.len() < 2 {
                return false;
            }
            let (i, k) = (pick(*a, docs.len()), pick(*b, docs.len()));
            if i == k || docs[i].1 == docs[k].1 {
                return false;
            }
            let t = docs[i].1.clone();
            docs[i].1 = docs[k].1.clone();
            docs[k].1 = t;
            true
        }
        Mutation::FileSelfInclude { file } => with_json(docs, *file, |j, _, own| {
            if !matches!(j, J::Obj(_)) {
                return false;
            }
            j.insert_front("@include", J::Str(own.to_string()));
            true
        }),
        Mutation::FileMutualInclude { a, b } => {
            let (Some(i), Some(k)) = (file_index(docs, *a, &[".json"]), file_index(docs, *b, &[".json"])) else { return false };
            if i == k {
                return false;
            }
            let (ni, nk) = (docs[i].0.clone(), docs[k].0.clone());
            let (Some(mut ji), Some(mut jk)) = (J::parse(&docs[i].1), J::parse(&docs[k].1)) else { return false };
            if !matches!(ji, J::Obj(_)) || !matches!(jk, J::Obj(_)) {
                return false;
            }
            ji.insert_front("@include", J::Str(nk));
            jk.insert_front("@include", J::Str(ni));
            docs[i].1 = ji.write().into_bytes();
            docs[k].1 = jk.write().into_bytes();
            true
        }
        Mutation::FileCopyMain { file } => {
            if docs.len() < 2 {
                return false;
            }
            let i = 1 + pick(*file, docs.len() - 1);
            if docs[i].1 == docs[0].1 {
                return false;
            }
            docs[i].1 = docs[0].1.clone();
            true
        }
        Mutation::Truncate { file, at } => {
            let i = pick(*file, docs.len());
            let n = docs[i].1.len();
            if n == 0 {
                return false;
            }
            let at = pick(*at, n);
            docs[i].1.truncate(at);
            true
        }
        Mutation::FlipBit { file, pos, bit } => {
            let i = pick(*file, docs.len());
            let n = docs[i].1.len();
            if n == 0 {
                return false;
            }
            let p = pick(*pos, n);
            docs[i].1[p] ^= 1 << (bit % 8);
            true
        }
        Mutation::Splice { file, src, len, dst } => {
            let i = pick(*file, docs.len());
            let n = docs[i].1.len();
            if n == 0 {
                return false;
            }
            let s = pick(*src, n);
            let e = (s + 1 + *len as usize).min(n);
            let chunk = docs[i].1[s..e].to_vec();
            let d = pick(*dst, n + 1);
            let tail = docs[i].1.split_off(d);
            docs[i].1.extend_from_slice(&chunk);
            docs[i].1.extend_from_slice(&tail);
            true
        }
        Mutation::Insert { file, pos, what } => {
            let i = pick(*file, docs.len());
            let n = docs[i].1.len();
            let d = pick(*pos, n + 1);
            let chunk = INSERTS[*what as usize % INSERTS.len()].as_bytes();
            let tail = docs[i].1.split_off(d);
            docs[i].1.extend_from_slice(chunk);
            docs[i].1.extend_from_slice(&tail);
            true
        }
        Mutation::Cell { file, row, col, val } => with_csv(docs, *file, |rows, snapshot| {
            if rows.len() < 2 || rows[0].is_empty() {
                return false;
            }
            let r = 1 + pick(*row, rows.len() - 1);
            let c = pick(*col, rows[r].len());
            let old = rows[r][c].clone();
            let new = match val {
                CellChoice::Harvest(k) => {
                    let h = harvest(snapshot);
                    if h.is_empty() {
                        String::new()
                    } else {
                        h[pick(*k, h.len())].clone()
                    }
                }
                CellChoice::Special(i) => SPECIAL_CELL[*i as usize % SPECIAL_CELL.len()].to_string(),
                CellChoice::Temp { letter, n } => temp_id(*letter, TEMP_N[*n as usize % TEMP_N.len()]),
                CellChoice::Append(i) => format!("{};{}", old, SPECIAL_CELL[*i as usize % SPECIAL_CELL.len()]),
                CellChoice::AppendHarvest(k) => {
                    let h = harvest(snapshot);
                    format!("{};{}", old, if h.is_empty() { String::new() } else { h[pick(*k, h.len())].clone() })
                }
                CellChoice::DropLast => match old.rfind(';') {
                    Some(i) => old[..i].to_string(),
                    None => String::new(),
                },
                CellChoice::Repeat(n) => vec![old.clone(); 2 + (*n as usize % 6)].join(";"),
                CellChoice::Hostile(h) => h.render(),
                CellChoice::AppendHostile(h) => format!("{};{}", old, h.render()),
                CellChoice::PrependHostile(h) => format!("{};{}", h.render(), old),
                CellChoice::Wrap(a, b) => format!("{}{}{}", a.render(), old, b.render()),
            };
            if new == old {
                return false;
            }
            string_features(&new, labels);
            rows[r][c] = new;
            true
        }),
        Mutation::RowDup { file, row } => with_csv(docs, *file, |rows, _| {
            if rows.len() < 2 {
                return false;
            }
            let r = 1 + pick(*row, rows.len() - 1);
            let x = rows[r].clone();
            rows.insert(r + 1, x);
            true
        }),
        Mutation::RowDel { file, row } => with_csv(docs, *file, |rows, _| {
            if rows.len() < 2 {
                return false;
            }
            let r = 1 + pick(*row, rows.len() - 1);
            rows.remove(r);
            true
        }),
        Mutation::RowSwap { file, row } => with_csv(docs, *file, |rows, _| {
            if rows.len() < 3 {
                return false;
            }
            let r = 1 + pick(*row, rows.len() - 2);
            if rows[r] == rows[r + 1] {
                return false;
            }
            rows.swap(r, r + 1);
            true
        }),
        Mutation::ColDel { file, col } => with_csv(docs, *file, |rows, _| {
            if rows[0].len() < 2 {
                return false;
            }
            let c = pick(*col, rows[0].len());
            for r in rows.iter_mut() {
                r.remove(c);
            }
            true
        }),
        Mutation::ColSwap { file, col } => with_csv(docs, *file, |rows, _| {
            if rows[0].len() < 2 {
                return false;
            }
            let c = pick(*col, rows[0].len() - 1);
            for r in rows.iter_mut() {
                r.swap(c, c + 1);
            }
            true
        }),
        Mutation::CsvSel { row, fresh, edit, types, cols, salt } => {
            let Some((fi, mut rows)) = annotations_table(docs) else { return false };
            let header = rows[0].clone();
            let col = |name: &str| header.iter().position(|h| h == name);
            let Some(c_type) = col("SelectorType") else { return false };
            let fresh = *fresh || rows.len() < 2;
            let r = if fresh {
                let at = 1 + pick(*row, rows.len());
                rows.insert(at, vec![String::new(); header.len()]);
                at
            } else {
                1 + pick(*row, rows.len() - 1)
            };
            let before = rows[r].clone();
            let old: Vec<String> = if before[c_type].is_empty() { vec![] } else { before[c_type].split(';').map(|x| x.to_string()).collect() };
            let drawn: Vec<String> = if types.is_empty() { vec![SELECTOR_NAMES[0].to_string()] } else { types.iter().map(|t| SELECTOR_NAMES[*t as usize % SELECTOR_NAMES.len()].to_string()).collect() };
            let new: Vec<String> = match edit {
                SelEdit::Replace => drawn.clone(),
                SelEdit::Head => drawn[..1].iter().chain(old.iter().skip(1)).cloned().collect(),
                SelEdit::Prepend => drawn.iter().chain(old.iter()).cloned().collect(),
                SelEdit::Append => old.iter().chain(drawn.iter()).cloned().collect(),
                SelEdit::At(pos) => {
                    let mut v = old.clone();
                    if v.len() >= 2 {
                        let at = 1 + pick(*pos, v.len() - 1);
                        v[at] = drawn[0].clone();
                    } else {
                        v = drawn[..1].to_vec();
                    }
                    v
                }
                SelEdit::DropHead => old.iter().skip(1).cloned().collect(),
                SelEdit::RepeatHead(n) => vec![old.first().unwrap_or(&drawn[0]).clone(); 2 + (*n as usize % 4)],
            };
            rows[r][c_type] = new.join(";");
            if !matches!(cols, SelCols::Keep) {
                let stable = !fresh && matches!(edit, SelEdit::Head | SelEdit::At(_) | SelEdit::Append | SelEdit::RepeatHead(_));
                let pools = SelPools::of(docs, &rows, r);
                let mut lists: Vec<Vec<String>> = vec![vec![]; SELECTOR_COLUMNS.len()];
                for (i, name) in new.iter().enumerate() {
                    let h = (*salt as usize).wrapping_mul(31).wrapping_add(i * 17);
                    let vals = pools.values(sel_class(name), h);
                    for (c, cname) in SELECTOR_COLUMNS.iter().enumerate() {
                        let kept = if stable && !vals[c].is_empty() {
                            col(cname).and_then(|ci| before[ci].split(';').nth(i).filter(|x| !x.is_empty()).map(|x| x.to_string()))
                        } else {
                            None
                        };
                        lists[c].push(kept.unwrap_or_else(|| vals[c].clone()));
                    }
                }
                if let SelCols::RepairThen { cols, how } = cols {
                    for (c, l) in lists.iter_mut().enumerate() {
                        if *cols % 128 != 0 && (*cols >> c) & 1 == 0 {
                            continue;
                        }
                        match how % 5 {
                            0 => {
                                l.pop();
                            }
                            1 => {
                                if let Some(x) = l.last().cloned() {
                                    l.push(x);
                                }
                            }
                            2 => *l = l.iter().find(|x| !x.is_empty()).cloned().into_iter().collect(),
                            3 => l.clear(),
                            _ => {
                                if !l.is_empty() {
                                    l.remove(0);
                                }
                            }
                        }
                    }
                }
                for (c, cname) in SELECTOR_COLUMNS.iter().enumerate() {
                    if let Some(ci) = col(cname) {
                        rows[r][ci] = lists[c].join(";");
                    }
                }
            }
            if !fresh && rows[r] == before {
                return false;
            }
            let classes: Vec<Option<u8>> = new.iter().map(|n| sel_class(n)).collect();
            let simple = |c: &Option<u8>| matches!(c, Some(0..=5));
            let complex = |c: &Option<u8>| matches!(c, Some(6));
            labels.push(
                match (classes.first(), classes.len()) {
                    (None, _) => "sel:no-entry",
                    (Some(c), 1) if simple(c) => "sel:simple-alone",
                    (Some(c), 1) if complex(c) => "sel:complex-head-alone",
                    (Some(c), _) if simple(c) => "sel:simple-head+more",
                    (Some(c), _) if complex(c) => "sel:complex-head+more",
                    _ => "sel:unknown-head",
                }
                .to_string(),
            );
            if classes.len() >= 2 && classes.iter().skip(1).all(simple) {
                labels.push(format!("sel:{}+all-simple-after", if classes.first().map(simple).unwrap_or(false) { "simple-head" } else if classes.first().map(complex).unwrap_or(false) { "complex-head" } else { "unknown-head" }));
            }
            if classes.iter().skip(1).any(complex) {
                labels.push("sel:complex-in-later-position".into());
            }
            if classes.iter().any(|c| c.is_none()) {
                labels.push("sel:unknown-or-empty-entry".into());
            }
            labels.push(
                match cols {
                    SelCols::Keep => "selcols:kept",
                    SelCols::Repair => "selcols:same-length",
                    SelCols::RepairThen { .. } => "selcols:other-length",
                }
                .to_string(),
            );
            if fresh {
                labels.push("sel:new-row".into());
            }
            docs[fi].1 = csv_write(&rows).into_bytes();
            true
        }
        Mutation::JLadder { file, list, which, grow, start, run, letter, step, jitter } => {
            let kind = *list as usize % LADDER_LISTS.len();
            let member = match kind {
                0 => "annotations",
                2 => "keys",
                _ => "data",
            };
            let jsons: Vec<usize> = docs.iter().enumerate().filter(|(_, (n, _))| n.ends_with(".json")).map(|(i, _)| i).collect();
            if jsons.is_empty() {
                return false;
            }
            // the chosen file first, then the others: the list may live in a stand-off file
            let first = pick(*file, jsons.len());
            for off in 0..jsons.len() {
                let i = jsons[(first + off) % jsons.len()];
                let Some(mut j) = J::parse(&docs[i].1) else { continue };
                let is_set = |o: &J| o.get("keys").is_some() || o.get("@type").and_then(|t| t.as_str()) == Some("AnnotationDataSet");
                let mut cands: Vec<Vec<usize>> = j.paths(&|k, v| k == Some(member) && matches!(v, J::Arr(a) if !a.is_empty()));
                if kind == 1 || kind == 3 {
                    cands.retain(|p| {
                        let in_set = j.at(&p[..p.len() - 1]).map(is_set).unwrap_or(false);
                        in_set == (kind == 1)
                    });
                }
                if kind == 0 {
                    // a bare list of annotations (what annotate_from_file reads)
                    if let J::Arr(a) = &j {
                        if !a.is_empty() && a.iter().all(|x| matches!(x, J::Obj(_))) {
                            cands.insert(0, vec![]);
                        }
                    }
                }
                if cands.is_empty() {
                    continue;
                }
                let path = cands[pick(*which, cands.len())].clone();
                let Some(J::Arr(arr)) = j.at_mut(&path) else { continue };
                let n0 = arr.len();
                let target = LADDER_GROW[*grow as usize % LADDER_GROW.len()];
                let mut k = 0;
                while arr.len() < target {
                    let x = arr[k % n0].clone();
                    arr.push(x);
                    k += 1;
                }
                let s0 = pick(*start, arr.len());
                let len = if *run == 0 { arr.len() - s0 } else { (*run as usize).min(arr.len() - s0) };
                let l = if *letter == 0 { ["A", "D", "K", "D"][kind] } else { TEMP_LETTERS[(*letter as usize - 1) % TEMP_LETTERS.len()] };
                let st = LADDER_STEPS[*step as usize % LADDER_STEPS.len()];
                let mut hit = arr.len() > n0;
                let mut rungs = 0;
                for k in 0..len {
                    let jit = ((*jitter as u64 % 3) * k as u64) % 3;
                    let id = J::Str(format!("!{}{}", l, k as u64 * st + jit));
                    let item = &mut arr[s0 + k];
                    if !matches!(item, J::Obj(_)) {
                        continue;
                    }
                    rungs += 1;
                    match item.get("@id") {
                        Some(x) if *x == id => {}
                        Some(_) => {
                            item.set("@id", id);
                            hit = true;
                        }
                        None => {
                            item.insert_front("@id", id);
                            hit = true;
                        }
                    }
                }
                if !hit {
                    return false;
                }
                labels.push(format!("ladder:{}", LADDER_LISTS[kind]));
                labels.push(format!("ladder:step-{}", st));
                labels.push(format!("ladder:rungs-{}", if rungs >= 16 { "16+" } else if rungs >= 4 { "4-15" } else { "1-3" }));
                if *jitter % 3 != 0 {
                    labels.push("ladder:jitter".into());
                }
                docs[i].1 = j.write().into_bytes();
                return true;
            }
            false
        }
        Mutation::CInt { nth, val } => with_cbor(docs, |c, _| {
            let is_int = |x: &C| matches!(x, C::U(_));
            let n = c.count(&is_int);
            if n == 0 {
                return false;
            }
            let mut all = vec![];
            c.ints(&mut all);
            let mut k = pick(*nth, n);
            let Some(C::U(a)) = c.nth_mut(&mut k, &is_int) else { return false };
            let new = match val {
                IntChoice::Abs(i) => CBOR_INTS[*i as usize % CBOR_INTS.len()],
                IntChoice::Rel(d) => (*a as i128 + *d as i128).clamp(0, u64::MAX as i128) as u64,
                IntChoice::Harvest(h) => all[pick(*h, all.len())],
            };
            if new == *a {
                return false;
            }
            *a = new;
            true
        }),
        Mutation::CDelete { nth } | Mutation::CDup { nth } | Mutation::CSwap { nth } => with_cbor(docs, |c, _| {
            let is_arr = |x: &C| matches!(x, C::A(v) if !v.is_empty());
            let n = c.count(&is_arr);
            if n == 0 {
                return false;
            }
            // nth addresses (array, element) pairs: spread over arrays first, then over elements
            let mut k = pick(*nth, n);
            let Some(C::A(v)) = c.nth_mut(&mut k, &is_arr) else { return false };
            let e = (*nth as usize).wrapping_mul(2654435761) % v.len();
            match m {
                Mutation::CDelete { .. } => {
                    v.remove(e);
                }
                Mutation::CDup { .. } => {
                    let x = v[e].clone();
                    v.insert(e + 1, x);
                }
                _ => {
                    if v.len() < 2 {
                        return false;
                    }
                    let f = (e + 1) % v.len();
                    if v[e] == v[f] {
                        return false;
                    }
                    v.swap(e, f);
                }
            }
            true
        }),
        Mutation::CRetype { nth, to } => with_cbor(docs, |c, _| {
            let any = |_: &C| true;
            let n = c.count(&any);
            let mut k = pick(*nth, n);
            let Some(node) = c.nth_mut(&mut k, &any) else { return false };
            let new = match to % 8 {
                0 => C::S(22, 0), // null
                1 => C::U(0),
                2 => C::T(String::new()),
                3 => C::A(vec![]),
                4 => C::S(21, 0), // true
                5 => C::N(0),
                6 => C::A(vec![node.clone()]),
                _ => C::M(vec![]),
            };
            if new == *node {
                return false;
            }
            *node = new;
            true
        }),
        Mutation::CStr { nth, val } => with_cbor(docs, |c, snapshot| {
            let is_text = |x: &C| matches!(x, C::T(_));
            let n = c.count(&is_text);
            if n == 0 {
                return false;
            }
            let mut k = pick(*nth, n);
            let Some(C::T(s)) = c.nth_mut(&mut k, &is_text) else { return false };
            let new = resolve_str(val, snapshot, "x.store.stam.cbor", 0);
            if new == *s {
                return false;
            }
            string_features(&new, labels);
            *s = new;
            true
        }),
        Mutation::CLen { class, nth, len } => {
            // re-encode with one container/string header lying about its length
            let Some(i) = file_index(docs, 0, &[".cbor"]) else { return false };
            let Some(c) = C::parse_stam(&docs[i].1) else { return false };
            let heads = c.headers();
            if heads.is_empty() {
                return false;
            }
            let target = match class {
                None => pick(*nth, heads.len()),
                Some(k) => {
                    let mut classes: Vec<&String> = heads.iter().collect();
                    classes.sort();
                    classes.dedup();
                    let cls = classes[pick(*k, classes.len())].clone();
                    let members: Vec<usize> = heads.iter().enumerate().filter(|(_, h)| **h == cls).map(|(i, _)| i).collect();
                    members[pick(*nth, members.len())]
                }
            };
            let mut out = vec![];
            let mut k = 0;
            let mut how = "";
            c.write_lying(&mut out, &mut k, target, len, &mut how);
            if out == docs[i].1 {
                return false;
            }
            docs[i].1 = out;
            labels.push(format!("head:{}", heads[target]));
            labels.push(format!("headlen:{}", how));
            true
        }
    }
}

impl C {
    fn is_null(&self) -> bool {
        matches!(self, C::S(22, _) | C::S(23, _))
    }
    fn variant(&self) -> u8 {
        match self {
            C::U(_) => 0,
            C::N(_) => 1,
            C::B(_) => 2,
            C::T(_) => 3,
            C::A(_) | C::IndefA(_) => 4,
            C::Cfg(_) => 5,
            C::M(_) | C::IndefM(_) => 6,
            C::Tag(..) => 7,
            C::S(..) => 8,
            C::IndefS(..) => 9,
        }
    }
    /// The path class of every definite-length header (array, map, text, bytes) in document order. A class is the
    /// chain of container kinds from the root; below an array that holds values of different kinds (a record) the
    /// position is part of the class, below one that holds values of one kind (a list) it is not, below a map the
    /// step says key or value. So "the second list of an item of a position index" is one class however many items
    /// there are, and every such class can be aimed at.
    pub fn headers(&self) -> Vec<String> {
        fn rec(c: &C, path: &str, out: &mut Vec<String>) {
            let steps = |v: &Vec<C>, depth0: bool| -> Vec<String> {
                let mut kinds: Vec<u8> = v.iter().filter(|x| !x.is_null()).map(|x| x.variant()).collect();
                kinds.sort();
                kinds.dedup();
                let record = kinds.len() >= 2 || depth0;
                (0..v.len()).map(|i| if record { format!("{}", i.min(120)) } else { "*".to_string() }).collect()
            };
            match c {
                C::A(v) => {
                    out.push(format!("{}A", path));
                    for (x, st) in v.iter().zip(steps(v, path.is_empty())) {
                        rec(x, &format!("{}A{}/", path, st), out);
                    }
                }
                C::Cfg(v) => {
                    out.push(format!("{}Cfg", path));
                    // the fields of the configuration are one class
                    for x in v {
                        rec(x, &format!("{}Cfg/", path), out);
                    }
                }
                C::M(v) => {
                    out.push(format!("{}M", path));
                    for (k, x) in v {
                        rec(k, &format!("{}Mk/", path), out);
                        rec(x, &format!("{}Mv/", path), out);
                    }
                }
                C::T(_) => out.push(format!("{}T", path)),
                C::B(_) => out.push(format!("{}B", path)),
                C::Tag(_, x) => rec(x, &format!("{}Tag/", path), out),
                C::IndefA(v) => v.iter().for_each(|x| rec(x, &format!("{}IA/", path), out)),
                C::IndefM(v) => v.iter().for_each(|(k, x)| {
                    rec(k, &format!("{}IMk/", path), out);
                    rec(x, &format!("{}IMv/", path), out)
                }),
                C::IndefS(_, v) => v.iter().for_each(|x| rec(x, &format!("{}IS/", path), out)),
                _ => {}
            }
        }
        let mut out = vec![];
        rec(self, "", &mut out);
        out
    }

    /// write the tree with the `target`-th definite-length header (in the order of `headers`) announcing `len`
    fn write_lying(&self, out: &mut Vec<u8>, k: &mut usize, target: usize, len: &LenChoice, how: &mut &'static str) {
        let sized = matches!(self, C::A(_) | C::Cfg(_) | C::M(_) | C::T(_) | C::B(_));
        let here = sized && {
            let h = *k == target;
            *k += 1;
            h
        };
        // None = indefinite length
        let mut adj = |real: u64| -> Option<u64> {
            if !here {
                return Some(real);
            }
            match len {
                LenChoice::Delta(d) => {
                    *how = if *d >= 0 { "a-bit-more" } else { "a-bit-less" };
                    Some((real as i128 + *d as i128).clamp(0, u64::MAX as i128) as u64)
                }
                LenChoice::Abs(i) => {
                    let v = HEAD_LENS[*i as usize % HEAD_LENS.len()];
                    *how = if v <= 256 {
                        "small"
                    } else if v < 1 << 31 {
                        "2^16..2^31"
                    } else if v <= 1 << 32 {
                        "2^31..2^32"
                    } else if v < 1 << 63 {
                        "2^32..2^63"
                    } else {
                        "2^63..u64::MAX"
                    };
                    Some(v)
                }
                LenChoice::Shift(s) => {
                    *how = "real-times-2^k";
                    Some(real.max(1).checked_shl(1 + (*s as u32 % 62)).unwrap_or(u64::MAX))
                }
                LenChoice::Indef => {
                    *how = "indefinite";
                    None
                }
            }
        };
        match self {
            C::A(v) | C::Cfg(v) => {
                let real = v.len() as u64 + if matches!(self, C::Cfg(_)) { 1 } else { 0 };
                let a = adj(real);
                match a {
                    Some(a) => cbor_head(out, 4, a),
                    None => out.push(0x9f),
                }
                v.iter().for_each(|x| x.write_lying(out, k, target, len, how));
                if a.is_none() {
                    out.push(0xff);
                }
            }
            C::M(v) => {
                let a = adj(v.len() as u64);
                match a {
                    Some(a) => cbor_head(out, 5, a),
                    None => out.push(0xbf),
                }
                v.iter().for_each(|(x, y)| {
                    x.write_lying(out, k, target, len, how);
                    y.write_lying(out, k, target, len, how)
                });
                if a.is_none() {
                    out.push(0xff);
                }
            }
            C::T(_) | C::B(_) => {
                let (major, bytes): (u8, &[u8]) = match self {
                    C::T(s) => (3, s.as_bytes()),
                    C::B(b) => (2, b),
                    _ => unreachable!(),
                };
                match adj(bytes.len() as u64) {
                    Some(a) => {
                        cbor_head(out, major, a);
                        out.extend_from_slice(bytes);
                    }
                    None => {
                        // one definite chunk inside an indefinite-length string
                        out.push((major << 5) | 31);
                        cbor_head(out, major, bytes.len() as u64);
                        out.extend_from_slice(bytes);
                        out.push(0xff);
                    }
                }
            }
            C::Tag(t, x) => {
                cbor_head(out, 6, *t);
                x.write_lying(out, k, target, len, how);
            }
            C::IndefA(v) => {
                out.push(0x9f);
                v.iter().for_each(|x| x.write_lying(out, k, target, len, how));
                out.push(0xff);
            }
            C::IndefM(v) => {
                out.push(0xbf);
                v.iter().for_each(|(x, y)| {
                    x.write_lying(out, k, target, len, how);
                    y.write_lying(out, k, target, len, how)
                });
                out.push(0xff);
            }
            C::IndefS(major, v) => {
                out.push((major << 5) | 31);
                v.iter().for_each(|x| x.write_lying(out, k, target, len, how));
                out.push(0xff);
            }
            other => other.write_into(out),
        }
    }
}

/// does the file still parse syntactically in its format? (text files always do)
pub fn syntactic(name: &str, bytes: &[u8]) -> bool {
    if name.ends_with(".json") {
        J::parse(bytes).is_some()
    } else if name.ends_with(".csv") {
        csv_parse(bytes).is_some()
    } else if name.ends_with(".cbor") {
        C::parse_stam(bytes).is_some() || C::parse(bytes).is_some()
    } else {
        std::str::from_utf8(bytes).is_ok()
    }
}

/// do two versions of a file differ in meaning (not merely in white space)?
pub fn differs(name: &str, a: &[u8], b: &[u8]) -> bool {
    if a == b {
        return false;
    }
    if name.ends_with(".json") {
        match (J::parse(a), J::parse(b)) {
            (Some(x), Some(y)) => x != y,
            _ => true,
        }
    } else if name.ends_with(".csv") {
        match (csv_parse(a), csv_parse(b)) {
            (Some(x), Some(y)) => x != y,
            _ => true,
        }
    } else {
        true
    }
}

// ================================================================================================
// container format of the fuzz targets: files separated by lines "##### <name>"; the first part is the main document

pub fn container_split(data: &[u8], main_name: &str) -> DocSet {
    let mut docs: DocSet = vec![];
    let mut name = main_name.to_string();
    let mut cur: Vec<u8> = vec![];
    let mut i = 0;
    let mut at_line_start = true;
    while i < data.len() {
        if at_line_start && data[i..].starts_with(b"##### ") {
            let end = data[i..].iter().position(|b| *b == b'\n').map(|p| i + p).unwrap_or(data.len());
            let new_name = String::from_utf8_lossy(&data[i + 6..end]).trim().to_string();
            // the newline before the separator belongs to the separator
            if cur.last() == Some(&b'\n') {
                cur.pop();
            }
            docs.push((std::mem::replace(&mut name, new_name), std::mem::take(&mut cur)));
            i = (end + 1).min(data.len());
            at_line_start = true;
            continue;
        }
        at_line_start = data[i] == b'\n';
        cur.push(data[i]);
        i += 1;
    }
    docs.push((name, cur));
    docs
}

pub fn container_join(docs: &DocSet) -> Vec<u8> {
    let mut out = vec![];
    for (i, (name, bytes)) in docs.iter().enumerate() {
        if i > 0 {
            out.extend_from_slice(b"\n##### ");
            out.extend_from_slice(name.as_bytes());
            out.push(b'\n');
        }
        out.extend_from_slice(bytes);
    }
    out
}

/// a file name that stays inside the scratch directory
pub fn safe_name(name: &str) -> bool {
    !name.is_empty()
        && name.len() < 120
        && name != "."
        && name != ".."
        && name != "-"
        && !name.contains('/')
        && !name.contains('\\')
        && !name.contains('\0')
}
